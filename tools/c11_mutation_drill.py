#!/usr/bin/env python3
"""Mutation drills for C11 (scratch only; never touches /repo or /verif)."""
import subprocess, sys, os, shutil, json, re

ROOT = "/var/tmp/agent_c/mut"
REPO = ROOT + "/repo"
ENV = dict(os.environ, CARGO_TARGET_DIR="/var/tmp/agent_c/target_mut", CARGO_NET_OFFLINE="true",
           VERIF_REPO=REPO, VERIF_SCRATCH="/var/tmp/agent_c/regen")

MUTS = {
 "M1-client-path-ignores-emit_package(server_streaming)": ("tonic-build/src/client.rs",
    "    let path = format_method_path(service, method, emit_package);\n    let method_name = method.identifier();\n\n    quote! {\n        pub async fn #ident(\n            &mut self,\n            request: impl tonic::IntoRequest<#request>,\n        ) -> std::result::Result<tonic::Response<tonic::codec::Streaming<#response>>, tonic::Status> {",
    "    let path = format_method_path(service, method, true);\n    let method_name = method.identifier();\n\n    quote! {\n        pub async fn #ident(\n            &mut self,\n            request: impl tonic::IntoRequest<#request>,\n        ) -> std::result::Result<tonic::Response<tonic::codec::Streaming<#response>>, tonic::Status> {"),
 "M2-client-streaming-flags-crossed": ("tonic-build/src/client.rs",
    "        let method = match (method.client_streaming(), method.server_streaming()) {",
    "        let method = match (method.server_streaming(), method.client_streaming()) {"),
 "M3-prost-method-identifier-is-rust-name": ("tonic-build/src/prost.rs",
    "    fn identifier(&self) -> &str {\n        &self.prost_method.proto_name\n    }",
    "    fn identifier(&self) -> &str {\n        &self.prost_method.name\n    }"),
 "M3b-prost-service-identifier-is-rust-name": ("tonic-build/src/prost.rs",
    "    fn identifier(&self) -> &str {\n        &self.prost_service.proto_name\n    }",
    "    fn identifier(&self) -> &str {\n        &self.prost_service.name\n    }"),
 "M4-hand-edit-committed-health-doc": ("tonic-health/src/generated/grpc_health_v1.rs",
    "/// Generated client implementations.", "/// Generated client implementation."),
 "M4b-hand-edit-committed-reflection-arm": ("tonic-reflection/src/generated/grpc_reflection_v1.rs",
    "\"/grpc.reflection.v1.ServerReflection/ServerReflectionInfo\" => {",
    "\"/grpc.reflection.v1.ServerReflection/ServerReflectionInf\" => {"),
 "M4c-extra-committed-file": ("tonic-types/src/generated/extra.rs", None, "// stray\n"),
 "M5-service-name-without-package": ("tonic-build/src/server.rs",
    "    let named = generate_named(&server_service, &service_name);",
    "    let named = generate_named(&server_service, service.identifier());"),
 "M6-server-streaming-req-resp-swapped": ("tonic-build/src/server.rs",
    "    let (request, response) = method.request_response_name(proto_path, compile_well_known_types);\n\n    let response_stream = if !generate_default_stubs {\n        let stream = quote::format_ident!(\"{}Stream\", method.identifier());\n        quote!(type ResponseStream = T::#stream)\n    } else {\n        quote!(type ResponseStream = BoxStream<#response>)\n    };\n\n    let inner_arg = if use_arc_self {\n        quote!(inner)\n    } else {\n        quote!(&inner)\n    };\n\n    quote! {\n        #[allow(non_camel_case_types)]\n        struct #service_ident<T: #server_trait>(pub Arc<T>);",
    "    let (response, request) = method.request_response_name(proto_path, compile_well_known_types);\n\n    let response_stream = if !generate_default_stubs {\n        let stream = quote::format_ident!(\"{}Stream\", method.identifier());\n        quote!(type ResponseStream = T::#stream)\n    } else {\n        quote!(type ResponseStream = BoxStream<#response>)\n    };\n\n    let inner_arg = if use_arc_self {\n        quote!(inner)\n    } else {\n        quote!(&inner)\n    };\n\n    quote! {\n        #[allow(non_camel_case_types)]\n        struct #service_ident<T: #server_trait>(pub Arc<T>);"),
 "M7-grpcmethod-args-swapped(bidi)": ("tonic-build/src/client.rs",
    "GrpcMethod::new(#service_name,#method_name)", "GrpcMethod::new(#method_name,#service_name)"),
 "M8-server-grpc-call-crossed(client_streaming->streaming)": ("tonic-build/src/server.rs",
    "let res = grpc.client_streaming(method, req).await;", "let res = grpc.streaming(method, req).await;"),
 "M9-server-arm-uses-method-name-for-path": ("tonic-build/src/server.rs",
    "        let path = format_method_path(service, method, emit_package);\n        let method_path",
    "        let path = format!(\"/{}/{}\", crate::format_service_name(service, emit_package), method.name());\n        let method_path"),
 "M10-manual-compile-drops-transport-only(no-op control)": ("tonic-build/src/manual.rs",
    ".build_transport(self.builder.build_transport)", ".build_transport(true)"),
 "M11-emit_package-ignored-by-prost-client": ("tonic-build/src/prost.rs",
    "            let client = CodeGenBuilder::new()\n                .emit_package(self.builder.emit_package)",
    "            let client = CodeGenBuilder::new()\n                .emit_package(true)"),
 "M12-codegen-main-drops-server-for-health": ("codegen/src/main.rs",
    "        &PathBuf::from(\"src/generated/grpc_health_v1_fds.rs\"),\n        true,\n        true,",
    "        &PathBuf::from(\"src/generated/grpc_health_v1_fds.rs\"),\n        true,\n        false,"),
}

def sh(cmd, cwd):
    return subprocess.run(cmd, cwd=cwd, env=ENV, capture_output=True, text=True)

def run(name):
    f, old, new = MUTS[name]
    path = os.path.join(REPO, f)
    orig = open(path).read() if os.path.exists(path) else None
    if old is None:
        open(path, "w").write(new)
    else:
        assert orig.count(old) >= 1, (name, "pattern not found")
        open(path, "w").write(orig.replace(old, new, 1))
    try:
        b = sh(["cargo", "build", "--release", "--offline"], ROOT + "/harness")
        if b.returncode != 0:
            print(name, "=> HARNESS BUILD FAILED\n", "\n".join(l for l in b.stderr.splitlines() if l.startswith("error"))[:500])
            return
        for d in ("evidence", "replays"):
            shutil.rmtree(os.path.join(ROOT, d), ignore_errors=True); os.makedirs(os.path.join(ROOT, d))
        open(os.path.join(ROOT, "known_findings.txt"), "a").close()
        r = sh(["/var/tmp/agent_c/target_mut/release/mc", "C11", "quick"], ROOT)
        keys = {}
        try:
            ev = json.load(open(ROOT + "/evidence/C11.json"))
            for s in ev["coverage"]["sections"]:
                for v in s["violations"]:
                    keys[f'{s["section"]}:{v["key"]}'] = v["count"]
        except Exception as e:
            keys = {"<no evidence>": str(e)}
        mach = [l for l in r.stdout.splitlines() if l.startswith("MACHINERY")]
        print(f"{name} => exit {r.returncode} keys={json.dumps(keys)} {mach[:1]}")
        first = [l for l in r.stdout.splitlines() if l.startswith("  violation")][:2]
        for l in first: print("     ", l[:420])
    finally:
        if orig is None:
            os.remove(path)
        else:
            open(path, "w").write(orig)

if __name__ == "__main__":
    names = sys.argv[1:] or list(MUTS)
    for n in names:
        for k in MUTS:
            if k.startswith(n):
                run(k)
