#!/bin/bash
# Re-issues the C15 fixture certificates from the committed keys with a validity window that
# starts in the past (2020-01-01 .. 2126-01-01), so the checks do not depend on the sandbox
# clock being later than the moment the fixtures were made.  Not run by any check.
set -euo pipefail
FX=/verif/fixtures/tls
W=$(mktemp -d /var/tmp/tlsgen.XXXXXX)
cd "$W"
mkca() { # name
  mkdir -p "$1/new"; : > "$1/index.txt"; echo 1000 > "$1/serial"
  cat > "$1/ca.cnf" <<CNF
[ca]
default_ca = c
[c]
dir = $W/$1
database = \$dir/index.txt
new_certs_dir = \$dir/new
serial = \$dir/serial
default_md = sha256
policy = pol
unique_subject = no
copy_extensions = none
[pol]
commonName = supplied
[v3_ca]
basicConstraints = critical,CA:TRUE
keyUsage = critical,keyCertSign,cRLSign
subjectKeyIdentifier = hash
[v3_server]
basicConstraints = CA:FALSE
keyUsage = critical,digitalSignature
extendedKeyUsage = serverAuth
subjectAltName = DNS:server.test
subjectKeyIdentifier = hash
[v3_client]
basicConstraints = CA:FALSE
keyUsage = critical,digitalSignature
extendedKeyUsage = clientAuth
subjectKeyIdentifier = hash
CNF
}
cn_of() { openssl x509 -in "$FX/$1.pem" -noout -subject -nameopt multiline | sed -n 's/^ *commonName *= //p'; }
S=20200101000000Z; E=21260101000000Z
for ca in ca_a ca_b; do
  mkca $ca
  openssl req -new -key $FX/$ca.key -subj "/CN=$(cn_of $ca)" -out $ca.csr
  openssl ca -batch -config $ca/ca.cnf -selfsign -keyfile $FX/$ca.key -in $ca.csr -extensions v3_ca -startdate $S -enddate $E -notext -out $ca.pem
done
issue() { # leaf ca ext
  openssl req -new -key $FX/$1.key -subj "/CN=$(cn_of $1)" -out $1.csr
  openssl ca -batch -config $2/ca.cnf -cert $2.pem -keyfile $FX/$2.key -in $1.csr -extensions $3 -startdate $S -enddate $E -notext -out $1.pem
}
issue server ca_a v3_server
issue client_a ca_a v3_client
issue client_b ca_b v3_client
for f in ca_a ca_b server client_a client_b; do cp $f.pem $FX/$f.pem; done
cd /
rm -r "$W"
