#!/bin/bash
# tools/run_benign.sh [patch...] — false-alarm drill: apply each behaviour-preserving change of
# /verif/benign to /repo, run every quick check, expect OK everywhere, undo.
set -u
cd /verif
patches=("$@"); [ ${#patches[@]} -eq 0 ] && patches=(benign/*.diff)
ids=${IDS:-"C01 C02 C03 C04 C05 C06 C07 C08 C09 C10 C11 C12 C13 C14 C15 C16 C17 C18 C19 C20"}
for p in "${patches[@]}"; do
  if ! git -C /repo diff --quiet; then echo "/repo has uncommitted changes"; exit 2; fi
  git -C /repo apply "$(realpath "$p")" || { echo "$p: does not apply"; continue; }
  bad=""
  for id in $ids; do
    out=$(./check "$id" quick 2>&1); rc=$?
    if [ $rc -ne 0 ]; then bad="$bad $id(rc=$rc)"; echo "$out" | grep -E "violation key=|VIOLATION|MACHINERY|error" | cut -c1-400 | head -4; fi
  done
  git -C /repo checkout -- .
  echo "BENIGN $(basename "$p"): ${bad:-all quiet}"
done
