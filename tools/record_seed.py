#!/usr/bin/env python3
"""tools/record_seed.py <seed_name> <check ids...>
Copies a confirmed seeded change from /tmp/seed_out/<seed_name> into /verif/seeded/<seed_name>/ (patch.diff, demo.diff,
README.md), runs the listed quick checks against it (apply to /repo, check, undo) and writes meta.json."""
import json, os, re, shutil, subprocess, sys
name, checks = sys.argv[1], sys.argv[2:]
src = f"/tmp/seed_out/{name}"
dst = f"/verif/seeded/{name}"
os.makedirs(dst, exist_ok=True)
for f in ("patch.diff", "demo.diff", "README.md"):
    shutil.copy(os.path.join(src, f), os.path.join(dst, f))
confirm = open(os.path.join(src, "confirm.log")).read() if os.path.exists(os.path.join(src, "confirm.log")) else ""
summary = [l.strip() for l in confirm.splitlines() if l.strip().startswith("Summary")]
other_fail = sorted({l.strip() for l in confirm.splitlines() if l.strip().startswith("FAIL ") and "connect_handles_tls" not in l and "=== demo" not in l})
demo_cmd = re.findall(r"=== demo WITH change: (.*)", confirm)
readme = open(os.path.join(src, "README.md")).read()
# split the log at the demo markers to get the demo verdicts
parts = re.split(r"=== demo (?:WITH|WITHOUT) change: .*\n", confirm)
def verdict(txt):
    m = re.findall(r"test result: (\w+)\.", txt)
    return m[-1] if m else ("FAILED" if "error" in txt else "unknown")
demo_with = verdict(parts[1]) if len(parts) > 1 else "not run"
demo_without = verdict(parts[2]) if len(parts) > 2 else "not run"
subprocess.run(["git", "-C", "/repo", "diff", "--quiet"], check=True)
subprocess.run(["git", "-C", "/repo", "apply", os.path.join(dst, "patch.diff")], check=True)
results = {}
try:
    for c in checks:
        p = subprocess.run(["./check", c, "quick"], cwd="/verif", capture_output=True, text=True)
        keys = sorted(set(re.findall(r"violation key=(\S+)", p.stdout)))
        results[c] = {"exit": p.returncode, "violation_keys": keys}
finally:
    subprocess.run(["git", "-C", "/repo", "checkout", "--", "."], check=True)
prop = name[:3]
needs = ""
m = re.search(r"(?is)##\s*What it needs[^\n]*\n(.*?)(\n## |\Z)", readme)
if m:
    needs = " ".join(m.group(1).split())[:900]
meta = {
    "seed": name,
    "breaks_property": prop,
    "origin": "independent sub-agent given only the property text and a scratch git worktree of /repo under /tmp",
    "needs_to_manifest": needs or "see README.md",
    "confirmed_in_scratch_worktree": {
        "repository_suite_with_change": summary[0] if summary else "not run",
        "other_failing_tests_than_connect_handles_tls": other_fail,
        "demonstration_command": demo_cmd[0] if demo_cmd else "",
        "demonstration_with_change": demo_with,
        "demonstration_without_change": demo_without,
    },
    "quick_checks_run_against_it": results,
    "caught_by": [c for c, r in results.items() if r["exit"] == 1],
    "missed_by": [c for c, r in results.items() if r["exit"] == 0],
    "how_to_rerun": f"git -C /repo apply /verif/seeded/{name}/patch.diff && (cd /verif && ./check <ID> quick); git -C /repo checkout -- .",
}
json.dump(meta, open(os.path.join(dst, "meta.json"), "w"), indent=1)
print(name, "caught_by", meta["caught_by"], "missed_by", meta["missed_by"], "| suite:", meta["confirmed_in_scratch_worktree"]["repository_suite_with_change"], "| demo with/without:", demo_with, demo_without)
