#!/bin/bash
# tools/c11_regen_diff.sh [repo-dir]
#
# Human-readable companion of C11's "regeneration-diff" section (harness/src/props/c11.rs does the
# same thing from inside `mc C11`; this script exists to look at the full unified diff when that
# section reports `regen-diff:<crate>`).
#
# Copies <repo> (default /repo, without target/.git) to $VERIF_SCRATCH/src (the same place the check
# uses: the generator has its own location baked in, so the build cache is only valid for that path;
# the check's lock file is honoured), empties the copy's
# src/generated directories, builds and runs the repo's own `codegen` crate there (offline, target
# dir shared with the check: $VERIF_SCRATCH/target) and prints `diff -ru` of every generated tree
# against the committed one. Exit 0 = identical, 1 = differences, 2 = could not regenerate.
set -u
repo="${1:-${VERIF_REPO:-/repo}}"
scratch="${VERIF_SCRATCH:-/verif/target/regen}"
src="$scratch/src"
mkdir -p "$scratch/target" || exit 2
exec 9>"$scratch/.lock" && flock 9 || exit 2
readlink -f "$scratch" | tr -d '\n' > "$scratch/target/.scratch-root"
# the check keeps content-based mtimes in manifest.txt; this run bypasses that, so make the next
# check run treat every file as changed (rebuilds the two small workspace crates)
rm -f "$scratch/manifest.txt"
rm -rf "$src"
rsync -a --exclude /target --exclude /.git "$repo"/ "$src"/ || exit 2
for c in tonic-health tonic-reflection tonic-types; do
  find "$src/$c/src/generated" -maxdepth 1 -type f -delete
done
# rsync keeps /repo's mtimes; make sure the two workspace crates involved are rebuilt from this copy
touch "$src/codegen/src/main.rs" "$src/tonic-build/src/lib.rs"
if ! (cd "$src" && CARGO_TARGET_DIR="$scratch/target" CARGO_NET_OFFLINE=true cargo run -p codegen --offline --quiet); then
  echo "regeneration failed" >&2
  rm -rf "$src"
  exit 2
fi
rc=0
for c in tonic-health tonic-reflection tonic-types; do
  if ! diff -ru "$repo/$c/src/generated" "$src/$c/src/generated"; then rc=1; fi
done
rm -rf "$src"
[ $rc -eq 0 ] && echo "committed generated code is identical to the generator's output"
exit $rc
