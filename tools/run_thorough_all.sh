#!/bin/bash
# runs every thorough check sequentially, logging wall time and verdict
cd /verif
for id in ${IDS:-C02 C03 C04 C05 C06 C07 C08 C09 C10 C11 C12 C13 C14 C15 C16 C17 C18 C19 C20 C01}; do
  s=$(date +%s); out=$(./check $id thorough 2>&1); rc=$?; e=$(date +%s)
  echo "$id rc=$rc wall=$((e-s))s $(echo "$out" | grep -E '^OK|VIOLATION|MACHINERY' | head -2 | cut -c1-200)"
done
