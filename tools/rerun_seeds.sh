#!/bin/bash
# tools/rerun_seeds.sh — apply every recorded seeded change to /repo in turn, run the quick check of the property it
# was written against (plus the others listed in its meta.json), undo, and refresh meta.json's check results.
set -u
cd /verif
for d in seeded/*/; do
  n=$(basename "$d")
  # ONLY=<regex> restricts the run (e.g. ONLY='^C0[1-9](w[23])?_')
  if [ -n "${ONLY:-}" ] && ! echo "$n" | grep -Eq "$ONLY"; then continue; fi
  ids=$(python3 -c "import json;print(' '.join(json.load(open('$d/meta.json'))['quick_checks_run_against_it'].keys()))")
  git -C /repo diff --quiet || { echo "/repo dirty"; exit 2; }
  git -C /repo apply "/verif/${d}patch.diff" || { echo "$n: patch does not apply"; continue; }
  res="{}"
  for id in $ids; do
    out=$(./check "$id" quick 2>&1); rc=$?
    keys=$(echo "$out" | grep -o "violation key=[^ ]*" | sed 's/violation key=//' | sort -u | tr '\n' ',' )
    res=$(python3 -c "import json,sys;r=json.loads(sys.argv[1]);r['$id']={'exit':$rc,'violation_keys':[k for k in '$keys'.split(',') if k]};print(json.dumps(r))" "$res")
  done
  git -C /repo checkout -- .
  python3 - "$d/meta.json" "$res" <<'PY'
import json,sys
m=json.load(open(sys.argv[1])); r=json.loads(sys.argv[2])
m['quick_checks_run_against_it']=r
m['caught_by']=[c for c,v in r.items() if v['exit']==1]
m['missed_by']=[c for c,v in r.items() if v['exit']==0]
json.dump(m,open(sys.argv[1],'w'),indent=1)
print(m['seed'],'caught_by',m['caught_by'],'missed_by',m['missed_by'],'other',[c for c,v in r.items() if v['exit'] not in (0,1)])
PY
done
