#!/bin/bash
# tools/try_seed.sh <patch.diff> <ID> [more IDs...]  — apply a seeded change to /repo, run the quick checks, undo.
set -u
patch="$1"; shift
cd /repo || exit 2
if ! git diff --quiet; then echo "/repo has uncommitted changes"; exit 2; fi
git apply "$patch" || { echo "patch does not apply"; exit 2; }
cd /verif
for id in "$@"; do
  out=$(./check "$id" ${TIER:-quick} 2>&1); rc=$?
  echo "== $id rc=$rc"
  echo "$out" | grep -E "violation key=|VIOLATION|MACHINERY|KNOWN|^OK" | cut -c1-420 | head -${LINES_MAX:-8}
done
git -C /repo checkout -- .
git -C /repo status --short | head -3
