#!/usr/bin/env python3
"""Regenerates /verif/MANIFEST.json from the table below (kept in one place so the manifest is valid at all times)."""
import json, os, sys
HERE = os.path.dirname(os.path.dirname(os.path.abspath(__file__)))
BASE = "cd /repo && cargo nextest run --workspace --no-fail-fast --tool-config-file pb:/w/lib/nextest.toml --profile pb --test-threads 8 --offline"
TECH = "stateless explicit-path model checking of the real code: exhaustive deviation-bounded enumeration of environment answers (choice-vector explorer) against a reference model"
# id -> (category, technique, text, note, design_ref)
CHECKS = {
 "C07": ("model_checking", TECH,
         "Every chunking/Pending/empty-frame schedule with <= bound deviations (plus drip) of every hostile input in the stated alphabets is executed on the real Streaming decoder and compared with an independent longest-valid-prefix parser; first error must be final, no panic, no busy loop.",
         "Inputs outside the alphabets (byte strings <= 7 over 6 values; single mutations of valid streams) are not covered; flate2/zstd/prost trusted as reference decoders.", "3/C07"),
}
PENDING = {}
def main():
    props = [json.loads(l)["id"] for l in open(os.path.join(HERE, "properties.jsonl"))]
    checks = []
    for pid in props:
        if pid in CHECKS:
            cat, tech, text, note, ref = CHECKS[pid]
            checks.append({
                "property_id": pid,
                "quick_cmd": f"./check {pid} quick",
                "thorough_cmd": f"./check {pid} thorough",
                "evidence_file": f"/verif/evidence/{pid}.json",
                "replay_cmd_template": f"./check {pid} --replay {{path}}",
                "engine": "mc",
                "level_claimed": {"category": cat, "text": text, "design_ref": f"DESIGN.md section {ref}"},
                "level_note": note,
                "technique": tech,
            })
    na = [{"property_id": p, "reason": PENDING.get(p, "check not built yet in this round (designed in DESIGN.md section 3; model checking applies)")} for p in props if p not in CHECKS]
    m = {
        "version": 1,
        "setup_cmd": "cd /verif/harness && CARGO_NET_OFFLINE=true cargo build --release --offline",
        "hooks": {
            "guard": "cargo feature `verif-hooks` (crates tonic and tonic-health), default off",
            "enable": "the harness crate /verif/harness depends on /repo/tonic and /repo/tonic-health by path with features = [\"verif-hooks\"]; every ./check invocation runs cargo build, which rebuilds them from /repo's working tree",
            "baseline_off_cmd": BASE,
            "source_commits": ["86954f7d", "d8b48e2c"],
            "add_only": True,
        },
        "engines": [{
            "name": "mc", "path": "/verif/harness",
            "serves_properties": sorted(CHECKS.keys()),
            "kind_free_text": "hand-rolled choice-vector explorer (stateless DFS, iterative deviation bounding, parallel over cases) re-executing the real tonic code under owned environments (scripted bodies/streams/connectors, virtual-time tokio, deterministic task scheduler); independent oracles in harness/src/oracle",
        }],
        "checks": checks,
        "not_applicable": na,
        "notes": "Entry point ./check <ID> [quick|thorough] [--replay file]; exit 0 held / 1 VIOLATION / 2 machinery error. Known findings: /verif/known_findings.txt.",
    }
    json.dump(m, open(os.path.join(HERE, "MANIFEST.json"), "w"), indent=1)
    print("wrote MANIFEST.json with", len(checks), "checks;", len(na), "not_applicable")
main()
