#!/usr/bin/env python3
"""Regenerates /verif/MANIFEST.json from the table below (kept in one place so the manifest is valid at all times)."""
import json, os, sys
HERE = os.path.dirname(os.path.dirname(os.path.abspath(__file__)))
BASE = "cd /repo && cargo nextest run --workspace --no-fail-fast --tool-config-file pb:/w/lib/nextest.toml --profile pb --test-threads 8 --offline"
TECH = "stateless explicit-path model checking of the real code: exhaustive deviation-bounded enumeration of environment answers (choice-vector explorer) against a reference model"
# id -> (category, technique, text, note, design_ref)
EXH = "exhaustive enumeration of finite input/configuration alphabets on the real code against independent oracles (choice-vector explorer, no sampling)"
CHECKS = {
 "C01": ("model_checking", TECH,
         "Every source-readiness pattern of the real encoder (all message sequences/codecs/encodings/buffer settings in the alphabet) and every chunking of its output within the bound (all compositions for short identity streams, <= 2/3 cuts + Pending + empty frames otherwise, plus byte drip) fed to the real Streaming decoder; decoded messages must equal the originals, encoder bytes must be independent of readiness/batching, and an independent frame parser + decompressor must recover the serialisations.",
         "Payload values: two byte patterns x sizes, not all bytes; chunkings beyond the cut bound only via drip; flate2/zstd trusted as reference.", "3/C01"),
 "C02": ("model_checking", TECH,
         "Generated client wired in-process to the generated server: all four shapes x request sequences x handler scripts (initial metadata, messages, every non-OK code with message/details/metadata menus, handler-level errors, echo/read-all/ignore modes); both bodies re-delivered under every chunking within the bound, sources answering Pending; the same scripts again through the real transport (Endpoint::connect_with_connector -> Channel -> hyper/h2 -> in-memory pipe with a fragmentation menu -> Server) in virtual time, plus compressed large compressible/incompressible messages in both directions; the caller's and handler's views are compared with the script; message sources must never be polled after their end.",
         "hyper/h2 frame interleavings are represented by body chunkings (L1) and by a menu of six pipe fragmentation patterns (L2), not enumerated below event granularity; reserved metadata names belong to C08.", "3/C02"),
 "C03": ("model_checking", TECH,
         "EncodeBody for every message sequence x encoding x role x outcome (OK, source error, encoder failure, size limit) under every source-readiness pattern, polled to exhaustion, plus the captured http request/response of every C02 call case x compression configuration, judged by an independent frame parser/decompressor: POST, HTTP/2, path, content-type, te, exactly one grpc-status in the right place, nothing after the trailers, flags and compression as announced; and the messages that really cross the transport, observed by NON-tonic peers (tonic client -> bare hyper HTTP/2 server; bare hyper client -> tonic Server) over in-memory pipes.",
         "hyper/h2 are the transport under the bare peers (their HTTP/2 serialisation is trusted). Handler streams that yield after their first Err are outside the alphabet.", "3/C03"),
 "C04": ("exploration", EXH,
         "Every status in the stated alphabets (17 codes, per-byte-class message menu, all details of length <= 2 and every length mod 3, metadata maps incl. forged reserved names) round-trips through add_header/into_http -> from_header_map and the real client, with raw header bytes judged by hand-written percent/base64 decoders; every header map from the malformed-value menus is read without panic; every HTTP status 100..=599 and HTTP/2 error code is compared with tables transcribed from grpc/doc.",
         "Small-scope exhaustiveness (one value per branch of the encoding set), not a proof; leading-zero grpc-status values may be read numerically or as UNKNOWN; h2 errors built from a Reason only.", "3/C04"),
 "C05": ("exploration", EXH,
         "Generated server with every ordered subset of {gzip,deflate,zstd} for send and for accept x a menu of grpc-accept-encoding / grpc-encoding header values (lists, spacing, unknown/upper-case/obs-text tokens) x compressed-flag/payload combinations x shapes, and the generated client with every send/accept configuration against scripted responses; announced encodings must be configured and offered, refusals UNIMPLEMENTED with the exact accept set, flag 1 (also with a zero-length payload) without encoding INTERNAL; the same negotiation with the server behind GrpcWebLayer (the layer must not offer encodings on the client's behalf).",
         "Token matching uses the liberal reading (whitespace, ASCII case) so a stricter tonic never alarms; whether an eligible encoding must be used is left open.", "3/C05"),
 "C06": ("model_checking", TECH,
         "Decoder: limits {0,1,5,64,4 MiB} x wire lengths L-1/L/L+1 (identity and compressed) x position x bare prefixes declaring up to 2^32-1 under every chunking within the bound; OUT_OF_RANGE must come with no chunk requested beyond the one completing the prefix and (tracking allocator) no reservation of the declared length. Encoder: oversized item at every position under every readiness pattern and both batching regimes; every earlier frame must be delivered before the status (thorough adds the > 4 GiB branch); limits of 2^32 and more must not be truncated; limits set through the generated client/server builders ({none, decoding, encoding, both} on each side) are enforced end to end.",
         "Limits outside the menu are represented by these; allocation check applies to bare prefixes >= 1 MiB.", "3/C06"),
 "C07": ("model_checking", TECH,
         "Every chunking/Pending/empty-frame schedule with <= bound deviations (plus drip) of every hostile input in the stated alphabets is executed on the real Streaming decoder and compared with an independent longest-valid-prefix parser; first error must be final, no panic, no busy loop.",
         "Inputs outside the alphabets (byte strings <= 5/7 over 6 values; single mutations of valid streams) are not covered; flate2/zstd/prost trusted as reference decoders.", "3/C07"),
 "C08": ("exploration", EXH,
         "Every metadata map of the stated alphabet (keys a, a-bin, x-y, bin, -bin, abin, grpc-timeout and the six reserved names; binary values of every length mod 3 over {00,3D,FB,FF}; ASCII value menu; repeated keys; permuted insertion orders) is carried as request metadata, response headers, trailers-only status and trailers status through generated client -> generated server in-process (raw header blocks and the peer's typed view judged with hand-written base64/percent decoders) and once through the real Channel/h2/Server stack; padded and unpadded input on seven receiving routes; every typed accessor/iterator under five key spellings; header+trailer merging against a non-tonic peer.",
         "exhaustive over the listed alphabets only; forgery is judged by value with menus tonic never sends itself; the transport pass judges the peer's view only.", "3/C08"),
 "C09": ("exploration", EXH,
         "Request::set_timeout over durations around every unit boundary and every power of ten up to the largest representable: the emitted grpc-timeout must match the grammar, denote <= requested and lose < 1 unit; the private parser (hook H1) is run on every digit string of 1..4 digits x 6 units, and on the 5..8 digit strings by blocks (thorough: all 666 666 660 conformant values), plus every string <= 3/4 chars over a malformed alphabet and a malformed menu: conformant => exactly the denoted Duration, malformed => ignored.",
         "Enforcement runs in virtual time (paused tokio clock) against NON-tonic peers so that one side cannot mask the other: the full caller x configured x latency grid for Server::timeout (bare hyper client) and Endpoint::timeout + set_timeout (bare hyper server), zero deadlines, malformed caller values with a configured timeout, and a tonic-to-tonic pass for the status text; parser observed through the add-only hook.", "3/C09"),
 "C10": ("exploration", EXH,
         "Every non-empty subset of five generated fixture services whose names are prefixes / case variants / package-less variants of one another, registered in several orders through Routes/RoutesBuilder with plain, intercepted and grpc-web wrapping, is sent every path of a mutation menu (exact, query, trailing slash, extra/empty/dot segments, one char added/removed, case flips, percent-encoded letters) and compared with a reference router: the handler (S, M) runs iff the path is exactly /S/M, otherwise no handler runs and grpc-status is 12; the same through the real transport server (Server::builder().add_service / add_optional_service(Some|None)) with a bare hyper HTTP/2 client sending every path.",
         "Request targets the http crate cannot represent are outside the alphabet; the fixture servers are generated by the real tonic_build at harness build time.", "3/C10"),
 "C11": ("translation_validation", "exhaustive enumeration of a bounded service-definition grammar through the real generator; generated code parsed with syn and compared with a reference computed from the descriptor; byte comparison of committed generated files with a regeneration",
         "Every service definition of a bounded grammar (package absent/simple/nested x service names x 1..3 methods over CamelCase/snake/digit/Rust-keyword identifiers x 4 streaming kinds x emit_package x use_arc_self x default stubs x build_transport x client/server only) goes through the real tonic_build via both front ends (manual and .proto -> protox -> compile_fds); client path literal, GrpcMethod strings, Grpc call, shape and types, server match arm, Grpc call, trait and SERVICE_NAME are extracted with syn and compared with a descriptor-only reference and with each other; the committed health/reflection/types generated files are validated the same way and byte-compared with what the repo's codegen crate regenerates from the current tree.",
         "Generated code is validated structurally, not executed; options outside the grammar are not covered; the regeneration keeps a persistent cargo target under /verif/target/regen (source copy refreshed from /repo every run).", "3/C11"),
 "C12": ("exploration", EXH,
         "InterceptedService over 6720 requests (methods x versions x URIs x header maps incl. repeated/reserved/padded-binary/obs-text x extension x bodies incl. trailers) x 20 accepting actions and 142/267 rejecting statuses, judged by a recorder inner service and a reference multimap model; the reject path requires zero inner calls, 200, application/grpc, empty body and independently decoded status headers equal to Status::add_header; generated with_interceptor client and server are exercised too.",
         "Headers compared per key in order (cross-key order unconstrained); interceptors are closures over the public Request<()> API.", "3/C12"),
 "C13": ("model_checking", TECH,
         "Every interleaving (choices cost nothing) of {start call k, release the next gated handler step of call k, fire the shutdown signal, offer a new connection} for 1..2 (thorough 3) unary/server-streaming calls on 1..2 connections, each event followed by quiescence in virtual time, runs on the real Server::serve_with_incoming_shutdown over in-memory pipes (fragmentation menu; signal and new connection in the same step under 4 RNG seeds; thorough: max_connection_age); RefShutdown: every call whose handler was invoked ends with its full outcome, nothing hangs, the serve future stays unresolved while accepted calls have steps outstanding and before any signal, resolves afterwards and never with Err, a connection offered after the signal never reaches a handler.",
         "Interleavings inside hyper/h2/tokio below event granularity follow the deterministic current-thread order (varied via fragmentation patterns and RNG seeds, not enumerated); clients drop their channels once their calls have finished.", "3/C13"),
 "C14": ("fault_enumeration", "exhaustive enumeration of fault scripts (connect fails for rotating reasons / succeeds / never answers / established connection dropped / call) against the real Channel over an owned in-memory network in virtual time, with a reference model stepped in lock-step; plus exhaustive discovery histories (insert / remove endpoint, call) of a balanced channel over loopback sockets against a set model",
         "Every canonical event script up to length 6 (thorough 9) over {call, connector starts failing, connector starts succeeding, peer drops the connection} x lazy/eager x initial connector mode x connector/pipe/timeout variants runs on the real Endpoint::connect_with_connector[_lazy] -> Channel -> hyper/h2 -> Server stack; every call outcome and the number of connector invocations must equal RefChannel's (answer when connected; one attempt per call while disconnected; UNAVAILABLE only to the triggering call; eager initial failure reported by connect; never a hang under the virtual-time horizon).",
         "Faults land at quiescent points (as the quantifier states); task interleavings inside hyper/h2/tokio follow the deterministic current-thread order.", "3/C14"),
 "C15": ("exploration", "exhaustive enumeration of the finite TLS configuration matrix with real handshakes on the real Endpoint/Server code over an owned in-memory network, against a boolean reference function",
         "All 486 cells of client roots x domain source x server ALPN (tonic-terminated h2, or a harness rustls terminator offering none / http/1.1 in front of a plain tonic server) x assume_http2 x server client-auth x client identity, plus https without TLS configuration, run real ring handshakes over in-memory pipes: the call succeeds iff the reference says so (open cells unjudged), failures reach no handler, client-side verification failures surface at connect, the first bytes the client sends are a TLS handshake record (never plaintext), handlers see the verified client chain.",
         "rustls/webpki/ring trusted; certificate space = committed fixture PKI; peer certificates read from the TlsConnectInfo<()> extension because the pipe's ConnectInfo is ().", "3/C15"),
 "C16": ("model_checking", TECH,
         "Inner gRPC responses (0..2 frames, trailer-map menu) delivered to the real GrpcWebService under every chunking within the bound (all compositions for short bodies, plus drip) for every Accept value, decoded by an independent grpc-web(-text) decoder: identical message bytes then exactly one 0x80 trailers frame listing every trailer; grpc-web requests (binary and base64 text, every composition into chunks) must reach the inner service as the original gRPC bytes; the full method x version x content-type dispatch table (405 / 400 / untouched pass-through).",
         "Text responses are accepted as concatenations of independently padded base64 segments; text requests are one padded base64 stream; grpc-web media types with parameters are recorded, not judged.", "3/C16"),
 "C17": ("model_checking", TECH,
         "grpc-web response bodies from an independent encoder (0..2 message frames + trailers frame over a trailer-map menu, truncation at every byte, bad flag at every frame start) delivered through GrpcWebClientService under every chunking (all compositions for bodies <= 21/26 bytes, else <= bound cuts/Pending, plus drip); data and the full trailer multimap must be recovered, malformed bodies must error, no busy loop; a real generated client on top must see the server's status.",
         "Binary grpc-web only (the client layer never requests text); a body cut exactly at a frame boundary is not judged.", "3/C17"),
 "C18": ("model_checking", "explicit-path model checking of the real health service: exhaustive operation histories against a reference model in lock-step, and exhaustive preemption-bounded schedules under a deterministic scheduler with a brute-force linearizability oracle",
         "Histories: every operation sequence of depth 5 (thorough 6) over {set, clear, check (incl. a never-set name), watch, non-blocking next, drop} on two services x three statuses with <= 2 watches, through the generated HealthClient wired in-process to health_reporter()'s server, RefHealth stepped in lock-step. Schedules: 2-3 tasks of 1-2 operations each under a deterministic scheduler that switches at every registry lock acquisition (hook H2), every schedule with <= 2 (thorough 3) preemptions; no deadlock and the observed returns, the final state and a final poll of every live watch must be explained by some sequential order (brute-force linearizability).",
         "Scheduling points are the registry's lock acquisitions (hook); memory-ordering effects inside tokio's RwLock/watch on a multi-core runtime are trusted; the subscription instant of a lazily polled in-process watch lies between the watch call and its first poll.", "3/C18"),
 "C19": ("exploration", EXH,
         "Every 1- and 2-file descriptor set of a bounded grammar (package none/p/p.q; message forests nested to depth 2/3; fields, oneofs, top-level and nested enums, services with 1-2 methods; colliding one-letter names) x every registration mode (decoded, encoded, duplicated, split over sets) x with_service_name x include_reflection_service, plus the real health/google.rpc/reflection sets: the Builder-built v1 and v1alpha services are queried through the generated clients for every declared name, every file, list_services and hundreds of mutated unknown names, judged by an independent FQN computation; v1 and v1alpha must agree.",
         "Names outside the grammar are covered only by the four real descriptor sets; enum values are accepted under either naming rule; package names are not judged; the responder task runs on a deterministic paused current-thread runtime.", "3/C19"),
 "C20": ("exploration", EXH,
         "Every subset of the ten standard details (set API) and every sequence of length <= 3 (vec API) over per-kind value menus is attached to a status, sent through add_header/from_header_map and compared field-wise via all StatusExt getters against reference values; the wire blob is decoded by a hand-written protobuf reader (embedded code/message, type URLs, order); foreign-encoded, mutated, truncated and arbitrary short blobs must never panic.",
         "Field values outside the menus are not covered; wire order of set-API details unconstrained; prost is the decoder under test.", "3/C20"),
}
PENDING = {}

# what the seeded waves 3-5 added to each check (DESIGN.md sections 9.8, 9.10, 9.11)
ADDED = {
 "C01": " Added: DATA buffers of several segments, a per-message send limit under batching, a compressed message of exactly the default receive limit, drivers that treat Pending without a wake-up as a stall, runs of 200 (thorough 1500) small messages in one DATA frame / in blocks / dripped.",
 "C02": " Added: empty DATA frames, message sources announcing exact sizes, a quarter of the cases made twice on the same client / channel and server.",
 "C03": " Added: handler metadata carrying its own grpc-encoding, clones of the configured client, responses produced by the server's middleware stack, +subtype request content-types.",
 "C04": " Added: bodies whose end arrives separately, stream resets inside a frame, unary callers behind a peer that sends headers first, a bare hyper HTTP/2 server over the real channel in three layouts.",
 "C05": " Added: headers-only responses, reconfiguration between two calls, a first call refused by the peer, clones, handler metadata grpc-encoding, a flagged frame behind a valid one.",
 "C06": " Added: bodies with exact sizes, limits around the decompressed length, cloned clients/servers, a second call after a refusal, a request stream that never ends behind an oversized prefix.",
 "C07": " Added: receiver size limits, 70 000-byte messages with frame-shaped neighbours, a 400-byte byte-by-byte drip, runs of up to 10^6 empty DATA frames decoded in child processes; oracle added in wave 6: a body that stops inside a length prefix or a payload must end with an error (found and fixed 4063d39d).",
 "C08": " Added: OK trailers of streaming calls, statuses behind foreign error types, an interceptor's user-agent over the real channel; padded base64 on the wire is accepted.",
 "C09": " Added: zero deadlines, sequences of calls on one channel, callers that stay away, calls moved to another task, bare-client cases repeated under content-type application/grpc+proto.",
 "C10": " Added: add_routes / optional services, request streams that never end and 3 MiB messages on unknown paths, PUT / GET and +subtype content-types.",
 "C11": " Added: every prost-front-end program is compiled together with two neighbour files of other packages.",
 "C12": " Added: request sequences (second request on the same service or a clone), reserved names with several values in the rejecting status, visible-ASCII %XX messages.",
 "C13": " Added: listener ending, accept errors, max_connection_age around the signal, idle clients, a request reaching an unused connection together with the signal, a backlog of 40 connections at the listener when the signal fires (signal must not starve).",
 "C14": " Added: a connector that never answers, keeps the tower contract and fails for rotating reasons (incl. a Status of its own); discovery histories of a balanced channel with reachable and unreachable endpoints over loopback sockets, a call issued while the balanced endpoint set is empty and the endpoint registered afterwards.",
 "C15": " Added: failed handshakes followed by plaintext / proper clients, connection sequences (resumed session without ALPN, second listener requiring a certificate, clones of one ClientTlsConfig), balanced endpoints with different TLS settings over a loopback TLS server.",
 "C16": " Added: sized inner responses, case variants of the grpc-web content types, inner responses labelled application/grpc+proto / +json, a trailer value with non-UTF-8 octets.",
 "C17": " Added: segmented transport buffers, 9000-byte messages cut around the 8 KiB buffer, response content-type spellings, lost wake-ups, 3-4 frames of unequal sizes under every pair of cuts and in equal blocks, trailers frames with stray CR / LF / NUL bytes (termination only).",
 "C18": " Added: typed set_serving API, a second reporter handle, fresh wakers after an idle poll, service names with surrounding blanks.",
 "C19": " Added: present-but-empty package, proto3 optional fields with their synthetic oneofs, files carrying SourceCodeInfo (comments and spans).",
 "C20": " Added: unary callers behind a headers-first peer, statuses behind a layer error, padded peers, list getters on partly undecodable details.",
}

def main():
    props = [json.loads(l)["id"] for l in open(os.path.join(HERE, "properties.jsonl"))]
    checks = []
    for pid in props:
        if pid in CHECKS:
            cat, tech, text, note, ref = CHECKS[pid]
            checks.append({
                "property_id": pid,
                "quick_cmd": f"./check {pid} quick",
                "thorough_cmd": f"./check {pid} thorough",
                "evidence_file": f"/verif/evidence/{pid}.json",
                "replay_cmd_template": f"./check {pid} --replay {{path}}",
                "engine": "mc",
                "level_claimed": {"category": cat, "text": text + ADDED.get(pid, ""), "design_ref": f"DESIGN.md section {ref}"},
                "level_note": note,
                "technique": tech,
            })
    na = [{"property_id": p, "reason": PENDING.get(p, "check not built yet in this round (designed in DESIGN.md section 3; model checking applies)")} for p in props if p not in CHECKS]
    m = {
        "version": 1,
        "setup_cmd": "cd /verif/harness && CARGO_NET_OFFLINE=true cargo build --release --offline",
        "hooks": {
            "guard": "cargo feature `verif-hooks` (crates tonic and tonic-health), default off",
            "enable": "the harness crate /verif/harness depends on /repo/tonic and /repo/tonic-health by path with features = [\"verif-hooks\"]; every ./check invocation runs cargo build, which rebuilds them from /repo's working tree",
            "baseline_off_cmd": BASE,
            "source_commits": ["86954f7d", "d8b48e2c"],
            "add_only": True,
        },
        "engines": [{
            "name": "mc", "path": "/verif/harness",
            "serves_properties": sorted(CHECKS.keys()),
            "kind_free_text": "hand-rolled choice-vector explorer (stateless DFS, iterative deviation bounding, parallel over cases) re-executing the real tonic code under owned environments (scripted bodies/streams/connectors, virtual-time tokio, deterministic task scheduler); independent oracles in harness/src/oracle",
        }],
        "checks": checks,
        "not_applicable": na,
        "notes": "Entry point ./check <ID> [quick|thorough] [--replay file]; exit 0 held / 1 VIOLATION / 2 machinery error. Known findings: /verif/known_findings.txt.",
    }
    json.dump(m, open(os.path.join(HERE, "MANIFEST.json"), "w"), indent=1)
    print("wrote MANIFEST.json with", len(checks), "checks;", len(na), "not_applicable")
main()
