#!/bin/bash
# tools/confirm_seed.sh <seed_dir>  — in the scratch worktree /tmp/confirm: (1) the change compiles and the
# repository's own suite still passes, (2) the demonstration fails with the change, (3) passes without it.
# Writes <seed_dir>/confirm.log and prints a one-line verdict.
set -u
d="$1"
cmd="${DEMO_CMD:-$(grep -ho "cargo test -p [a-z_-]* --offline --test [a-z0-9_]*" "$d/README.md" | sort -u | head -1)}"
WT="${CONFIRM_WT:-/tmp/confirm}"
export CARGO_TARGET_DIR=$WT/target
cd "$WT" || exit 2
git checkout -q -- . ; git clean -fdq -e target
log="$d/confirm.log"; : > "$log"
git apply "$d/patch.diff" || { echo "$d: PATCH DOES NOT APPLY"; exit 1; }
cargo nextest run --workspace --no-fail-fast --tool-config-file pb:/w/lib/nextest.toml --profile pb --test-threads 8 --offline >> "$log" 2>&1
suite=$(grep -E "^\s+Summary" "$log" | tail -1)
failed=$(grep -E "^\s+FAIL " "$log" | grep -v connect_handles_tls | sort -u | wc -l)
git apply "$d/demo.diff" || { echo "$d: DEMO DOES NOT APPLY"; git checkout -q -- .; git clean -fdq -e target; exit 1; }
echo "=== demo WITH change: $cmd" >> "$log"
$cmd >> "$log" 2>&1; with=$?
git apply -R "$d/patch.diff"
echo "=== demo WITHOUT change: $cmd" >> "$log"
$cmd >> "$log" 2>&1; without=$?
git checkout -q -- . ; git clean -fdq -e target
echo "$d: suite [$suite] other-failures=$failed demo-with-change-rc=$with demo-without-rc=$without"
