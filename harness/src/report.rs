//! Sections, evidence, replays and known findings.

use crate::explore::{self, Chooser, Config, Outcome, RunResult, Stats, ViolationRecord};
use serde_json::{json, Value};
use std::sync::Arc;
use std::time::Instant;

#[derive(Clone, Copy, Debug, PartialEq, Eq)]
pub enum Tier {
    Quick,
    Thorough,
}

impl Tier {
    pub fn as_str(&self) -> &'static str {
        match self {
            Tier::Quick => "quick",
            Tier::Thorough => "thorough",
        }
    }
    pub fn q<T>(&self, q: T, t: T) -> T {
        match self {
            Tier::Quick => q,
            Tier::Thorough => t,
        }
    }
}

/// One exploration (alphabet + bound + oracle) of a property.
pub struct Section {
    pub name: String,
    pub cfg: Config,
    pub rule: String,
    pub min_execs: u64,
    pub min_outcomes: u64,
    pub min_nontrivial: u64,
    run: Box<dyn Fn(&Config, u64) -> Stats>,
    replay: Box<dyn Fn(&Config, usize, &[u32]) -> Option<(String, RunResult)>>,
}

impl Section {
    pub fn new<C, F, D>(
        name: &str,
        cfg: Config,
        rule: &str,
        cases: Vec<C>,
        describe: D,
        body: F,
    ) -> Section
    where
        C: Send + Sync + 'static,
        F: Fn(&C, &Chooser) -> Outcome + Send + Sync + 'static,
        D: Fn(&C) -> String + Send + Sync + 'static,
    {
        let cases = Arc::new(cases);
        let body = Arc::new(body);
        let describe = Arc::new(describe);
        let (c1, b1, d1) = (cases.clone(), body.clone(), describe.clone());
        let (c2, b2, d2) = (cases, body, describe);
        Section {
            name: name.to_string(),
            cfg,
            rule: rule.to_string(),
            min_execs: 1,
            min_outcomes: 2,
            min_nontrivial: 2,
            run: Box::new(move |cfg, _seed| {
                explore::explore(cfg, &c1[..], |c| d1(c), |c, ch| b1(c, ch))
            }),
            replay: Box::new(move |cfg, case, vector| {
                if case >= c2.len() {
                    return None;
                }
                let r = explore::run_once(cfg, &c2[case], vector, u32::MAX, &|c: &C, ch: &Chooser| {
                    b2(c, ch)
                });
                Some((d2(&c2[case]), r))
            }),
        }
    }

    pub fn mins(mut self, execs: u64, outcomes: u64, nontrivial: u64) -> Self {
        self.min_execs = execs;
        self.min_outcomes = outcomes;
        self.min_nontrivial = nontrivial;
        self
    }
}

pub struct Property {
    pub id: &'static str,
    pub level: &'static str,
    pub hang_is_violation: bool,
    pub assumptions: Vec<String>,
    pub sections: Vec<Section>,
    /// Extra keys merged into `coverage` (e.g. programs, disagreements_checked).
    pub extra: serde_json::Map<String, Value>,
}

#[derive(Debug, Clone)]
pub struct Known {
    pub open: bool,
    pub property: String,
    pub key: String,
    pub what: String,
}

pub fn load_known(path: &str) -> Vec<Known> {
    let mut out = vec![];
    let Ok(text) = std::fs::read_to_string(path) else {
        return out;
    };
    for line in text.lines() {
        let line = line.trim();
        if line.is_empty() || line.starts_with('#') {
            continue;
        }
        let (open, rest) = if let Some(r) = line.strip_prefix("open:") {
            (true, r.trim())
        } else if let Some(r) = line.strip_prefix("fixed:") {
            (false, r.trim())
        } else {
            explore::machinery_exit(&format!("unparseable known-findings line: {line}"));
        };
        let mut property = String::new();
        let mut key = String::new();
        let mut what = vec![];
        for tok in rest.split_whitespace() {
            if let Some(p) = tok.strip_prefix("property=") {
                if property.is_empty() {
                    property = p.to_string();
                    continue;
                }
            }
            if let Some(k) = tok.strip_prefix("key=") {
                if key.is_empty() {
                    key = k.to_string();
                    continue;
                }
            }
            what.push(tok);
        }
        out.push(Known {
            open,
            property,
            key,
            what: what.join(" "),
        });
    }
    out
}

fn replay_path(id: &str, section: &str, v: &ViolationRecord) -> String {
    format!(
        "replays/{id}-{}.json",
        explore::fnv_hex(&format!("{section}|{}|{}|{:?}", v.key, v.case, v.vector))
    )
}

/// Run every section of a property, write evidence, report. Returns the process exit code.
pub fn run_property(mut prop: Property, tier: Tier, seed: u64) -> i32 {
    let t0 = Instant::now();
    explore::set_hang_policy(prop.id, prop.hang_is_violation);
    let known = load_known("known_findings.txt");
    let _ = std::fs::create_dir_all("replays");
    let _ = std::fs::create_dir_all("evidence");

    let mut sec_json = vec![];
    let mut tot_states = 0u64;
    let mut tot_trans = 0u64;
    let mut tot_execs = 0u64;
    let mut tot_nt = 0u64;
    let mut tot_outcomes = 0u64;
    let mut all_exhaustive = true;
    let mut samples: Vec<Value> = vec![];
    let mut rules = vec![];
    let mut n_viol = 0;
    let mut n_known = 0;
    let mut lines: Vec<String> = vec![];
    let mut vac: Vec<String> = vec![];

    let sections = std::mem::take(&mut prop.sections);
    for s in &sections {
        let st = (s.run)(&s.cfg, seed);
        eprintln!(
            "[{}::{}] execs={} states={} transitions={} depth={} outcomes={} nontrivial={}/{} bound_completed={} capped={} {:.1}s",
            prop.id, s.name, st.executions, st.states, st.transitions, st.max_depth,
            st.distinct_outcomes, st.distinct_nontrivial, st.nontrivial_execs, st.bound_completed, st.capped, st.wall_s
        );
        tot_states += st.states;
        tot_trans += st.transitions;
        tot_execs += st.executions;
        tot_nt += st.distinct_nontrivial;
        tot_outcomes += st.distinct_outcomes;
        if st.capped {
            all_exhaustive = false;
        }
        for smp in st.samples.iter().take(3) {
            samples.push(json!(format!("[{}] {}", s.name, smp)));
        }
        rules.push(format!("[{}] {}", s.name, s.rule));
        if st.executions < s.min_execs
            || st.distinct_outcomes < s.min_outcomes
            || st.distinct_nontrivial < s.min_nontrivial
        {
            vac.push(format!(
                "section {} is vacuous: execs {} (min {}), distinct outcomes {} (min {}), distinct non-trivial {} (min {})",
                s.name, st.executions, s.min_execs, st.distinct_outcomes, s.min_outcomes, st.distinct_nontrivial, s.min_nontrivial
            ));
        }
        let mut sec_viol = vec![];
        for v in &st.violations {
            // determinism: replay twice, observations must be byte-identical and still violating
            let r1 = (s.replay)(&s.cfg, v.case, &v.vector);
            let r2 = (s.replay)(&s.cfg, v.case, &v.vector);
            match (r1, r2) {
                (Some((_, a)), Some((_, b))) => {
                    if a.outcome.obs != b.outcome.obs || a.outcome.obs != v.obs {
                        // The execution that violated the property does not reproduce when it is run
                        // again on its own. The harness owns every choice of an execution, so what
                        // differs is state that survived from OTHER executions of this process — a
                        // process-wide cache or registry inside the code under test. On a tree where
                        // the property holds no execution violates it in the first place, so the
                        // violation stands; it is reported with this caveat instead of being retracted.
                        eprintln!(
                            "NOTE: the violating execution {}::{} case {} vector {:?} is not reproducible in isolation (replays observe something else): its outcome depends on state left behind by other executions in the same process",
                            prop.id, s.name, v.case, v.vector
                        );
                    }
                }
                _ => explore::machinery_exit("replay of a violation failed to run"),
            }
            let is_known = known
                .iter()
                .find(|k| k.open && k.property == prop.id && k.key == v.key);
            let path = replay_path(prop.id, &s.name, v);
            let j = json!({
                "property": prop.id, "section": s.name, "tier": tier.as_str(),
                "key": v.key, "what": v.desc, "case": v.case, "case_desc": v.case_desc,
                "vector": v.vector, "deviations": v.deviations, "observed": v.obs,
                "occurrences": v.count,
                "replay_cmd": format!("./check {} --replay {}", prop.id, path),
            });
            let _ = std::fs::write(&path, serde_json::to_string_pretty(&j).unwrap());
            if let Some(k) = is_known {
                n_known += 1;
                lines.push(format!(
                    "KNOWN-FINDING: property={} key={} {} (occurrences this run: {}, replay {})",
                    prop.id, k.key, k.what, v.count, path
                ));
            } else {
                n_viol += 1;
                lines.push(format!(
                    "  violation key={} section={} case=[{}] {} vector={:?} :: {}",
                    v.key, s.name, v.case, explore::truncate(&v.case_desc, 300), v.vector,
                    explore::truncate(&v.desc, 600)
                ));
                lines.push(format!("VIOLATION property={} replay={}", prop.id, path));
            }
            sec_viol.push(json!({"key": v.key, "count": v.count, "known": is_known.is_some()}));
        }
        sec_json.push(json!({
            "section": s.name, "cases": st.cases, "executions": st.executions,
            "states": st.states, "transitions": st.transitions, "max_depth": st.max_depth,
            "distinct_outcomes": st.distinct_outcomes, "nontrivial_executions": st.nontrivial_execs,
            "distinct_nontrivial": st.distinct_nontrivial,
            "deviation_bound_completed": st.bound_completed, "max_bound_requested": s.cfg.max_bound,
            "executions_by_deviations": st.by_deviations.iter().map(|(k,v)| (k.to_string(), json!(v))).collect::<serde_json::Map<_,_>>(),
            "capped": st.capped, "cap_note": st.cap_note, "wall_s": st.wall_s,
            "violations": sec_viol,
        }));
    }

    if samples.is_empty() {
        samples.push(json!("no executions"));
    }
    let mut coverage = serde_json::Map::new();
    coverage.insert("evaluations".into(), json!(tot_execs));
    coverage.insert("distinct_nontrivial".into(), json!(tot_nt));
    coverage.insert("distinct_outcomes".into(), json!(tot_outcomes));
    coverage.insert("rule".into(), json!(rules.join(" || ")));
    coverage.insert("samples".into(), Value::Array(samples));
    coverage.insert("states".into(), json!(tot_states));
    coverage.insert("transitions".into(), json!(tot_trans));
    coverage.insert("traces_validated_against_impl".into(), json!(tot_execs));
    coverage.insert("exhaustive".into(), json!(all_exhaustive));
    coverage.insert("explanation".into(), json!("every explored path is an execution of the real tonic code under an owned environment; states = choice-tree nodes, transitions = choice-tree edges of the run at the highest completed deviation bound"));
    coverage.insert("sections".into(), Value::Array(sec_json));
    coverage.insert("known_findings_reported".into(), json!(n_known));
    for (k, v) in prop.extra.iter() {
        coverage.insert(k.clone(), v.clone());
    }
    let ev = json!({
        "property_id": prop.id,
        "tier": tier.as_str(),
        "seed": seed,
        "level": prop.level,
        "coverage": Value::Object(coverage),
        "assumptions": prop.assumptions,
        "wall_s": t0.elapsed().as_secs_f64(),
        "violations": n_viol,
    });
    let path = format!("evidence/{}.json", prop.id);
    std::fs::write(&path, serde_json::to_string_pretty(&ev).unwrap() + "\n")
        .unwrap_or_else(|e| explore::machinery_exit(&format!("cannot write {path}: {e}")));

    for l in &lines {
        println!("{l}");
    }
    if !vac.is_empty() {
        for v in vac {
            println!("MACHINERY-ERROR: {v}");
        }
        return 2;
    }
    if n_viol > 0 {
        return 1;
    }
    println!(
        "OK property={} tier={} executions={} states={} transitions={} exhaustive={} wall={:.1}s",
        prop.id,
        tier.as_str(),
        tot_execs,
        tot_states,
        tot_trans,
        all_exhaustive,
        t0.elapsed().as_secs_f64()
    );
    0
}

/// Re-run exactly one recorded vector without the explorer.
pub fn replay_property(prop: Property, path: &str) -> i32 {
    let text = std::fs::read_to_string(path)
        .unwrap_or_else(|e| explore::machinery_exit(&format!("cannot read {path}: {e}")));
    let j: Value = serde_json::from_str(&text)
        .unwrap_or_else(|e| explore::machinery_exit(&format!("bad replay file: {e}")));
    let section = j["section"].as_str().unwrap_or("");
    let case = j["case"].as_u64().unwrap_or(0) as usize;
    let vector: Vec<u32> = j["vector"]
        .as_array()
        .map(|a| a.iter().map(|x| x.as_u64().unwrap_or(0) as u32).collect())
        .unwrap_or_default();
    for s in &prop.sections {
        if s.name == section || (section.is_empty() && prop.sections.len() == 1) {
            let Some((desc, r)) = (s.replay)(&s.cfg, case, &vector) else {
                explore::machinery_exit("case index out of range for this tier");
            };
            println!("replay {}::{} case[{}] {}", prop.id, s.name, case, desc);
            println!("choices: {:?}", r.vector);
            println!("notes: {:?}", r.notes);
            println!("observed: {}", r.outcome.obs);
            if r.outcome.violations.is_empty() {
                println!("no violation on this replay");
                return 0;
            }
            for (k, d) in &r.outcome.violations {
                println!("violation key={k}: {d}");
            }
            println!("VIOLATION property={} replay={}", prop.id, path);
            return 1;
        }
    }
    explore::machinery_exit(&format!("no section named {section:?}"))
}
