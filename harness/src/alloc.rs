//! Tracking global allocator (harness binary only): records the largest single allocation made
//! on the current thread while a window is open (C06: "refused before memory is reserved").
use std::alloc::{GlobalAlloc, Layout, System};
use std::cell::Cell;

pub struct TrackAlloc;

thread_local! {
    static OPEN: Cell<bool> = const { Cell::new(false) };
    static MAX: Cell<usize> = const { Cell::new(0) };
}

#[inline]
fn note(size: usize) {
    let _ = OPEN.try_with(|o| {
        if o.get() {
            let _ = MAX.try_with(|m| {
                if size > m.get() {
                    m.set(size)
                }
            });
        }
    });
}

unsafe impl GlobalAlloc for TrackAlloc {
    unsafe fn alloc(&self, l: Layout) -> *mut u8 {
        note(l.size());
        System.alloc(l)
    }
    unsafe fn dealloc(&self, p: *mut u8, l: Layout) {
        System.dealloc(p, l)
    }
    unsafe fn alloc_zeroed(&self, l: Layout) -> *mut u8 {
        note(l.size());
        System.alloc_zeroed(l)
    }
    unsafe fn realloc(&self, p: *mut u8, l: Layout, new_size: usize) -> *mut u8 {
        note(new_size);
        System.realloc(p, l, new_size)
    }
}

/// Open a window: resets the maximum.
pub fn open() {
    MAX.with(|m| m.set(0));
    OPEN.with(|o| o.set(true));
}

/// Close the window and return the largest single allocation seen.
pub fn close() -> usize {
    OPEN.with(|o| o.set(false));
    MAX.with(|m| m.get())
}
