//! C06 — message size limits are enforced exactly and without collateral loss.

use super::codec_common::*;
use crate::env::{collect_body, fmt_headers, fmt_status, hex, Chunking, Item, ScriptBody, ScriptStream};
use crate::explore::{Chooser, Config, Outcome};
use crate::oracle::comp::{self, Enc};
use crate::oracle::wire;
use crate::report::{Property, Section, Tier};
use http::StatusCode;
use std::pin::Pin;
use std::sync::atomic::Ordering;
use std::task::{Context, Poll, Waker};
use tokio_stream::Stream;
use tonic::codec::{BufferSettings, Codec, EncodeBody, Streaming};
use tonic::Code;

const MIB4: usize = 4 * 1024 * 1024;

#[derive(Clone, Debug)]
struct DecCase {
    /// complete frames (flag, wire payload) followed optionally by a bare prefix declaring a length
    frames: Vec<(u8, Vec<u8>)>,
    bare_prefix: Option<u32>,
    enc: Option<Enc>,
    limit: Option<usize>,
    response: bool,
    /// None: chooser decides; Some(pattern): fixed
    fixed: Option<Vec<usize>>,
    /// the body announces its exact total length (as one that arrived with a content-length does)
    sized: bool,
}

fn dec_body(c: &DecCase, ch: &Chooser) -> Outcome {
    let mut input = vec![];
    let mut prefix_ends = vec![]; // offset just after each 5-byte prefix
    for (flag, p) in &c.frames {
        prefix_ends.push(input.len() + 5);
        input.extend(wire::encode_frame(*flag, p));
    }
    if let Some(n) = c.bare_prefix {
        prefix_ends.push(input.len() + 5);
        input.push(0);
        input.extend_from_slice(&n.to_be_bytes());
    }
    let limit = c.limit.unwrap_or(MIB4);
    // reference
    let mut want_msgs: Vec<usize> = vec![];
    let mut want_err_at: Option<usize> = None; // index into prefix_ends
    let mut lens: Vec<usize> = c.frames.iter().map(|(_, p)| p.len()).collect();
    if let Some(n) = c.bare_prefix {
        lens.push(n as usize);
    }
    for (i, l) in lens.iter().enumerate() {
        if *l > limit {
            want_err_at = Some(i);
            break;
        }
        if i < c.frames.len() {
            want_msgs.push(i);
        }
    }
    let chunking = match &c.fixed {
        Some(p) => Chunking::Fixed(p.clone()),
        None => Chunking::Choose { free: false, pending: false, empty: false },
    };
    let sb = ScriptBody::new(input.clone(), None, chunking, ch);
    let sb = if c.sized { sb.with_exact_size() } else { sb };
    let stats = sb.stats();
    let dec = RawCodec::new(BufferSettings::new(8, 16)).decoder();
    let enc = c.enc.map(tonic_enc);
    crate::alloc::open();
    let mut s = if c.response {
        Streaming::new_response(dec, sb, StatusCode::OK, enc, c.limit)
    } else {
        Streaming::new_request(dec, sb, enc, c.limit)
    };
    let (waker, wakes) = crate::env::counting_waker();
    let mut cx = Context::from_waker(&waker);
    let mut got: Vec<usize> = vec![]; // lengths
    let mut err: Option<(tonic::Status, u64)> = None;
    let mut ended = false;
    for _ in 0..10_000 {
        let before = wakes.0.load(Ordering::SeqCst);
        match Pin::new(&mut s).poll_next(&mut cx) {
            // `Pending` without a wake-up: the stream would never be polled again (left as "not ended")
            Poll::Pending if wakes.0.load(Ordering::SeqCst) == before => break,
            Poll::Pending => continue,
            Poll::Ready(Some(Ok(m))) => got.push(m.len()),
            Poll::Ready(Some(Err(e))) => {
                err = Some((e, stats.delivered.load(Ordering::Relaxed)));
                break;
            }
            Poll::Ready(None) => {
                ended = true;
                break;
            }
        }
    }
    drop(s);
    let max_alloc = crate::alloc::close();
    let mut o = Outcome::new(format!(
        "msgs={got:?} err={:?} ended={ended}",
        err.as_ref().map(|(e, at)| (e.code(), *at))
    ));
    o.nontrivial = want_err_at.is_some() || lens.iter().any(|l| *l == limit);
    // messages
    let want_lens: Vec<usize> = want_msgs
        .iter()
        .map(|i| {
            let (flag, p) = &c.frames[*i];
            if *flag == 1 { comp::decompress(c.enc.unwrap(), p).map(|d| d.len()).unwrap_or(usize::MAX) } else { p.len() }
        })
        .collect();
    match want_err_at {
        None => {
            if c.bare_prefix.is_some() {
                // a bare prefix within the limit and nothing after it: truncated stream, C07's business
                if got != want_lens {
                    o.violate("within-limit-rejected", format!("messages {got:?}, expected {want_lens:?} before the truncated tail"));
                }
            } else if got != want_lens || err.is_some() || !ended {
                o.violate(
                    "within-limit-rejected",
                    format!("all messages are within the limit {limit} but got {got:?} err={:?} (expected {want_lens:?})", err.as_ref().map(|(e, _)| fmt_status(e))),
                );
            }
        }
        Some(i) => {
            if got != want_lens {
                o.violate("collateral-loss-decode", format!("messages before the oversized one: got {got:?}, expected {want_lens:?}"));
            }
            match &err {
                None => o.violate("oversize-accepted", format!("message #{i} of wire length {} exceeds the limit {limit} but no error was returned", lens[i])),
                Some((e, delivered)) => {
                    if e.code() != Code::OutOfRange {
                        o.violate("oversize-wrong-code", format!("expected OUT_OF_RANGE, got {}", fmt_status(e)));
                    } else {
                        // refused as soon as the prefix has been read: no chunk beyond the one that
                        // completed the prefix may have been requested
                        let ends = stats.chunk_ends.lock().unwrap().clone();
                        let completing = ends.iter().copied().find(|e| *e >= prefix_ends[i]).unwrap_or(input.len());
                        if *delivered as usize > completing {
                            o.violate(
                                "oversize-late",
                                format!("prefix complete after {} bytes but the error came only after {} bytes had been delivered", completing, delivered),
                            );
                        }
                        // only judged when the payload never arrived (bare prefix): otherwise buffering the
                        // bytes that were actually delivered legitimately allocates that much
                        if i >= c.frames.len() && lens[i] >= (1 << 20) && max_alloc >= lens[i] {
                            o.violate("oversize-reserved", format!("an allocation of {max_alloc} bytes was made for a refused message declaring {} bytes", lens[i]));
                        }
                    }
                }
            }
        }
    }
    o
}

fn dec_cases(tier: Tier) -> Vec<DecCase> {
    let mut out = vec![];
    let small = vec![0xaau8; 2];
    for response in [false, true] {
        for limit in [0usize, 1, 5, 64] {
            for delta in [-1i64, 0, 1] {
                let l = limit as i64 + delta;
                if l < 0 {
                    continue;
                }
                let big = vec![0x55u8; l as usize];
                for pos in 0..3 {
                    let mut frames: Vec<(u8, Vec<u8>)> = vec![];
                    for k in 0..3 {
                        if k == pos {
                            frames.push((0, big.clone()));
                        } else {
                            frames.push((0, small[..small.len().min(limit)].to_vec()));
                        }
                    }
                    if tier == Tier::Quick && limit == 64 && pos == 1 {
                        continue;
                    }
                    out.push(DecCase { frames: frames.clone(), bare_prefix: None, enc: None, limit: Some(limit), response, fixed: None, sized: false });
                    out.push(DecCase { frames: frames.clone(), bare_prefix: None, enc: None, limit: Some(limit), response, fixed: Some(vec![]), sized: true });
                    out.push(DecCase { frames, bare_prefix: None, enc: None, limit: Some(limit), response, fixed: Some(vec![1]), sized: false });
                }
            }
            // bare prefixes with nothing after them
            for n in [limit as u32 + 1, 1 << 24, u32::MAX, limit as u32] {
                if n == 0 {
                    continue; // a prefix declaring 0 is a complete (empty) message, not a bare prefix
                }
                for lead in 0..2 {
                    let frames: Vec<(u8, Vec<u8>)> = (0..lead).map(|_| (0u8, small[..small.len().min(limit)].to_vec())).collect();
                    out.push(DecCase { frames: frames.clone(), bare_prefix: Some(n), enc: None, limit: Some(limit), response, fixed: None, sized: false });
                }
            }
        }
        // compressed: the limit applies to the on-the-wire (compressed) length
        for e in Enc::ALL {
            let plain = payload(40, 0);
            let z = comp::compress(e, &plain);
            for delta in [-1i64, 0, 1] {
                let limit = (z.len() as i64 + delta) as usize;
                for pos in 0..2 {
                    let mut frames = vec![];
                    for k in 0..2 {
                        if k == pos {
                            frames.push((1u8, z.clone()));
                        } else {
                            frames.push((0u8, vec![1, 2]));
                        }
                    }
                    out.push(DecCase { frames, bare_prefix: None, enc: Some(e), limit: Some(limit), response, fixed: None, sized: false });
                }
            }
        }
        // compressed, well compressible: the decompressed length is far above a limit that the wire length meets
        for e in Enc::ALL {
            let plain = vec![0u8; 1000];
            let z = comp::compress(e, &plain);
            // ... and limits around the DEcompressed length (999, 1000, 1001): the wire length is far below, so all pass
            for limit in [z.len() - 1, z.len(), z.len() + 1, z.len() + 10, plain.len() - 1, plain.len(), plain.len() + 1] {
                let frames = vec![(0u8, vec![1, 2]), (1u8, z.clone()), (0u8, vec![3])];
                out.push(DecCase { frames, bare_prefix: None, enc: Some(e), limit: Some(limit), response, fixed: None, sized: false });
            }
        }
        // limits of 4 GiB and more (must not be truncated to 32 bits): small messages are within them
        for limit in [1usize << 32, (1usize << 32) + 16, 1usize << 33, (1usize << 40) + 3, usize::MAX] {
            let frames = vec![(0u8, vec![7u8; 5]), (0u8, vec![8u8; 40])];
            out.push(DecCase { frames: frames.clone(), bare_prefix: None, enc: None, limit: Some(limit), response, fixed: None, sized: false });
            out.push(DecCase { frames, bare_prefix: Some(u32::MAX), enc: None, limit: Some(limit), response, fixed: Some(vec![1]), sized: false });
        }
        // the default limit (4 MiB)
        for delta in [-1i64, 0, 1] {
            let l = (MIB4 as i64 + delta) as usize;
            let frames = vec![(0u8, vec![3u8; 3]), (0u8, vec![0x11u8; l])];
            out.push(DecCase { frames: frames.clone(), bare_prefix: None, enc: None, limit: None, response, fixed: Some(vec![8, 5, 1 << 20]), sized: false });
            if tier == Tier::Thorough {
                out.push(DecCase { frames, bare_prefix: None, enc: None, limit: None, response, fixed: Some(vec![]), sized: false });
            }
        }
        // a compressed message that decompresses to exactly / one more than the default limit: its wire
        // length is tiny, so it passes
        for e in Enc::ALL {
            for l in [MIB4, MIB4 + 1] {
                let z = comp::compress(e, &vec![0u8; l]);
                out.push(DecCase { frames: vec![(1u8, z), (0u8, vec![3u8; 3])], bare_prefix: None, enc: Some(e), limit: None, response, fixed: Some(vec![]), sized: false });
            }
        }
        for n in [MIB4 as u32 + 1, 1 << 24, u32::MAX] {
            out.push(DecCase { frames: vec![(0u8, vec![3u8; 3])], bare_prefix: Some(n), enc: None, limit: None, response, fixed: None, sized: false });
            out.push(DecCase { frames: vec![], bare_prefix: Some(n), enc: None, limit: None, response, fixed: Some(vec![1]), sized: false });
        }
    }
    out
}

// ---------------------------------------------------------------------------------------------

#[derive(Clone, Copy, Debug, PartialEq, Eq)]
enum Role {
    Client,
    Server,
}

#[derive(Clone, Debug)]
struct EncCase {
    msgs: Vec<Vec<u8>>,
    oversize_at: usize,
    limit: Option<usize>,
    enc: Option<Enc>,
    settings: (usize, usize),
    role: Role,
    huge: bool,
}

/// Encoder that, for the marker item, only advances the cursor over > 4 GiB of reserved space.
#[derive(Clone, Copy, Debug)]
struct HugeEncoder;
impl tonic::codec::Encoder for HugeEncoder {
    type Item = Vec<u8>;
    type Error = tonic::Status;
    fn encode(&mut self, item: Vec<u8>, dst: &mut tonic::codec::EncodeBuf<'_>) -> Result<(), tonic::Status> {
        use bytes::BufMut;
        if item.first() == Some(&0xEE) {
            let n = u32::MAX as usize + 2;
            dst.reserve(n);
            unsafe { dst.advance_mut(n) };
        } else {
            dst.put_slice(&item);
        }
        Ok(())
    }
    fn buffer_settings(&self) -> BufferSettings {
        BufferSettings::new(8, 1 << 40)
    }
}

fn enc_body(c: &EncCase, ch: &Chooser) -> Outcome {
    let items: Vec<Item<Vec<u8>>> = c.msgs.iter().map(|m| Item::Msg(m.clone())).collect();
    let src = ScriptStream::new(items, true, ch);
    let pend = src.pendings.clone();
    let enc = c.enc.map(tonic_enc);
    let got = if c.huge {
        match c.role {
            Role::Client => collect_body(EncodeBody::new_client(HugeEncoder, src, enc, c.limit), 10_000),
            Role::Server => collect_body(EncodeBody::new_server(HugeEncoder, src, enc, Default::default(), c.limit), 10_000),
        }
    } else {
        let e = RawCodec::new(BufferSettings::new(c.settings.0, c.settings.1)).encoder();
        match c.role {
            Role::Client => collect_body(EncodeBody::new_client(e, src, enc, c.limit), 10_000),
            Role::Server => collect_body(EncodeBody::new_server(e, src, enc, Default::default(), c.limit), 10_000),
        }
    };
    let bytes = got.bytes();
    let mut o = Outcome::new(format!(
        "order={} frames={:?} err={:?} trailers={:?}",
        got.order,
        got.frames.iter().map(|f| f.len()).collect::<Vec<_>>(),
        got.error.as_ref().map(|e| e.code()),
        got.trailers.iter().map(fmt_headers).collect::<Vec<_>>()
    ));
    o.nontrivial = c.oversize_at > 0 || pend.load(Ordering::Relaxed) > 0;
    let want_code = if c.huge { Code::ResourceExhausted } else { Code::OutOfRange };
    // every earlier message delivered, in order, nothing else
    let (frames, end) = wire::parse_frames(&bytes, &[0, 1]);
    let mut ok_prefix = end == wire::ParseEnd::Clean && frames.len() == c.oversize_at;
    if ok_prefix {
        for (f, m) in frames.iter().zip(&c.msgs) {
            let p = if f.flag == 1 { comp::decompress(c.enc.unwrap(), &f.payload).unwrap_or_default() } else { f.payload.clone() };
            if p != *m {
                ok_prefix = false;
            }
        }
    }
    if !ok_prefix {
        let key = if end == wire::ParseEnd::Clean && frames.len() < c.oversize_at { "collateral-loss-encode" } else { "oversize-emitted" };
        o.violate(
            key,
            format!(
                "expected exactly the {} message(s) before the oversized one on the wire, found {} frame(s) ({:?}); bytes {}",
                c.oversize_at,
                frames.len(),
                end,
                crate::explore::truncate(&hex(&bytes), 120)
            ),
        );
    }
    match c.role {
        Role::Client => match &got.error {
            Some(e) if e.code() == want_code => {}
            other => o.violate("encode-limit-status", format!("client body should fail with {want_code:?}, got {:?}", other.as_ref().map(fmt_status))),
        },
        Role::Server => {
            let code = got.trailers.last().and_then(|t| t.get("grpc-status")).map(|v| v.as_bytes().to_vec());
            if code != Some((want_code as i32).to_string().into_bytes()) || got.trailers.len() != 1 {
                o.violate("encode-limit-status", format!("server body should end with one trailers block carrying grpc-status {}, got {:?}", want_code as i32, got.trailers.iter().map(fmt_headers).collect::<Vec<_>>()));
            }
            if !got.order.ends_with('T') || got.order[..got.order.len() - 1].contains('T') {
                o.violate("encode-limit-order", format!("frame order {}", got.order));
            }
        }
    }
    o
}

fn enc_cases(tier: Tier) -> Vec<EncCase> {
    let mut out = vec![];
    for role in [Role::Client, Role::Server] {
        for limit in [4usize, 64] {
            for settings in [(4usize, 8usize), (8 * 1024, 32 * 1024)] {
                for pos in 0..3 {
                    for tail in [false, true] {
                        let mut msgs: Vec<Vec<u8>> = vec![];
                        for k in 0..pos {
                            msgs.push(vec![k as u8 + 1; (k + 1).min(limit)]);
                        }
                        msgs.push(vec![0x77; limit + 1]);
                        if tail {
                            msgs.push(vec![9]);
                        }
                        out.push(EncCase { msgs, oversize_at: pos, limit: Some(limit), enc: None, settings, role, huge: false });
                    }
                }
            }
        }
        // compressed: limit relative to the compressed size
        for e in Enc::ALL {
            let big = payload(40, 1);
            let z = comp::compress(e, &big).len();
            let small = vec![1u8, 2];
            let zs = comp::compress(e, &small).len();
            if zs < z {
                out.push(EncCase { msgs: vec![small.clone(), big.clone()], oversize_at: 1, limit: Some(z - 1), enc: Some(e), settings: (8 * 1024, 32 * 1024), role, huge: false });
                out.push(EncCase { msgs: vec![small.clone(), small.clone(), big.clone(), small.clone()], oversize_at: 2, limit: Some(z - 1), enc: Some(e), settings: (4, 8), role, huge: false });
            }
        }
        if tier == Tier::Thorough {
            out.push(EncCase { msgs: vec![vec![1, 2, 3], vec![0xEE]], oversize_at: 1, limit: None, enc: None, settings: (8, 1 << 40), role, huge: true });
        }
    }
    out
}

// ---------------------------------------------------------------------------------------------
// limits configured through the generated client / server builders

#[derive(Clone, Debug)]
struct GenCase {
    shape: super::l1::Shape,
    /// (decoding limit, encoding limit) set on the generated server / client
    server: (Option<usize>, Option<usize>),
    client: (Option<usize>, Option<usize>),
    req_len: usize,
    resp_len: usize,
    /// the call is made through clones of the configured client and server
    via_clone: bool,
    /// afterwards the same client (or a clone of it) makes a second call whose messages are 8
    /// bytes, within every limit: whatever happened to the first call must not touch it
    then_small: bool,
}

/// Two servers behind one address: the second one answers once `use_b` is set.
#[derive(Clone)]
struct Switch<S> {
    a: S,
    b: S,
    use_b: std::sync::Arc<std::sync::atomic::AtomicBool>,
}

impl<S, R> tower_service::Service<R> for Switch<S>
where
    S: tower_service::Service<R>,
{
    type Response = S::Response;
    type Error = S::Error;
    type Future = S::Future;
    fn poll_ready(&mut self, _cx: &mut Context<'_>) -> Poll<Result<(), S::Error>> {
        Poll::Ready(Ok(()))
    }
    fn call(&mut self, req: R) -> S::Future {
        if self.use_b.load(Ordering::SeqCst) {
            self.b.call(req)
        } else {
            self.a.call(req)
        }
    }
}

fn gen_body(c: &GenCase, ch: &Chooser) -> Outcome {
    use super::l1::*;
    use crate::fixtures::echo::echo_client::EchoClient;
    let script = Script { initial_md: vec![], msgs: vec![vec![0x33; c.resp_len]], end: None, handler_err: false, bidi: BidiMode::ReadAll, disable_compression: false, exact_hint: false };
    let (mut server, log) = new_server(script, ch, false);
    if let Some(l) = c.server.0 {
        server = server.max_decoding_message_size(l);
    }
    if let Some(l) = c.server.1 {
        server = server.max_encoding_message_size(l);
    }
    if c.via_clone {
        server = server.clone();
    }
    // the second call's server: same limits, 8-byte response
    let script_b = Script { initial_md: vec![], msgs: vec![vec![0x66; 8]], end: None, handler_err: false, bidi: BidiMode::ReadAll, disable_compression: false, exact_hint: false };
    let (mut server_b, _log_b) = new_server(script_b, ch, false);
    if let Some(l) = c.server.0 {
        server_b = server_b.max_decoding_message_size(l);
    }
    if let Some(l) = c.server.1 {
        server_b = server_b.max_encoding_message_size(l);
    }
    let use_b = std::sync::Arc::new(std::sync::atomic::AtomicBool::new(false));
    let capture = std::sync::Arc::new(std::sync::Mutex::new(Capture::default()));
    let direct = Direct { svc: Switch { a: server, b: server_b, use_b: use_b.clone() }, ch: ch.clone(), req_chunking: Chunking::Fixed(vec![]), resp_chunking: Chunking::Fixed(vec![]), capture };
    let mut client = EchoClient::new(direct);
    if let Some(l) = c.client.0 {
        client = client.max_decoding_message_size(l);
    }
    if let Some(l) = c.client.1 {
        client = client.max_encoding_message_size(l);
    }
    if c.via_clone {
        client = client.clone();
    }
    let req = vec![0x44u8; c.req_len];
    let view = match crate::env::spin_block_on(client_call(&mut client, c.shape, vec![req.clone()], &vec![], false, ch, |_| {}), 200_000) {
        Ok(v) => v,
        Err(_) => {
            let mut o = Outcome::new("STALLED");
            o.violate("stall", "call did not complete");
            return o;
        }
    };
    let log = log.lock().unwrap().clone();
    let mut o = Outcome::new(format!("msgs={:?} err={:?} handler_msgs={:?} handler_err={:?}", view.msgs.iter().map(|m| m.len()).collect::<Vec<_>>(), view.error.as_ref().map(|e| e.code()), log.req_msgs.iter().map(|m| m.len()).collect::<Vec<_>>(), log.req_err));
    // reference: the first limit hit on the path request -> handler -> response decides
    let default_dec = MIB4;
    let req_ok_client = c.client.1.map(|l| c.req_len <= l).unwrap_or(true);
    let req_ok_server = c.req_len <= c.server.0.unwrap_or(default_dec);
    let resp_ok_server = c.server.1.map(|l| c.resp_len <= l).unwrap_or(true);
    let resp_ok_client = c.resp_len <= c.client.0.unwrap_or(default_dec);
    o.nontrivial = !(req_ok_client && req_ok_server && resp_ok_server && resp_ok_client);
    let handler_saw_request = log.req_msgs.iter().any(|m| m.len() == c.req_len);
    if !req_ok_client || !req_ok_server {
        if handler_saw_request {
            o.violate("generated-limit-request-not-enforced", format!("a {}-byte request passed client encoding limit {:?} / server decoding limit {:?} and reached the handler", c.req_len, c.client.1, c.server.0));
        }
        if view.error.is_none() && !c.shape.streams_requests() {
            o.violate("generated-limit-request-not-enforced", format!("a {}-byte request over client encoding limit {:?} / server decoding limit {:?} ended OK", c.req_len, c.client.1, c.server.0));
        }
    } else {
        if !handler_saw_request {
            o.violate("generated-limit-request-wrongly-refused", format!("a {}-byte request is within client encoding limit {:?} and server decoding limit {:?} but never reached the handler ({:?})", c.req_len, c.client.1, c.server.0, view.error.as_ref().map(crate::env::fmt_status)));
        } else if !resp_ok_server || !resp_ok_client {
            match &view.error {
                Some(e) if e.code() == Code::OutOfRange => {}
                other => o.violate("generated-limit-response-not-enforced", format!("a {}-byte response exceeds server encoding limit {:?} / client decoding limit {:?} but the caller saw {:?} with messages {:?}", c.resp_len, c.server.1, c.client.0, other.as_ref().map(|e| crate::env::fmt_status(e)), view.msgs.iter().map(|m| m.len()).collect::<Vec<_>>())),
            }
        } else if view.error.is_some() || view.msgs.iter().map(|m| m.len()).collect::<Vec<_>>() != vec![c.resp_len] {
            o.violate("generated-limit-wrongly-refused", format!("everything is within the limits but the caller saw {:?} / {:?}", view.msgs.iter().map(|m| m.len()).collect::<Vec<_>>(), view.error.as_ref().map(crate::env::fmt_status)));
        }
    }
    if c.then_small {
        use_b.store(true, Ordering::SeqCst);
        let mut client2 = if c.via_clone { client.clone() } else { client };
        match crate::env::spin_block_on(client_call(&mut client2, c.shape, vec![vec![0x44u8; 8]], &vec![], false, ch, |_| {}), 200_000) {
            Err(_) => o.violate("second-call-after-refusal:stall", "the call made after the first one did not complete"),
            Ok(v2) => {
                o.obs.push_str(&format!(" | second call: msgs={:?} err={:?}", v2.msgs.iter().map(|m| m.len()).collect::<Vec<_>>(), v2.error.as_ref().map(|e| e.code())));
                if v2.error.is_some() || v2.msgs.iter().map(|m| m.len()).collect::<Vec<_>>() != vec![8] {
                    o.violate("second-call-after-refusal", format!("after the first call (caller saw {:?}) a call with 8-byte messages, within every limit, gave {:?} / {:?}", view.error.as_ref().map(|e| e.code()), v2.msgs.iter().map(|m| m.len()).collect::<Vec<_>>(), v2.error.as_ref().map(crate::env::fmt_status)));
                }
            }
        }
    }
    o
}

// ---------------------------------------------------------------------------------------------
// the generated server refuses an oversized request as soon as the prefix is there, even when the
// peer never finishes its request body

#[derive(Clone, Debug)]
struct PromptCase {
    shape: super::l1::Shape,
    limit: usize,
    /// bytes of the oversized message's payload that arrive after its prefix (the peer then goes silent)
    partial: usize,
    /// complete small messages before the oversized one (streaming-request shapes only)
    lead: usize,
}

fn prompt_body(c: &PromptCase, ch: &Chooser) -> Outcome {
    use super::l1::*;
    use tower_service::Service;
    let script = Script { initial_md: vec![], msgs: vec![vec![1]], end: None, handler_err: false, bidi: BidiMode::ReadAll, disable_compression: false, exact_hint: false };
    let (server, log) = new_server(script, ch, false);
    let mut server = server.max_decoding_message_size(c.limit);
    let mut data = vec![];
    for _ in 0..c.lead {
        data.extend(wire::encode_frame(0, &[7]));
    }
    data.push(0);
    data.extend_from_slice(&((c.limit + 1) as u32).to_be_bytes());
    data.extend(std::iter::repeat(0x55u8).take(c.partial.min(c.limit + 1)));
    let body = ScriptBody::new(data, None, Chunking::Fixed(vec![]), ch).with_end(crate::env::BodyEnd::NeverEnds);
    let req = http::Request::builder().method("POST").uri(c.shape.path()).version(http::Version::HTTP_2).header("content-type", "application/grpc").header("te", "trailers").body(body).unwrap();
    // the response (headers, or headers + trailers) must be produced although the request body never ends
    let resp = match crate::env::spin_block_on(server.call(req), 10_000) {
        Ok(Ok(r)) => r,
        _ => {
            let mut o = Outcome::new("NO RESPONSE");
            o.violate("oversize-refusal-waits-for-end-of-request", format!("a {}-byte message was announced to a server limited to {} bytes; the refusal was not produced while the peer kept its request stream open", c.limit + 1, c.limit));
            return o;
        }
    };
    let (parts, rbody) = resp.into_parts();
    let col = crate::env::collect_body(rbody, 10_000);
    let log = log.lock().unwrap().clone();
    let status = parts.headers.get("grpc-status").or_else(|| col.trailers.iter().find_map(|t| t.get("grpc-status"))).map(|v| String::from_utf8_lossy(v.as_bytes()).to_string());
    let mut o = Outcome::new(format!("grpc-status={status:?} stalled={} handler_msgs={:?} handler_err={:?}", col.stalled, log.req_msgs.iter().map(|m| m.len()).collect::<Vec<_>>(), log.req_err));
    o.nontrivial = true;
    if c.shape.streams_requests() {
        // the handler owns the request stream: what it does with the error is its business, but it
        // must have been given OUT_OF_RANGE without waiting for the end of the body
        match &log.req_err {
            Some(e) if e.contains("OutOfRange") => {}
            other => o.violate("oversize-refusal-waits-for-end-of-request", format!("the handler's request stream did not report OUT_OF_RANGE while the peer kept its stream open: {other:?} (response status {status:?}, stalled={})", col.stalled)),
        }
        if log.req_msgs.len() != c.lead {
            o.violate("collateral-loss-decode", format!("{} messages preceded the oversized one, the handler received {}", c.lead, log.req_msgs.len()));
        }
    } else if col.stalled || status.as_deref() != Some("11") {
        o.violate("oversize-refusal-waits-for-end-of-request", format!("expected grpc-status 11 (OUT_OF_RANGE) at once, got {status:?} (response body stalled: {})", col.stalled));
    }
    o
}

fn prompt_cases() -> Vec<PromptCase> {
    let mut out = vec![];
    for shape in super::l1::Shape::ALL {
        for limit in [4usize, 64] {
            for partial in [0usize, 1, 3] {
                let leads: &[usize] = if shape.streams_requests() { &[0, 2] } else { &[0] };
                for lead in leads {
                    out.push(PromptCase { shape, limit, partial, lead: *lead });
                }
            }
        }
    }
    out
}

fn gen_cases() -> Vec<GenCase> {
    use super::l1::Shape;
    let mut out = vec![];
    let limits: [(Option<usize>, Option<usize>); 4] = [(None, None), (Some(16), None), (None, Some(16)), (Some(16), Some(16))];
    for shape in Shape::ALL {
        for server in limits {
            for client in limits {
                for (req_len, resp_len) in [(8usize, 8usize), (17, 8), (8, 17), (16, 16)] {
                    out.push(GenCase { shape, server, client, req_len, resp_len, via_clone: false, then_small: false });
                    out.push(GenCase { shape, server, client, req_len, resp_len, via_clone: true, then_small: false });
                    out.push(GenCase { shape, server, client, req_len, resp_len, via_clone: (req_len + resp_len) % 2 == 1, then_small: true });
                }
            }
        }
    }
    out
}

pub fn property(tier: Tier) -> Property {
    let prompt = Section::new(
        "server-prompt-refusal",
        Config::default(),
        "cases: generated server with max_decoding_message_size L in {4, 64} x call shape x a request body that carries (for streaming-request shapes: 0 or 2 small messages and then) the prefix of a message of L+1 bytes plus 0 / 1 / 3 bytes of its payload, after which the peer keeps the stream open and silent (the body answers Pending for ever and wakes nobody); oracle: unary-request shapes: the response with grpc-status 11 (OUT_OF_RANGE) is produced all the same; streaming-request shapes: the handler's request stream yields the preceding messages and then OUT_OF_RANGE. All cases count as non-trivial.",
        prompt_cases(),
        |c: &PromptCase| format!("{c:?}"),
        prompt_body,
    )
    .mins(20, 2, 20);
    let dec = Section::new(
        "decode-limit",
        Config { max_bound: tier.q(1, 2), ..Default::default() },
        "cases: limit L in {0,1,5,64,default 4 MiB, and 2^32, 2^32+16, 2^33, 2^40+3, usize::MAX with small messages that must be accepted} x a message of wire length L-1/L/L+1 (identity; gzip/deflate/zstd with the limit placed around the compressed length, also for a 1000-byte message that compresses to far below the limit it must pass under, with limits around its compressed and around its decompressed length) at position 1/2/3 of a stream (also as a body that announces its exact total length, as one that arrived with a content-length does), and bare 5-byte prefixes declaring L+1, 2^24, 2^32-1 with nothing after them, x request/response; environment: every chunking with <= bound cuts (incl. the cut right after the prefix) plus drip; oracle: accepted iff wire length <= L, else OUT_OF_RANGE with no chunk requested beyond the one completing the prefix and (declared >= 1 MiB) no allocation >= the declared length (tracking allocator). Non-trivial = some message exactly at or over the limit.",
        dec_cases(tier),
        |c: &DecCase| format!("frames={:?} bare={:?} enc={} limit={:?} response={} fixed={:?} sized={}", c.frames.iter().map(|(f, p)| (*f, p.len())).collect::<Vec<_>>(), c.bare_prefix, enc_name(c.enc), c.limit, c.response, c.fixed.as_ref().map(|v| v.len()), c.sized),
        dec_body,
    )
    .mins(500, 5, 50);
    let enc = Section::new(
        "encode-limit",
        Config { max_bound: 5, ..Default::default() },
        "cases: encoding limit in {4,64} (and relative to the compressed size for gzip/deflate/zstd) x an oversized item at position 1..3 (with/without a following item) x buffer settings {(4,8) flush-each, default batching} x role; thorough adds the > 4 GiB branch with a cursor-only encoder; environment: the source answers Pending before any item (every pattern); oracle: the frames of every earlier message are delivered in order and nothing else, then OUT_OF_RANGE (RESOURCE_EXHAUSTED above 4 GiB) as client error / single trailers block. Non-trivial = oversize item not first, or a Pending taken.",
        enc_cases(tier),
        |c: &EncCase| format!("msgs={:?} oversize_at={} limit={:?} enc={} settings={:?} role={:?} huge={}", c.msgs.iter().map(|m| m.len()).collect::<Vec<_>>(), c.oversize_at, c.limit, enc_name(c.enc), c.settings, c.role, c.huge),
        enc_body,
    )
    .mins(100, 4, 20);
    let gen = Section::new(
        "generated-limits",
        Config::default(),
        "cases: generated server and generated client, each configured through its builder with {no limit, decoding limit 16, encoding limit 16, both} (16 combinations) x call shape x (request, response) message lengths {(8,8),(17,8),(8,17),(16,16)} x {the configured client and server themselves, clones of them} x {one call, the call followed by a second one with 8-byte messages on the same client (or its clone)}, in-process; oracle: a request over the client's encoding limit or the server's decoding limit never reaches the handler; a response over the server's encoding limit or the client's decoding limit ends the call with OUT_OF_RANGE; anything within every limit on its path is delivered. Non-trivial = some limit is exceeded.",
        gen_cases(),
        |c: &GenCase| format!("{c:?}"),
        gen_body,
    )
    .mins(200, 4, 50);
    Property {
        id: "C06",
        level: "model_checking",
        hang_is_violation: false,
        assumptions: vec!["limits outside the menu {0,1,5,64,4 MiB} are represented by these".into()],
        sections: vec![dec, enc, gen, prompt],
        extra: Default::default(),
    }
}
