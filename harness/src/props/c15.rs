//! C15 — TLS channels and servers authenticate the peer and insist on HTTP/2.

use crate::env::vnet::{self, ConnectMode, NetIo};
use crate::explore::{Chooser, Config, Outcome};
use crate::fixtures::echo::echo_client::EchoClient;
use crate::fixtures::echo::echo_server::{Echo, EchoServer};
use crate::report::{Property, Section, Tier};
use std::pin::Pin;
use std::sync::atomic::{AtomicU32, Ordering};
use std::sync::{Arc, Mutex};
use std::time::Duration;
use tokio_rustls::rustls;
use tokio_stream::Stream;
use tonic::transport::server::TlsConnectInfo;
use tonic::transport::{Certificate, ClientTlsConfig, Endpoint, Identity, Server, ServerTlsConfig};
use tonic::{Request, Response, Status, Streaming};

const CA_A: &str = include_str!("../../../fixtures/tls/ca_a.pem");
const CA_B: &str = include_str!("../../../fixtures/tls/ca_b.pem");
const SERVER_CERT: &str = include_str!("../../../fixtures/tls/server.pem");
const SERVER_KEY: &str = include_str!("../../../fixtures/tls/server.key");
const CLIENT_A_CERT: &str = include_str!("../../../fixtures/tls/client_a.pem");
const CLIENT_A_KEY: &str = include_str!("../../../fixtures/tls/client_a.key");
const CLIENT_B_CERT: &str = include_str!("../../../fixtures/tls/client_b.pem");
const CLIENT_B_KEY: &str = include_str!("../../../fixtures/tls/client_b.key");

#[derive(Clone, Copy, Debug, PartialEq, Eq)]
enum Roots {
    RightCa,
    OtherCa,
    None,
}
#[derive(Clone, Copy, Debug, PartialEq, Eq)]
enum Domain {
    /// URI host is NOT in the SAN, `domain_name` names the SAN
    MatchingViaDomainName,
    /// URI host is in the SAN, `domain_name` names something else
    NonMatching,
    /// no `domain_name`; URI host is in the SAN
    FromUri,
}
#[derive(Clone, Copy, Debug, PartialEq, Eq)]
enum Alpn {
    /// the tonic server terminates TLS itself (ALPN h2)
    H2,
    /// harness rustls terminator in front of a plain tonic server, no ALPN
    NoneOffered,
    /// harness terminator offering only http/1.1
    Http11,
}
#[derive(Clone, Copy, Debug, PartialEq, Eq)]
enum ClientAuth {
    NotRequested,
    Required,
    Optional,
}
#[derive(Clone, Copy, Debug, PartialEq, Eq)]
enum Ident {
    None,
    FromRightCa,
    FromOtherCa,
}

#[derive(Clone, Debug)]
struct Case {
    roots: Roots,
    domain: Domain,
    alpn: Alpn,
    assume_http2: bool,
    auth: ClientAuth,
    ident: Ident,
    /// https URI but no TLS configuration at all
    no_tls_config: bool,
    /// ServerTlsConfig::ignore_client_order (must not influence authentication)
    ignore_order: bool,
    /// Endpoint::origin(..) set BEFORE tls_config (must not influence the name the certificate is
    /// checked against): (origin uri, uri host used for the endpoint when no domain_name is set)
    origin: Option<(&'static str, &'static str)>,
    chop: usize,
    /// before the judged client connects, this many other peers connect and fail their TLS
    /// handshake (they speak plaintext HTTP/2 to the TLS port and go away)
    prior_failed: usize,
    /// the judged client itself speaks plaintext (http:// endpoint, no TLS) to the TLS server:
    /// it must never be served
    plain_client: bool,
}

#[derive(Default)]
struct Seen {
    calls: AtomicU32,
    peer: Mutex<Vec<Option<Vec<Vec<u8>>>>>,
}

struct TlsEcho {
    seen: Arc<Seen>,
}

type BoxStream = Pin<Box<dyn Stream<Item = Result<Vec<u8>, Status>> + Send + 'static>>;

#[tonic::async_trait]
impl Echo for TlsEcho {
    async fn unary(&self, request: Request<Vec<u8>>) -> Result<Response<Vec<u8>>, Status> {
        self.seen.calls.fetch_add(1, Ordering::SeqCst);
        let certs = request.extensions().get::<TlsConnectInfo<()>>().and_then(|i| i.peer_certs()).map(|c| c.iter().map(|d| d.as_ref().to_vec()).collect::<Vec<_>>());
        self.seen.peer.lock().unwrap().push(certs);
        Ok(Response::new(vec![7]))
    }
    type ServerStreamStream = BoxStream;
    async fn server_stream(&self, _r: Request<Vec<u8>>) -> Result<Response<BoxStream>, Status> {
        Err(Status::unimplemented(""))
    }
    async fn client_stream(&self, _r: Request<Streaming<Vec<u8>>>) -> Result<Response<Vec<u8>>, Status> {
        Err(Status::unimplemented(""))
    }
    type BidiStream = BoxStream;
    async fn bidi(&self, _r: Request<Streaming<Vec<u8>>>) -> Result<Response<BoxStream>, Status> {
        Err(Status::unimplemented(""))
    }
}

fn pem_certs(pem: &str) -> Vec<rustls::pki_types::CertificateDer<'static>> {
    use rustls::pki_types::pem::PemObject;
    rustls::pki_types::CertificateDer::pem_slice_iter(pem.as_bytes()).map(|c| c.expect("fixture cert")).collect()
}

fn pem_key(pem: &str) -> rustls::pki_types::PrivateKeyDer<'static> {
    use rustls::pki_types::pem::PemObject;
    rustls::pki_types::PrivateKeyDer::from_pem_slice(pem.as_bytes()).expect("fixture key")
}

/// Non-tonic TLS terminator: accepts TLS with the given ALPN list and client-auth policy and
/// forwards the plaintext to a plain tonic server.
fn terminator_config(alpn: Alpn, auth: ClientAuth) -> Arc<rustls::ServerConfig> {
    let provider = Arc::new(rustls::crypto::ring::default_provider());
    let b = rustls::ServerConfig::builder_with_provider(provider.clone()).with_safe_default_protocol_versions().unwrap();
    let b = match auth {
        ClientAuth::NotRequested => b.with_no_client_auth(),
        _ => {
            let mut roots = rustls::RootCertStore::empty();
            roots.add_parsable_certificates(pem_certs(CA_A));
            let vb = rustls::server::WebPkiClientVerifier::builder_with_provider(roots.into(), provider);
            let v = if auth == ClientAuth::Optional { vb.allow_unauthenticated() } else { vb }.build().unwrap();
            b.with_client_cert_verifier(v)
        }
    };
    let mut cfg = b.with_single_cert(pem_certs(SERVER_CERT), pem_key(SERVER_KEY)).unwrap();
    if alpn == Alpn::Http11 {
        cfg.alpn_protocols = vec![b"http/1.1".to_vec()];
    }
    Arc::new(cfg)
}

#[derive(Debug, Clone, Default)]
struct Run {
    config_err: Option<String>,
    connect_err: Option<String>,
    connect_hang: bool,
    call: Option<Result<Vec<u8>, String>>,
    call_hang: bool,
    handler_calls: u32,
    peer: Vec<Option<Vec<Vec<u8>>>>,
    first_client_bytes: Vec<u8>,
    connector_invocations: u64,
}

fn body(c: &Case, ch: &Chooser) -> Outcome {
    let _ = ch;
    let rt = vnet::runtime(3);
    let c2 = c.clone();
    let run: Run = rt.block_on(async move {
        let c = c2;
        let mut run = Run::default();
        let (st, mut rx) = vnet::connector_state(ConnectMode::Succeed, false, c.chop);
        let seen = Arc::new(Seen::default());
        let svc = EchoServer::new(TlsEcho { seen: seen.clone() });
        // ---- server side
        match c.alpn {
            Alpn::H2 => {
                let mut tls = ServerTlsConfig::new().identity(Identity::from_pem(SERVER_CERT, SERVER_KEY)).ignore_client_order(c.ignore_order);
                match c.auth {
                    ClientAuth::NotRequested => {}
                    ClientAuth::Required => tls = tls.client_ca_root(Certificate::from_pem(CA_A)),
                    ClientAuth::Optional => tls = tls.client_ca_root(Certificate::from_pem(CA_A)).client_auth_optional(true),
                }
                let mut b = Server::builder().tls_config(tls).unwrap_or_else(|e| crate::explore::machinery(format!("server tls config: {e}")));
                tokio::spawn(async move {
                    let _ = b.add_service(svc).serve_with_incoming(vnet::incoming(rx)).await;
                });
            }
            Alpn::NoneOffered | Alpn::Http11 => {
                let cfg = terminator_config(c.alpn, c.auth);
                let (ptx, prx) = tokio::sync::mpsc::unbounded_channel::<NetIo>();
                tokio::spawn(async move {
                    let _ = Server::builder().add_service(svc).serve_with_incoming(vnet::incoming(prx)).await;
                });
                tokio::spawn(async move {
                    while let Some(io) = rx.recv().await {
                        let cfg = cfg.clone();
                        let ptx = ptx.clone();
                        tokio::spawn(async move {
                            if let Ok(mut tls) = tokio_rustls::TlsAcceptor::from(cfg).accept(io).await {
                                let (mut a, b) = vnet::pipe(1 << 16, &(vec![], 0), &(vec![], 0));
                                if ptx.send(b).is_ok() {
                                    let _ = tokio::io::copy_bidirectional(&mut tls, &mut a).await;
                                }
                            }
                        });
                    }
                });
            }
        }
        // ---- peers that fail their handshake first
        for _ in 0..c.prior_failed {
            use tokio::io::AsyncWriteExt;
            use tower_service::Service;
            let mut conn = vnet::connector(st.clone());
            if let Ok(io) = conn.call(http::Uri::from_static("http://server.test:443")).await {
                let mut io = io.into_inner();
                let _ = io.write_all(b"PRI * HTTP/2.0\r\n\r\nSM\r\n\r\n\x00\x00\x00\x04\x00\x00\x00\x00\x00").await;
                vnet::settle().await;
                drop(io);
                vnet::settle().await;
            }
        }
        // ---- client side
        let uri = match c.domain {
            Domain::MatchingViaDomainName => "https://uri-host.test:443",
            _ => "https://server.test:443",
        };
        let uri = match c.origin {
            Some((_, host)) => host,
            None => uri,
        };
        let uri = if c.plain_client { "http://server.test:443" } else { uri };
        let mut ep = Endpoint::from_static(uri);
        if let Some((origin, _)) = c.origin {
            ep = ep.origin(origin.parse().unwrap());
        }
        if !c.no_tls_config && !c.plain_client {
            let mut tls = ClientTlsConfig::new().assume_http2(c.assume_http2);
            match c.roots {
                Roots::RightCa => tls = tls.ca_certificate(Certificate::from_pem(CA_A)),
                Roots::OtherCa => tls = tls.ca_certificate(Certificate::from_pem(CA_B)),
                Roots::None => {}
            }
            match c.domain {
                Domain::MatchingViaDomainName => tls = tls.domain_name("server.test"),
                Domain::NonMatching => tls = tls.domain_name("other.test"),
                Domain::FromUri => {}
            }
            match c.ident {
                Ident::None => {}
                Ident::FromRightCa => tls = tls.identity(Identity::from_pem(CLIENT_A_CERT, CLIENT_A_KEY)),
                Ident::FromOtherCa => tls = tls.identity(Identity::from_pem(CLIENT_B_CERT, CLIENT_B_KEY)),
            }
            ep = match ep.tls_config(tls) {
                Ok(e) => e,
                Err(e) => {
                    run.config_err = Some(format!("{e:?}"));
                    return run;
                }
            };
        }
        match vnet::within(Duration::from_secs(600), ep.connect_with_connector(vnet::connector(st.clone()))).await {
            None => run.connect_hang = true,
            Some(Err(e)) => run.connect_err = Some(format!("{e:?}")),
            Some(Ok(chn)) => {
                let mut client = EchoClient::new(chn);
                match vnet::within(Duration::from_secs(600), client.unary(Request::new(vec![1]))).await {
                    None => run.call_hang = true,
                    Some(Ok(r)) => run.call = Some(Ok(r.into_inner())),
                    Some(Err(e)) => run.call = Some(Err(format!("{:?}: {}", e.code(), e.message()))),
                }
            }
        }
        vnet::settle().await;
        run.handler_calls = seen.calls.load(Ordering::SeqCst);
        run.peer = seen.peer.lock().unwrap().clone();
        run.connector_invocations = st.invocations.load(Ordering::SeqCst);
        // every connection the client ever opened (a silent retry in plaintext would be a second one)
        // (the harness's own handshake-failing peers come first and are not the client's)
        for s in st.conns.lock().unwrap().iter().skip(c.prior_failed) {
            let fb = s.first_bytes.lock().unwrap().clone();
            if run.first_client_bytes.is_empty() {
                run.first_client_bytes = fb.clone();
            }
            if !fb.is_empty() && !(fb[0] == 0x16 && fb.get(1) == Some(&0x03)) {
                run.first_client_bytes = fb; // keep the offending one for the oracle below
            }
        }
        run
    });
    drop(rt);
    let ok = matches!(&run.call, Some(Ok(v)) if v == &vec![7]);
    let mut o = Outcome::new(format!(
        "ok={ok} config_err={} connect_err={} call={:?} handler_calls={} peer_certs={:?} first_bytes={}",
        run.config_err.is_some(),
        run.connect_err.is_some(),
        run.call.as_ref().map(|r| r.as_ref().map(|_| "answer").map_err(|e| e.clone())),
        run.handler_calls,
        run.peer.iter().map(|p| p.as_ref().map(|c| c.len())).collect::<Vec<_>>(),
        crate::env::hex(&run.first_client_bytes[..run.first_client_bytes.len().min(5)])
    ));
    o.nontrivial = true;
    if run.connect_hang || run.call_hang {
        o.violate("hang", "connect or call never completed");
        return o;
    }
    if c.plain_client {
        if ok || run.handler_calls > 0 {
            o.violate("plaintext-client-served", format!("a client speaking plaintext HTTP/2 to the TLS server was served: ok={ok}, {} handler invocation(s) (after {} failed handshakes of other peers)", run.handler_calls, c.prior_failed));
        }
        return o;
    }
    if c.no_tls_config {
        if ok || run.handler_calls > 0 || !run.first_client_bytes.is_empty() {
            o.violate("https-without-tls-config-proceeds", format!("https endpoint without TLS configuration: ok={ok}, {} bytes sent, first {}", run.first_client_bytes.len(), crate::env::hex(&run.first_client_bytes)));
        }
        return o;
    }
    // ---- reference
    let chain_ok = c.roots == Roots::RightCa;
    let name_ok = match c.origin {
        // no domain_name in these cases: the URI host decides, whatever the origin says
        Some((_, host)) => host.contains("server.test"),
        None => c.domain != Domain::NonMatching,
    };
    // ALPN: Some(true) must pass, Some(false) must fail, None = open
    let alpn_ok: Option<bool> = match (c.alpn, c.assume_http2) {
        (Alpn::H2, _) => Some(true),
        (Alpn::NoneOffered, true) => Some(true),
        (Alpn::NoneOffered, false) => Some(false),
        (Alpn::Http11, false) => Some(false),
        (Alpn::Http11, true) => None, // a TLS stack may refuse the handshake (no_application_protocol)
    };
    let auth_ok: Option<bool> = match (c.auth, c.ident) {
        (ClientAuth::NotRequested, _) => Some(true),
        (ClientAuth::Required, Ident::FromRightCa) => Some(true),
        (ClientAuth::Required, _) => Some(false),
        (ClientAuth::Optional, Ident::FromOtherCa) => None, // presenting a bad certificate to a lenient server: not fixed by the statement
        (ClientAuth::Optional, _) => Some(true),
    };
    let must_fail = !chain_ok || !name_ok || alpn_ok == Some(false) || auth_ok == Some(false);
    let must_pass = chain_ok && name_ok && alpn_ok == Some(true) && auth_ok == Some(true);
    if must_fail && (ok || run.handler_calls > 0) {
        let why = if !chain_ok {
            "server-certificate-not-from-configured-roots"
        } else if !name_ok {
            "server-name-mismatch"
        } else if alpn_ok == Some(false) {
            "h2-not-negotiated"
        } else {
            "client-certificate-missing-or-foreign"
        };
        o.violate(format!("call-transmitted:{why}"), format!("the call succeeded={ok} and {} handler invocation(s) happened although {why}", run.handler_calls));
    }
    if must_pass && !ok {
        o.violate("valid-configuration-refused", format!("every condition holds but the call did not succeed: config_err={:?} connect_err={:?} call={:?}", run.config_err, run.connect_err, run.call));
    }
    if !ok && run.handler_calls > 0 {
        o.violate("handler-reached-by-failed-call", format!("{} handler invocations for a call that failed", run.handler_calls));
    }
    // failure from the client's own verification must surface at connect (the server's refusal of
    // the client may surface at connect or at the call: TLS 1.3)
    if (!chain_ok || !name_ok || alpn_ok == Some(false)) && run.connect_err.is_none() && run.config_err.is_none() {
        o.violate("client-side-verification-failure-not-at-connect", format!("connect succeeded; call={:?}", run.call));
    }
    // never plaintext: whatever the client put on the wire starts with a TLS handshake record
    if !run.first_client_bytes.is_empty() && !(run.first_client_bytes[0] == 0x16 && run.first_client_bytes.get(1) == Some(&0x03)) {
        o.violate("plaintext-on-the-wire", format!("first client bytes {}", crate::env::hex(&run.first_client_bytes)));
    }
    // verified peer certificates are exposed to handlers (tonic-terminated TLS only)
    if ok && c.alpn == Alpn::H2 {
        let saw = run.peer.first().cloned().flatten();
        let client_der = pem_certs(CLIENT_A_CERT).iter().map(|d| d.as_ref().to_vec()).collect::<Vec<_>>();
        match (c.auth, c.ident) {
            (ClientAuth::Required, Ident::FromRightCa) | (ClientAuth::Optional, Ident::FromRightCa) => {
                if saw.as_ref() != Some(&client_der) {
                    o.violate("peer-certs-not-exposed", format!("handler saw {:?} certificates, expected the client's chain", saw.as_ref().map(|c| c.len())));
                }
            }
            (ClientAuth::Optional, Ident::None) => {
                if saw.is_some() {
                    o.violate("peer-certs-invented", "handler saw peer certificates although the client presented none");
                }
            }
            _ => {}
        }
    }
    o
}

// ---------------------------------------------------------------------------------------------
// sequences: what one connection / endpoint established must not vouch for the next one

#[derive(Clone, Copy, Debug, PartialEq, Eq)]
enum SeqKind {
    /// one channel; its first connection negotiates h2 with a terminator, is cut, and the reconnect
    /// reaches a terminator that shares the TLS session store (so the session is resumed) but
    /// offers no ALPN: nothing may be transmitted on it (assume_http2 is off)
    ResumedWithoutAlpn,
    /// two endpoints configured from clones of ONE ClientTlsConfig without domain_name: the one
    /// whose URI host is in the certificate connects, the one whose host is not must fail —
    /// `first_valid` says which of the two is set up and used first
    SharedConfig { first_valid: bool },
    /// two tonic listeners in one process: the first connection of a channel (no client
    /// certificate) goes to one WITHOUT client authentication, is cut, and the reconnect reaches
    /// one that REQUIRES a client certificate: it must not be served there
    SecondListenerRequiresCert,
}

#[derive(Clone, Debug)]
struct SeqCase {
    kind: SeqKind,
    chop: usize,
}

fn seq_body(c: &SeqCase, _ch: &Chooser) -> Outcome {
    let rt = vnet::runtime(3);
    let c2 = c.clone();
    let (log, bad): (Vec<String>, Vec<(String, String)>) = rt.block_on(async move {
        let c = c2;
        let mut log = vec![];
        let mut bad = vec![];
        let (st, mut rx) = vnet::connector_state(ConnectMode::Succeed, false, c.chop);
        let seen = Arc::new(Seen::default());
        let svc = EchoServer::new(TlsEcho { seen: seen.clone() });
        match c.kind {
            SeqKind::ResumedWithoutAlpn => {
                // two terminator configurations sharing one session store
                let mut with_h2 = (*terminator_config(Alpn::NoneOffered, ClientAuth::NotRequested)).clone();
                with_h2.alpn_protocols = vec![b"h2".to_vec()];
                let mut without = (*terminator_config(Alpn::NoneOffered, ClientAuth::NotRequested)).clone();
                without.session_storage = with_h2.session_storage.clone();
                without.ticketer = with_h2.ticketer.clone();
                let (with_h2, without) = (Arc::new(with_h2), Arc::new(without));
                let (ptx, prx) = tokio::sync::mpsc::unbounded_channel::<NetIo>();
                tokio::spawn(async move {
                    let _ = Server::builder().add_service(svc).serve_with_incoming(vnet::incoming(prx)).await;
                });
                tokio::spawn(async move {
                    let mut n = 0usize;
                    while let Some(io) = rx.recv().await {
                        let cfg = if n == 0 { with_h2.clone() } else { without.clone() };
                        n += 1;
                        let ptx = ptx.clone();
                        tokio::spawn(async move {
                            if let Ok(mut tls) = tokio_rustls::TlsAcceptor::from(cfg).accept(io).await {
                                let (mut a, b) = vnet::pipe(1 << 16, &(vec![], 0), &(vec![], 0));
                                if ptx.send(b).is_ok() {
                                    let _ = tokio::io::copy_bidirectional(&mut tls, &mut a).await;
                                }
                            }
                        });
                    }
                });
                let tls = ClientTlsConfig::new().ca_certificate(Certificate::from_pem(CA_A));
                let ep = Endpoint::from_static("https://server.test:443").tls_config(tls).unwrap_or_else(|e| crate::explore::machinery(format!("tls config: {e}")));
                let chn = match vnet::within(Duration::from_secs(600), ep.connect_with_connector(vnet::connector(st.clone()))).await {
                    Some(Ok(chn)) => chn,
                    other => {
                        bad.push(("valid-configuration-refused".into(), format!("first connection (h2 negotiated) failed: {:?}", other.map(|r| r.map(|_| ()).map_err(|e| e.to_string())))));
                        return (log, bad);
                    }
                };
                let mut client = EchoClient::new(chn);
                let first = vnet::within(Duration::from_secs(600), client.unary(Request::new(vec![1]))).await;
                log.push(format!("first call: {:?}", first.as_ref().map(|r| r.as_ref().map(|_| "answer").map_err(|e| e.code()))));
                if !matches!(&first, Some(Ok(_))) {
                    bad.push(("valid-configuration-refused".into(), "the first call (h2 negotiated, valid certificate) did not succeed".into()));
                    return (log, bad);
                }
                vnet::settle_ms(20).await;
                // the connection is lost
                for s in st.conns.lock().unwrap().iter() {
                    s.cut();
                }
                vnet::settle_ms(20).await;
                for attempt in 0..3 {
                    let r = vnet::within(Duration::from_secs(600), client.unary(Request::new(vec![1]))).await;
                    log.push(format!("call after reconnect #{attempt}: {:?}", r.as_ref().map(|r| r.as_ref().map(|_| "answer").map_err(|e| e.code()))));
                    match r {
                        None => bad.push(("hang".into(), "a call after the reconnect never completed".into())),
                        Some(Ok(_)) => bad.push(("call-transmitted:h2-not-negotiated".into(), format!("call #{attempt} after the reconnect succeeded although the new connection negotiated no ALPN protocol (resumed session)"))),
                        Some(Err(_)) => {}
                    }
                    vnet::settle_ms(5).await;
                }
                let calls = seen.calls.load(Ordering::SeqCst);
                log.push(format!("handler calls: {calls}; connector invocations: {}", st.invocations.load(Ordering::SeqCst)));
                if calls != 1 {
                    bad.push(("call-transmitted:h2-not-negotiated".into(), format!("{calls} handler invocations; only the first call may reach the handler")));
                }
            }
            SeqKind::SecondListenerRequiresCert => {
                let seen_b = Arc::new(Seen::default());
                let svc_b = EchoServer::new(TlsEcho { seen: seen_b.clone() });
                let (atx, arx) = tokio::sync::mpsc::unbounded_channel::<NetIo>();
                let (btx, brx) = tokio::sync::mpsc::unbounded_channel::<NetIo>();
                let tls_a = ServerTlsConfig::new().identity(Identity::from_pem(SERVER_CERT, SERVER_KEY));
                let tls_b = ServerTlsConfig::new().identity(Identity::from_pem(SERVER_CERT, SERVER_KEY)).client_ca_root(Certificate::from_pem(CA_A));
                let mut ba = Server::builder().tls_config(tls_a).unwrap_or_else(|e| crate::explore::machinery(format!("server tls config: {e}")));
                let mut bb = Server::builder().tls_config(tls_b).unwrap_or_else(|e| crate::explore::machinery(format!("server tls config: {e}")));
                tokio::spawn(async move {
                    let _ = ba.add_service(svc).serve_with_incoming(vnet::incoming(arx)).await;
                });
                tokio::spawn(async move {
                    let _ = bb.add_service(svc_b).serve_with_incoming(vnet::incoming(brx)).await;
                });
                tokio::spawn(async move {
                    let mut n = 0usize;
                    while let Some(io) = rx.recv().await {
                        let _ = if n == 0 { atx.send(io) } else { btx.send(io) };
                        n += 1;
                    }
                });
                let tls = ClientTlsConfig::new().ca_certificate(Certificate::from_pem(CA_A));
                let ep = Endpoint::from_static("https://server.test:443").tls_config(tls).unwrap_or_else(|e| crate::explore::machinery(format!("tls config: {e}")));
                let chn = match vnet::within(Duration::from_secs(600), ep.connect_with_connector(vnet::connector(st.clone()))).await {
                    Some(Ok(chn)) => chn,
                    other => {
                        bad.push(("valid-configuration-refused".into(), format!("first connection (listener without client authentication) failed: {:?}", other.map(|r| r.map(|_| ()).map_err(|e| e.to_string())))));
                        return (log, bad);
                    }
                };
                let mut client = EchoClient::new(chn);
                let first = vnet::within(Duration::from_secs(600), client.unary(Request::new(vec![1]))).await;
                log.push(format!("first call: {:?}", first.as_ref().map(|r| r.as_ref().map(|_| "answer").map_err(|e| e.code()))));
                if !matches!(&first, Some(Ok(_))) {
                    bad.push(("valid-configuration-refused".into(), "the first call (listener without client authentication) did not succeed".into()));
                    return (log, bad);
                }
                vnet::settle_ms(20).await;
                for s in st.conns.lock().unwrap().iter() {
                    s.cut();
                }
                vnet::settle_ms(20).await;
                for attempt in 0..3 {
                    let r = vnet::within(Duration::from_secs(600), client.unary(Request::new(vec![1]))).await;
                    log.push(format!("call after reconnect #{attempt}: {:?}", r.as_ref().map(|r| r.as_ref().map(|_| "answer").map_err(|e| e.code()))));
                    match r {
                        None => bad.push(("hang".into(), "a call after the reconnect never completed".into())),
                        Some(Ok(_)) => bad.push(("call-transmitted:client-certificate-missing-or-foreign".into(), format!("call #{attempt} after the reconnect was served by the listener that requires a client certificate, although the client has none"))),
                        Some(Err(_)) => {}
                    }
                    vnet::settle_ms(5).await;
                }
                let calls_b = seen_b.calls.load(Ordering::SeqCst);
                log.push(format!("handler calls behind the authenticating listener: {calls_b}"));
                if calls_b != 0 {
                    bad.push(("call-transmitted:client-certificate-missing-or-foreign".into(), format!("{calls_b} handler invocation(s) behind the listener that requires a client certificate; the client presented none")));
                }
            }
            SeqKind::SharedConfig { first_valid } => {
                let tls = ServerTlsConfig::new().identity(Identity::from_pem(SERVER_CERT, SERVER_KEY));
                let mut b = Server::builder().tls_config(tls).unwrap_or_else(|e| crate::explore::machinery(format!("server tls config: {e}")));
                tokio::spawn(async move {
                    let _ = b.add_service(svc).serve_with_incoming(vnet::incoming(rx)).await;
                });
                let shared = ClientTlsConfig::new().ca_certificate(Certificate::from_pem(CA_A));
                let order: [(&str, bool); 2] = if first_valid { [("https://server.test:443", true), ("https://uri-host.test:443", false)] } else { [("https://uri-host.test:443", false), ("https://server.test:443", true)] };
                for (uri, valid) in order {
                    let ep = Endpoint::from_static(uri).tls_config(shared.clone()).unwrap_or_else(|e| crate::explore::machinery(format!("tls config: {e}")));
                    let before = seen.calls.load(Ordering::SeqCst);
                    let ok = match vnet::within(Duration::from_secs(600), ep.connect_with_connector(vnet::connector(st.clone()))).await {
                        None => {
                            bad.push(("hang".into(), format!("connect to {uri} never completed")));
                            false
                        }
                        Some(Err(_)) => false,
                        Some(Ok(chn)) => {
                            let mut client = EchoClient::new(chn);
                            matches!(vnet::within(Duration::from_secs(600), client.unary(Request::new(vec![1]))).await, Some(Ok(_)))
                        }
                    };
                    let reached = seen.calls.load(Ordering::SeqCst) - before;
                    log.push(format!("{uri}: ok={ok} handler calls={reached}"));
                    if valid && !ok {
                        bad.push(("valid-configuration-refused".into(), format!("{uri} is named by the certificate but the call did not succeed (endpoints configured from clones of one ClientTlsConfig)")));
                    }
                    if !valid && (ok || reached > 0) {
                        bad.push(("call-transmitted:server-name-mismatch".into(), format!("{uri} is not named by the certificate, yet the call succeeded={ok} / reached the handler {reached} time(s) (endpoints configured from clones of one ClientTlsConfig)")));
                    }
                    vnet::settle().await;
                }
            }
        }
        (log, bad)
    });
    drop(rt);
    let mut o = Outcome::new(format!("{log:?}"));
    o.nontrivial = true;
    for (k, why) in bad {
        o.violate(k, why);
    }
    o
}

fn seq_cases() -> Vec<SeqCase> {
    let mut out = vec![];
    for chop in [0usize, 2, 3] {
        out.push(SeqCase { kind: SeqKind::ResumedWithoutAlpn, chop });
        out.push(SeqCase { kind: SeqKind::SecondListenerRequiresCert, chop });
        out.push(SeqCase { kind: SeqKind::SharedConfig { first_valid: true }, chop });
        out.push(SeqCase { kind: SeqKind::SharedConfig { first_valid: false }, chop });
    }
    out
}

// ---------------------------------------------------------------------------------------------
// balanced channels: every endpoint is authenticated with its OWN TLS settings
//
// `Channel::balance_channel` connects inserted endpoints with tonic's own TCP connector, so this
// section uses a real loopback socket and real time (one process-wide tonic TLS server).

#[derive(Clone, Copy, Debug, PartialEq, Eq)]
enum EpTls {
    /// issuing CA + matching name: must be served
    Good,
    /// roots = the other CA
    OtherCa,
    /// right CA, domain_name names something outside the SAN
    WrongName,
}

#[derive(Clone, Copy, Debug, PartialEq, Eq)]
enum BalStep {
    Insert(usize, EpTls),
    Remove(usize),
    /// a call that must succeed
    CallOk,
    /// a call made while only endpoints that must not authenticate are registered: it must not succeed
    CallMustNotPass,
}

#[derive(Clone, Debug)]
struct BalTlsCase {
    script: Vec<BalStep>,
}

/// Starts this execution's own TLS server on a loopback port (inside the execution's runtime, so
/// that no server-side state survives from one execution to the next).
async fn tls_backend() -> u16 {
    let l = tokio::net::TcpListener::bind("127.0.0.1:0").await.unwrap_or_else(|e| crate::explore::machinery(format!("cannot bind a loopback listener: {e}")));
    let port = l.local_addr().map(|a| a.port()).unwrap_or(0);
    let svc = EchoServer::new(TlsEcho { seen: Arc::new(Seen::default()) });
    let tls = ServerTlsConfig::new().identity(Identity::from_pem(SERVER_CERT, SERVER_KEY));
    let mut b = Server::builder().tls_config(tls).unwrap_or_else(|e| crate::explore::machinery(format!("server tls config: {e}")));
    let incoming = tokio_stream::wrappers::TcpListenerStream::new(l);
    tokio::spawn(async move {
        let _ = b.add_service(svc).serve_with_incoming(incoming).await;
    });
    port
}

fn bal_body(c: &BalTlsCase, _ch: &Chooser) -> Outcome {
    let rt = tokio::runtime::Builder::new_current_thread().enable_all().build().unwrap_or_else(|e| crate::explore::machinery(format!("runtime: {e}")));
    let c = c.clone();
    let (trace, bad) = rt.block_on(async move {
        let port = tls_backend().await;
        let (channel, tx) = tonic::transport::Channel::balance_channel::<usize>(16);
        let mut trace: Vec<String> = vec![];
        let mut bad: Option<(String, String)> = None;
        for step in &c.script {
            match *step {
                BalStep::Insert(k, t) => {
                    let tls = match t {
                        EpTls::Good => ClientTlsConfig::new().ca_certificate(Certificate::from_pem(CA_A)).domain_name("server.test"),
                        EpTls::OtherCa => ClientTlsConfig::new().ca_certificate(Certificate::from_pem(CA_B)).domain_name("server.test"),
                        EpTls::WrongName => ClientTlsConfig::new().ca_certificate(Certificate::from_pem(CA_A)).domain_name("other.test"),
                    };
                    let ep = Endpoint::from_shared(format!("https://127.0.0.1:{port}")).and_then(|e| e.tls_config(tls)).unwrap_or_else(|e| crate::explore::machinery(format!("endpoint: {e}")));
                    let _ = tx.send(tonic::transport::channel::Change::Insert(k, ep)).await;
                    trace.push(format!("Insert({k},{t:?})"));
                }
                BalStep::Remove(k) => {
                    let _ = tx.send(tonic::transport::channel::Change::Remove(k)).await;
                    trace.push(format!("Remove({k})"));
                }
                BalStep::CallOk | BalStep::CallMustNotPass => {
                    let must_pass = *step == BalStep::CallOk;
                    let mut client = EchoClient::new(channel.clone());
                    let limit = if must_pass { Duration::from_secs(5) } else { Duration::from_millis(1500) };
                    let r = tokio::time::timeout(limit, client.unary(Request::new(vec![1]))).await;
                    let ok = matches!(&r, Ok(Ok(resp)) if resp.get_ref() == &vec![7u8]);
                    trace.push(format!("Call={}", match &r { Err(_) => "no answer".to_string(), Ok(Ok(_)) => "answer".to_string(), Ok(Err(e)) => format!("{:?}", e.code()) }));
                    if must_pass && !ok {
                        bad = Some(("balanced-valid-endpoint-refused".into(), format!("after {trace:?}: an endpoint whose own TLS settings are valid is registered but the call did not succeed")));
                        break;
                    }
                    if !must_pass && ok {
                        bad = Some(("balanced-call-transmitted:endpoint-authenticated-with-foreign-settings".into(), format!("after {trace:?}: the only registered endpoint's own TLS settings cannot authenticate the server, yet the call was answered")));
                        break;
                    }
                }
            }
        }
        (trace, bad)
    });
    let mut o = Outcome::new(format!("{trace:?}"));
    o.nontrivial = true;
    if let Some((k, why)) = bad {
        o.violate(k, why);
    }
    o
}

fn bal_cases() -> Vec<BalTlsCase> {
    use BalStep::*;
    let mut out = vec![];
    for bad in [EpTls::OtherCa, EpTls::WrongName] {
        // good first, then only the bad one remains
        out.push(BalTlsCase { script: vec![Insert(0, EpTls::Good), CallOk, Insert(1, bad), Remove(0), CallMustNotPass] });
        out.push(BalTlsCase { script: vec![Insert(0, EpTls::Good), Insert(1, bad), Remove(0), CallMustNotPass] });
        // bad first, then the good one alone (while both are registered the balancer may pick either,
        // and a call that lands on the bad one legitimately fails: not judged)
        out.push(BalTlsCase { script: vec![Insert(0, bad), Insert(1, EpTls::Good), Remove(0), CallOk] });
        out.push(BalTlsCase { script: vec![Insert(0, bad), CallMustNotPass, Insert(1, EpTls::Good), Remove(0), CallOk] });
        // the same key re-registered with other settings
        out.push(BalTlsCase { script: vec![Insert(0, EpTls::Good), CallOk, Remove(0), Insert(0, bad), CallMustNotPass] });
        out.push(BalTlsCase { script: vec![Insert(0, bad), Remove(0), Insert(0, EpTls::Good), CallOk] });
    }
    out.push(BalTlsCase { script: vec![Insert(0, EpTls::Good), Insert(1, EpTls::Good), CallOk, Remove(0), CallOk, Remove(1), Insert(0, EpTls::Good), CallOk] });
    out
}

fn cases(tier: Tier) -> Vec<Case> {
    let mut out = vec![];
    let mut n = 0;
    for roots in [Roots::RightCa, Roots::OtherCa, Roots::None] {
        for domain in [Domain::MatchingViaDomainName, Domain::NonMatching, Domain::FromUri] {
            for alpn in [Alpn::H2, Alpn::NoneOffered, Alpn::Http11] {
                for assume_http2 in [false, true] {
                    for auth in [ClientAuth::NotRequested, ClientAuth::Required, ClientAuth::Optional] {
                        for ident in [Ident::None, Ident::FromRightCa, Ident::FromOtherCa] {
                            n += 1;
                            let chops: Vec<usize> = if tier == Tier::Thorough { vec![0, 2, 3] } else { vec![[0, 2, 3][n % 3]] };
                            for chop in chops {
                                out.push(Case { roots, domain, alpn, assume_http2, auth, ident, no_tls_config: false, ignore_order: false, origin: None, chop, prior_failed: 0, plain_client: false });
                                if alpn == Alpn::H2 && roots == Roots::RightCa && domain != Domain::NonMatching {
                                    out.push(Case { roots, domain, alpn, assume_http2, auth, ident, no_tls_config: false, ignore_order: true, origin: None, chop, prior_failed: 0, plain_client: false });
                                }
                            }
                        }
                    }
                }
            }
        }
    }
    // an origin override set before tls_config must not become the verified name
    for (origin, host) in [("https://origin.test", "https://server.test:443"), ("https://server.test", "https://uri-host.test:443"), ("https://server.test", "https://server.test:443")] {
        for auth in [ClientAuth::NotRequested, ClientAuth::Required] {
            out.push(Case { roots: Roots::RightCa, domain: Domain::FromUri, alpn: Alpn::H2, assume_http2: false, auth, ident: Ident::FromRightCa, no_tls_config: false, ignore_order: false, origin: Some((origin, host)), chop: 0, prior_failed: 0, plain_client: false });
        }
    }
    // other peers fail their handshake first; then a proper client (must still be served over TLS,
    // with client authentication still enforced) or a plaintext client (must never be served)
    for prior_failed in [1usize, 2] {
        for auth in [ClientAuth::NotRequested, ClientAuth::Required, ClientAuth::Optional] {
            for ident in [Ident::None, Ident::FromRightCa, Ident::FromOtherCa] {
                out.push(Case { roots: Roots::RightCa, domain: Domain::FromUri, alpn: Alpn::H2, assume_http2: false, auth, ident, no_tls_config: false, ignore_order: false, origin: None, chop: 0, prior_failed, plain_client: false });
            }
            out.push(Case { roots: Roots::RightCa, domain: Domain::FromUri, alpn: Alpn::H2, assume_http2: false, auth, ident: Ident::None, no_tls_config: false, ignore_order: false, origin: None, chop: 0, prior_failed, plain_client: true });
        }
    }
    for auth in [ClientAuth::NotRequested, ClientAuth::Required] {
        out.push(Case { roots: Roots::RightCa, domain: Domain::FromUri, alpn: Alpn::H2, assume_http2: false, auth, ident: Ident::None, no_tls_config: false, ignore_order: false, origin: None, chop: 0, prior_failed: 0, plain_client: true });
    }
    for alpn in [Alpn::H2, Alpn::NoneOffered] {
        out.push(Case { roots: Roots::None, domain: Domain::FromUri, alpn, assume_http2: false, auth: ClientAuth::NotRequested, ident: Ident::None, no_tls_config: true, ignore_order: false, origin: None, chop: 0, prior_failed: 0, plain_client: false });
    }
    out
}

pub fn property(tier: Tier) -> Property {
    let sec = Section::new(
        "tls-matrix",
        Config { hang_secs: 60, ..Default::default() },
        "cases: the full 486-cell matrix client roots {issuing CA, other CA, none} x domain {URI host outside the SAN + domain_name naming the SAN, URI host in the SAN + domain_name naming something else, no domain_name + URI host in the SAN} x server ALPN {h2 = tonic-terminated TLS, none, http/1.1 = harness rustls terminator in front of a plain tonic server} x assume_http2 x server client-auth {none, required, optional} x client identity {none, from the client CA, from another CA} (pipe fragmentation pattern rotating; thorough: 3 patterns each), plus the tonic-terminated, otherwise passing cells repeated with ServerTlsConfig::ignore_client_order(true) (which must not influence authentication), plus Endpoint::origin(..) overrides set before tls_config (origin host outside / inside the SAN against a URI host inside / outside it: the URI host decides), plus https URI without any TLS configuration, plus sequences on one tonic-terminated server: 0..2 peers that fail their handshake (plaintext HTTP/2 sent to the TLS port) followed by a proper TLS client (authentication matrix) or by a plaintext client (never served); real handshakes (ring) over in-memory pipes in virtual time through Endpoint::tls_config + connect_with_connector and Server::tls_config. Oracle: boolean reference of the cell (must-pass / must-fail / open for http/1.1+assume_http2 and optional-auth+foreign certificate); on failure no handler invocation, client-side verification failures surface at connect, the first bytes the client ever sends are a TLS handshake record, handlers see the verified client chain (None when optional and absent). All cells count as non-trivial.",
        cases(tier),
        |c: &Case| format!("{c:?}"),
        body,
    )
    .mins(400, 4, 400);
    let seq = Section::new(
        "connection-sequences",
        Config { hang_secs: 60, ..Default::default() },
        "cases (x 3 pipe fragmentation patterns, virtual time, in-memory pipes): (a) one channel whose first connection negotiates h2 with a TLS terminator; the connection is cut; the reconnect reaches a terminator that shares the TLS session store (the session is resumed) but offers no ALPN protocol: with assume_http2 off none of the following calls may succeed or reach the handler; (a') two tonic listeners in one process, the first connection of a channel without client certificate goes to the one without client authentication, is cut, and the reconnect reaches the one that requires a client certificate: none of the following calls may be served there; (b) two endpoints configured from clones of ONE ClientTlsConfig without domain_name, one whose URI host the certificate names and one whose host it does not name, in both orders: the first must be served, the second must fail to connect. All cases count as non-trivial.",
        seq_cases(),
        |c: &SeqCase| format!("{c:?}"),
        seq_body,
    )
    .mins(12, 2, 12);
    let bal = Section::new(
        "balanced-endpoints",
        Config { hang_secs: 120, ..Default::default() },
        "cases: scripted discovery histories on Channel::balance_channel whose endpoints carry DIFFERENT ClientTlsConfigs (valid; roots = another CA; domain_name outside the SAN) for the same TLS server: valid endpoint first and then only the invalid one left, invalid first and then the valid one alone, the same key re-registered with the other settings. A balanced channel connects with tonic's own TCP connector, so this section alone uses a real loopback socket and real time (each execution starts its own tonic TLS server on 127.0.0.1, fixture PKI). Oracle: a call made while only endpoints that cannot authenticate the server are registered is never answered (1.5 s), a call made while a valid endpoint is registered succeeds (5 s bound). All cases count as non-trivial.",
        bal_cases(),
        |c: &BalTlsCase| format!("{:?}", c.script),
        bal_body,
    )
    .mins(10, 2, 10);
    Property {
        id: "C15",
        level: "exploration",
        hang_is_violation: true,
        assumptions: vec![
            "rustls / webpki / ring are trusted; the certificate space is the committed fixture PKI (/verif/fixtures/tls, ECDSA P-256, valid until 2126)".into(),
            "section balanced-endpoints uses real loopback TCP and real time (tonic gives a balanced channel no custom connector); its verdicts are answered / not answered within generous bounds".into(),
            "peer certificates are read from the TlsConnectInfo<()> request extension because the pipe's ConnectInfo is () (Request::peer_certs is typed for TCP)".into(),
        ],
        sections: vec![sec, seq, bal],
        extra: Default::default(),
    }
}
