//! C08 — user metadata crosses the wire intact; protocol headers cannot be forged.
//!
//! Five explorations:
//!  * `wire-l1`    generated client -> in-process adapter -> generated server (no runtime); the raw
//!                 header blocks on the wire *and* the peer's typed view are judged;
//!  * `wire-l2`    the same carriers through the real transport (Channel / hyper / h2 / Server over an
//!                 in-memory duplex pipe); the peer's view is judged;
//!  * `padded`     receiver side fed hand-built header blocks whose binary values are base64 with and
//!                 without padding (a non-tonic peer);
//!  * `unary-merge` headers and trailers of a hand-built peer merged into the unary caller's view;
//!  * `accessors`  typed accessors and iterators of `MetadataMap` under every spelling of the lookup
//!                 key.
//!
//! Every encoding is judged by `crate::oracle::b64` / `crate::oracle::pct`, never by tonic.

use super::l1::{apply_md, client_call, new_server, BidiMode, Capture, ClientView, Direct, Md, MdVal, Script, Shape, StatusSpec};
use crate::env::{fmt_headers, hex, spin_block_on, Chunking, ScriptBody};
use crate::explore::{machinery, Chooser, Config, Outcome};
use crate::fixtures::echo::echo_client::EchoClient;
use crate::oracle::tables::RESERVED;
use crate::oracle::{b64, pct, wire};
use crate::report::{Property, Section, Tier};
use http::header::{HeaderName, HeaderValue};
use http::HeaderMap;
use std::sync::{Arc, Mutex};
use tonic::metadata::{KeyAndValueRef, KeyRef, MetadataMap, ValueRef};

// ---------------------------------------------------------------------------------------------
// alphabets
// ---------------------------------------------------------------------------------------------

const BIN_ALPHA: [u8; 4] = [0x00, 0x3D, 0xFB, 0xFF];
const ASCII_KEYS: [&str; 5] = ["a", "x-y", "bin", "abin", "grpc-timeout"];
const BIN_KEYS: [&str; 2] = ["a-bin", "-bin"];
const ASCII_MENU: [&str; 6] = ["", "v", "a b", "k=v==", "~!\"#$%&'()*+,-./:;<=>?@[\\]^_`{|}", "0"];

/// Every byte string of length 0..=max_len over `BIN_ALPHA`, shortest first.
fn bin_strings(max_len: usize) -> Vec<Vec<u8>> {
    let mut out: Vec<Vec<u8>> = vec![vec![]];
    let mut layer: Vec<Vec<u8>> = vec![vec![]];
    for _ in 0..max_len {
        let mut next = vec![];
        for s in &layer {
            for b in BIN_ALPHA {
                let mut t = s.clone();
                t.push(b);
                next.push(t);
            }
        }
        out.extend(next.iter().cloned());
        layer = next;
    }
    out
}

/// A small menu of byte strings with every length mod 3 and every alphabet byte.
fn bin_sub_menu() -> Vec<Vec<u8>> {
    vec![vec![], vec![0x3D], vec![0xFB, 0xFF], vec![0x00, 0x3D, 0xFF], vec![0xFF, 0xFB, 0x00, 0x3D], vec![0x00]]
}

/// Values a user might try to smuggle under a reserved name. None of them is a value tonic itself
/// would legitimately send under that name in these scenarios (status code 9, message "m 9%").
fn reserved_values(name: &str) -> [&'static str; 3] {
    match name {
        "te" => ["forged", "gzip", ""],
        "user-agent" => ["evil/1", "forged", ""],
        "content-type" => ["text/plain", "application/grpc+evil", ""],
        "grpc-status" => ["0", "7", "forged"],
        "grpc-message" => ["hi", "forged", ""],
        "grpc-message-type" => ["t", "forged", ""],
        _ => machinery(format!("not a reserved name: {name}")),
    }
}

fn is_reserved(k: &str) -> bool {
    RESERVED.contains(&k)
}

fn is_bin_key(k: &str) -> bool {
    k.ends_with("-bin")
}

fn a(k: &str, v: &str) -> (String, MdVal) {
    (k.to_string(), MdVal::Ascii(v.to_string()))
}
fn b(k: &str, v: &[u8]) -> (String, MdVal) {
    (k.to_string(), MdVal::Bin(v.to_vec()))
}

fn permutations<T: Clone>(items: &[T]) -> Vec<Vec<T>> {
    if items.len() <= 1 {
        return vec![items.to_vec()];
    }
    let mut out = vec![];
    for i in 0..items.len() {
        let mut rest = items.to_vec();
        let x = rest.remove(i);
        for mut p in permutations(&rest) {
            p.insert(0, x.clone());
            out.push(p);
        }
    }
    out
}

/// The status that carries the metadata on the two status carriers.
fn carrier_status(md: Md) -> StatusSpec {
    StatusSpec { code: 9, message: "m 9%".into(), details: vec![0xFB], md }
}

// ---------------------------------------------------------------------------------------------
// wire sections
// ---------------------------------------------------------------------------------------------

#[derive(Clone, Copy, Debug, PartialEq, Eq)]
enum Carrier {
    Request,
    ResponseHeaders,
    TrailersOnly,
    Trailers,
    /// trailing metadata of a SUCCESSFUL streaming call: the handler's stream ends with an OK status
    /// that carries the metadata
    OkTrailers,
}

impl Carrier {
    const ALL: [Carrier; 5] = [Carrier::Request, Carrier::ResponseHeaders, Carrier::TrailersOnly, Carrier::Trailers, Carrier::OkTrailers];
    fn name(&self) -> &'static str {
        match self {
            Carrier::Request => "request",
            Carrier::ResponseHeaders => "response",
            Carrier::TrailersOnly => "trailers-only",
            Carrier::Trailers => "trailers",
            Carrier::OkTrailers => "ok-trailers",
        }
    }
    /// (shape, handler-level error) combinations that produce this carrier.
    fn shapes(&self) -> Vec<(Shape, bool)> {
        match self {
            Carrier::Request | Carrier::ResponseHeaders => Shape::ALL.iter().map(|s| (*s, false)).collect(),
            Carrier::TrailersOnly => vec![(Shape::Unary, false), (Shape::ClientStream, false), (Shape::ServerStream, true), (Shape::Bidi, true)],
            Carrier::Trailers | Carrier::OkTrailers => vec![(Shape::ServerStream, false), (Shape::Bidi, false)],
        }
    }
}

/// Compact description of a metadata list (the thorough tier has ~10^6 of them).
#[derive(Clone, Debug)]
enum MdSpec {
    Explicit(Md),
    /// values `table[idx[i]]` under one binary key
    BinList { key: &'static str, idx: Vec<u16> },
}

#[derive(Clone, Debug)]
struct WireCase {
    carrier: Carrier,
    shape: Shape,
    handler_err: bool,
    md: MdSpec,
    family: &'static str,
}

struct Tables {
    bins: Vec<Vec<u8>>,
}

impl Tables {
    fn md(&self, spec: &MdSpec) -> Md {
        match spec {
            MdSpec::Explicit(md) => md.clone(),
            MdSpec::BinList { key, idx } => idx.iter().map(|i| b(key, &self.bins[*i as usize])).collect(),
        }
    }
}

/// Families C–E: mixed maps with permuted insertion order, reserved names in every position,
/// every subset of the reserved names.
fn mixed_mds() -> Vec<(Md, &'static str)> {
    let mut out: Vec<(Md, &'static str)> = vec![];
    let sets: Vec<Md> = vec![
        vec![a("a", "1"), a("a", "2"), b("a-bin", &[0x00]), b("a-bin", &[0xFF, 0x3D])],
        vec![a("a", "v"), a("x-y", "a b"), b("-bin", &[0xFB]), a("bin", ""), a("te", "forged")],
        vec![a("abin", "k=v=="), b("a-bin", &[]), b("a-bin", &[0x3D]), a("grpc-timeout", "5S"), a("content-type", "text/plain")],
        vec![a("a", ""), a("a", ""), a("a", "x"), b("-bin", &[0xFF, 0xFF, 0xFF, 0xFF]), a("grpc-status", "0")],
        vec![a("user-agent", "evil/1"), a("grpc-message", "hi"), a("grpc-message-type", "t"), a("a", "1"), b("a-bin", &[0x00, 0x3D, 0xFB, 0xFF])],
    ];
    for s in &sets {
        for p in permutations(s) {
            out.push((p, "permuted"));
        }
    }
    // a reserved name with 1..2 values at every position of a base list
    let base: Md = vec![a("a", "1"), b("a-bin", &[0xFB, 0xFF]), a("x-y", "a b")];
    for r in RESERVED {
        let vals = reserved_values(r);
        for (vi, v) in vals.iter().enumerate() {
            for count in 1..=2 {
                for pos in 0..=base.len() {
                    let mut md = base.clone();
                    md.insert(pos, a(r, v));
                    if count == 2 {
                        // the second value goes to the far end so that the two are not adjacent
                        let second = a(r, vals[(vi + 1) % vals.len()]);
                        if pos * 2 > base.len() {
                            md.insert(0, second);
                        } else {
                            md.push(second);
                        }
                    }
                    out.push((md, "reserved-position"));
                }
            }
        }
    }
    // every subset of the reserved names, interleaved with ordinary entries
    for mask in 0u32..64 {
        let mut md: Md = vec![];
        for (i, r) in RESERVED.iter().enumerate() {
            if mask & (1 << i) != 0 {
                md.push(a(r, reserved_values(r)[i % 3]));
            }
            match i {
                1 => md.push(a("a", "1")),
                3 => md.push(b("a-bin", &[0x3D, 0x00])),
                _ => {}
            }
        }
        out.push((md, "reserved-subset"));
    }
    out
}

fn wire_cases(tier: Tier, tables: &Tables, l2: bool) -> Vec<WireCase> {
    let mut specs: Vec<(MdSpec, &'static str)> = vec![(MdSpec::Explicit(vec![]), "empty")];
    // A: one entry
    let single_max = if l2 { 341 } else { tables.bins.len() };
    for key in BIN_KEYS {
        for i in 0..single_max {
            specs.push((MdSpec::BinList { key, idx: vec![i as u16] }, "single-bin"));
        }
    }
    for key in ASCII_KEYS {
        for v in ASCII_MENU {
            // over the real transport the server parses grpc-timeout: keep it a benign valid value
            if l2 && key == "grpc-timeout" {
                continue;
            }
            specs.push((MdSpec::Explicit(vec![a(key, v)]), "single-ascii"));
        }
    }
    // B: one key repeated 2..=3 times
    if !l2 || tier == Tier::Thorough {
        let sub = bin_sub_menu();
        let sub_idx: Vec<u16> = sub.iter().map(|s| tables.bins.iter().position(|t| t == s).expect("sub menu is in the table") as u16).collect();
        for key in BIN_KEYS {
            for &i in &sub_idx {
                for &j in &sub_idx {
                    specs.push((MdSpec::BinList { key, idx: vec![i, j] }, "repeated-bin"));
                    for &k in &sub_idx {
                        specs.push((MdSpec::BinList { key, idx: vec![i, j, k] }, "repeated-bin"));
                    }
                }
            }
        }
        let am = ["", "v", "a b", "k=v=="];
        for key in ASCII_KEYS {
            if l2 && key == "grpc-timeout" {
                continue;
            }
            for i in am {
                for j in am {
                    specs.push((MdSpec::Explicit(vec![a(key, i), a(key, j)]), "repeated-ascii"));
                    for k in am {
                        specs.push((MdSpec::Explicit(vec![a(key, i), a(key, j), a(key, k)]), "repeated-ascii"));
                    }
                }
            }
        }
        if tier == Tier::Thorough && !l2 {
            // every ordered pair of byte strings of length <= 4 under one key
            for i in 0..341u16 {
                for j in 0..341u16 {
                    specs.push((MdSpec::BinList { key: "a-bin", idx: vec![i, j] }, "pair-bin"));
                }
            }
        }
    }
    // C-E
    for (md, fam) in mixed_mds() {
        let md = if l2 {
            // keep grpc-timeout parseable and long
            md.into_iter().map(|(k, v)| if k == "grpc-timeout" { a("grpc-timeout", "1H") } else { (k, v) }).collect()
        } else {
            md
        };
        specs.push((MdSpec::Explicit(md), fam));
    }
    let mut out = vec![];
    for (si, (spec, family)) in specs.iter().enumerate() {
        for carrier in Carrier::ALL {
            let shapes = carrier.shapes();
            // the big single-key families rotate over the call shapes, the rest take all of them
            let rotate = l2 || (tier == Tier::Quick && matches!(*family, "single-bin" | "repeated-bin" | "repeated-ascii"));
            let pick: Vec<(Shape, bool)> = if rotate { vec![shapes[si % shapes.len()]] } else { shapes };
            for (shape, handler_err) in pick {
                out.push(WireCase { carrier, shape, handler_err, md: spec.clone(), family });
            }
        }
    }
    out
}

fn script_for(c: &WireCase, md: &Md) -> (Script, Md) {
    let mut script = Script { initial_md: vec![], msgs: vec![vec![2]], end: None, handler_err: c.handler_err, bidi: BidiMode::ReadAll, disable_compression: false, exact_hint: false };
    let mut req_md: Md = vec![];
    match c.carrier {
        Carrier::Request => req_md = md.clone(),
        Carrier::ResponseHeaders => script.initial_md = md.clone(),
        Carrier::TrailersOnly | Carrier::Trailers => script.end = Some(carrier_status(md.clone())),
        Carrier::OkTrailers => script.end = Some(StatusSpec { code: 0, message: String::new(), details: vec![], md: md.clone() }),
    }
    (script, req_md)
}

/// Is `value` something tonic itself legitimately sends under reserved `name` on this carrier?
/// `at_peer`: judged in the peer's view rather than in the raw header block — the caller of a
/// unary-response method sees the OK trailers (`grpc-status: 0`, tonic's own) merged into the
/// response metadata.
fn legit_protocol_value(carrier: Carrier, name: &str, value: &[u8], at_peer: bool) -> bool {
    let st = carrier_status(vec![]);
    let status_carrier = matches!(carrier, Carrier::TrailersOnly | Carrier::Trailers);
    if at_peer && carrier == Carrier::ResponseHeaders && name == "grpc-status" && value == b"0" {
        return true;
    }
    if carrier == Carrier::OkTrailers {
        return name == "grpc-status" && value == b"0";
    }
    match name {
        "te" => carrier == Carrier::Request && value == b"trailers",
        "content-type" => carrier != Carrier::Trailers && value == b"application/grpc",
        "grpc-status" => status_carrier && value == st.code.to_string().as_bytes(),
        "grpc-message" => status_carrier && pct::decode_strict(value).ok().as_deref() == Some(st.message.as_str()),
        _ => false,
    }
}

fn keys_in_order(md: &Md) -> Vec<&str> {
    let mut keys: Vec<&str> = vec![];
    for (k, _) in md {
        if !keys.contains(&k.as_str()) {
            keys.push(k);
        }
    }
    keys
}

fn same_multiset(x: &[Vec<u8>], y: &[Vec<u8>]) -> bool {
    let (mut x, mut y) = (x.to_vec(), y.to_vec());
    x.sort();
    y.sort();
    x == y
}

/// Render values for messages: text for ASCII keys, hex for binary keys.
fn show_vals(key: &str, vals: &[Vec<u8>]) -> Vec<String> {
    vals.iter().map(|x| if is_bin_key(key) { hex(x) } else { String::from_utf8_lossy(x).to_string() }).collect()
}

fn want_bytes(md: &Md, key: &str) -> Vec<Vec<u8>> {
    md.iter()
        .filter(|(k, _)| k == key)
        .map(|(_, v)| match v {
            MdVal::Ascii(s) => s.as_bytes().to_vec(),
            MdVal::Bin(x) => x.clone(),
        })
        .collect()
}

/// Judge a raw header block against the metadata the user attached.
fn judge_wire(o: &mut Outcome, carrier: Carrier, h: &HeaderMap, md: &Md) {
    let c = carrier.name();
    for key in keys_in_order(md) {
        let want = want_bytes(md, key);
        let got: Vec<Vec<u8>> = h.get_all(key).iter().map(|v| v.as_bytes().to_vec()).collect();
        if is_reserved(key) {
            for g in &got {
                if want.contains(g) && !legit_protocol_value(carrier, key, g, false) {
                    o.violate(
                        format!("{c}-wire-forged-{key}"),
                        format!("reserved name {key:?} was emitted on the wire from user metadata: value {:?} (wire values under that name: {:?})", String::from_utf8_lossy(g), got.iter().map(|x| String::from_utf8_lossy(x).to_string()).collect::<Vec<_>>()),
                    );
                }
            }
            continue;
        }
        if is_bin_key(key) {
            let mut decoded: Vec<Vec<u8>> = vec![];
            let mut bad = false;
            for g in &got {
                // padding on the wire is legal (peers must accept both forms): only the decoded bytes are judged
                match b64::decode(g) {
                    Ok(d) => decoded.push(d),
                    Err(e) => {
                        bad = true;
                        o.violate(format!("{c}-wire-bin-not-base64"), format!("wire value {:?} under {key:?} is not base64: {e}", String::from_utf8_lossy(g)));
                    }
                }
            }
            if !bad && decoded != want {
                let kind = if same_multiset(&decoded, &want) { "order" } else { "values-bin" };
                o.violate(
                    format!("{c}-wire-{kind}"),
                    format!("key {key:?}: the wire carries {:?} (base64-decoded {:?}), the user attached {:?}", got.iter().map(|x| String::from_utf8_lossy(x).to_string()).collect::<Vec<_>>(), decoded.iter().map(|x| hex(x)).collect::<Vec<_>>(), want.iter().map(|x| hex(x)).collect::<Vec<_>>()),
                );
            }
        } else if got != want {
            let kind = if same_multiset(&got, &want) { "order" } else { "values-ascii" };
            o.violate(
                format!("{c}-wire-{kind}"),
                format!("key {key:?}: the wire carries {:?}, the user attached {:?}", got.iter().map(|x| String::from_utf8_lossy(x).to_string()).collect::<Vec<_>>(), want.iter().map(|x| String::from_utf8_lossy(x).to_string()).collect::<Vec<_>>()),
            );
        }
    }
}

/// Judge the peer's typed view (`get_all`, `get_all_bin`, `iter`) against what the user attached.
fn judge_peer(o: &mut Outcome, carrier: Carrier, peer: &MetadataMap, md: &Md) {
    let c = carrier.name();
    for key in keys_in_order(md) {
        let want = want_bytes(md, key);
        if is_reserved(key) {
            for v in peer.get_all(key).iter() {
                let g = v.as_bytes().to_vec();
                if want.contains(&g) && !legit_protocol_value(carrier, key, &g, true) {
                    o.violate(format!("{c}-peer-forged-{key}"), format!("the peer sees the user's value {:?} under reserved name {key:?}", String::from_utf8_lossy(&g)));
                }
            }
            continue;
        }
        let mut got: Vec<Vec<u8>> = vec![];
        let mut got_iter: Vec<Vec<u8>> = vec![];
        let mut undecodable = false;
        if is_bin_key(key) {
            for v in peer.get_all_bin(key).iter() {
                match v.to_bytes() {
                    Ok(x) => got.push(x.to_vec()),
                    Err(_) => {
                        undecodable = true;
                        o.violate(format!("{c}-peer-bin-undecodable"), format!("value {:?} under {key:?} cannot be decoded by the peer", String::from_utf8_lossy(v.as_encoded_bytes())));
                    }
                }
            }
        } else {
            for v in peer.get_all(key).iter() {
                got.push(v.as_bytes().to_vec());
            }
        }
        for kv in peer.iter() {
            match kv {
                KeyAndValueRef::Ascii(k, v) if k.as_str() == key => got_iter.push(v.as_bytes().to_vec()),
                KeyAndValueRef::Binary(k, v) if k.as_str() == key => match v.to_bytes() {
                    Ok(x) => got_iter.push(x.to_vec()),
                    Err(_) => undecodable = true,
                },
                _ => {}
            }
        }
        if undecodable {
            continue;
        }
        let ty = if is_bin_key(key) { "bin" } else { "ascii" };
        if got != want {
            let kind = if same_multiset(&got, &want) { "order".to_string() } else { format!("values-{ty}") };
            o.violate(
                format!("{c}-peer-{kind}"),
                format!("key {key:?}: the peer reads {:?}, the user attached {:?}", show_vals(key, &got), show_vals(key, &want)),
            );
        } else if got_iter != want {
            o.violate(
                format!("{c}-peer-iter-values-{ty}"),
                format!("key {key:?}: iter() yields {:?}, the user attached {:?}", show_vals(key, &got_iter), show_vals(key, &want)),
            );
        }
    }
}

fn md_nontrivial(md: &Md) -> bool {
    let keys = keys_in_order(md);
    md.iter().any(|(k, v)| is_reserved(k) || matches!(v, MdVal::Bin(_))) || keys.len() < md.len()
}

fn peer_view(c: &WireCase, view: &ClientView, handler_md: Option<&HeaderMap>) -> Option<MetadataMap> {
    match c.carrier {
        Carrier::Request => handler_md.cloned().map(MetadataMap::from_headers),
        Carrier::ResponseHeaders => view.initial_md.clone().map(MetadataMap::from_headers),
        Carrier::TrailersOnly | Carrier::Trailers => view.error.as_ref().map(|s| s.metadata().clone()),
        Carrier::OkTrailers => view.trailers.clone().map(MetadataMap::from_headers),
    }
}

fn wire_l1_body(tables: &Tables, c: &WireCase, ch: &Chooser) -> Outcome {
    let md = tables.md(&c.md);
    let (script, req_md) = script_for(c, &md);
    let (server, log) = new_server(script, ch, false);
    let capture = Arc::new(Mutex::new(Capture::default()));
    let whole = Chunking::Fixed(vec![]);
    let direct = Direct { svc: server, ch: ch.clone(), req_chunking: whole.clone(), resp_chunking: whole, capture: capture.clone() };
    let mut client = EchoClient::new(direct);
    let view = match spin_block_on(client_call(&mut client, c.shape, vec![vec![1]], &req_md, false, ch, |_| {}), 100_000) {
        Ok(v) => v,
        Err(_) => {
            let mut o = Outcome::new("STALLED");
            o.violate("stall", "the call did not complete");
            return o;
        }
    };
    let cap = capture.lock().unwrap().clone();
    let log = log.lock().unwrap().clone();
    let block: Option<HeaderMap> = match c.carrier {
        Carrier::Request => (cap.calls == 1).then(|| cap.req_headers.clone()),
        Carrier::ResponseHeaders | Carrier::TrailersOnly => cap.resp_status.map(|_| cap.resp_headers.clone()),
        Carrier::Trailers | Carrier::OkTrailers => cap.resp_body.trailers.first().cloned(),
    };
    let peer = peer_view(c, &view, log.req_md.as_ref());
    let mut o = Outcome::new(format!(
        "{} wire[{}] peer[{}]",
        c.carrier.name(),
        block.as_ref().map(fmt_headers).unwrap_or_else(|| "<none>".into()),
        peer.as_ref().map(|p| fmt_headers(p.as_ref())).unwrap_or_else(|| "<none>".into())
    ));
    o.nontrivial = md_nontrivial(&md);
    let cn = c.carrier.name();
    match &block {
        Some(h) => judge_wire(&mut o, c.carrier, h, &md),
        None => o.violate(format!("{cn}-not-on-wire"), "the header block that should carry the metadata was never produced"),
    }
    match &peer {
        Some(p) => judge_peer(&mut o, c.carrier, p, &md),
        None => o.violate(format!("{cn}-not-delivered"), format!("the peer never received the carrier (caller view: {})", super::l1::fmt_view(&view))),
    }
    if c.carrier == Carrier::OkTrailers {
        if let Some(e) = &view.error {
            o.violate("ok-trailers-call-failed", format!("the handler ended its stream with an OK status carrying metadata but the caller got {}", crate::env::fmt_status(e)));
        }
    }
    // the error status must still be the handler's (code/message/details), metadata aside
    if let (Carrier::TrailersOnly | Carrier::Trailers, Some(e)) = (c.carrier, &view.error) {
        let st = carrier_status(vec![]);
        if e.code() as i32 != st.code || e.message() != st.message || e.details() != &st.details[..] {
            o.violate(format!("{cn}-status-disturbed"), format!("user metadata disturbed the status itself: caller got {}", crate::env::fmt_status(e)));
        }
    }
    o
}

// ---- L2: the real transport over an in-memory pipe ------------------------------------------

fn wire_l2_body(tables: &Tables, c: &WireCase, ch: &Chooser) -> Outcome {
    use tokio_stream::StreamExt;
    let md = tables.md(&c.md);
    let (script, req_md) = script_for(c, &md);
    let (server, log) = new_server(script, ch, false);
    let rt = tokio::runtime::Builder::new_current_thread().enable_time().build().unwrap_or_else(|e| machinery(format!("runtime: {e}")));
    let shape = c.shape;
    let ch2 = ch.clone();
    let result: Result<ClientView, String> = rt.block_on(async move {
        let (client_io, server_io) = tokio::io::duplex(1 << 16);
        let incoming = tokio_stream::once(Ok::<_, std::io::Error>(server_io)).chain(tokio_stream::pending());
        let srv = tokio::spawn(async move {
            let _ = tonic::transport::Server::builder().add_service(server).serve_with_incoming(incoming).await;
        });
        let mut io = Some(client_io);
        let connector = tower::service_fn(move |_: http::Uri| {
            let io = io.take();
            async move { io.map(hyper_util::rt::TokioIo::new).ok_or_else(|| std::io::Error::other("the pipe was already taken")) }
        });
        let channel = tonic::transport::Endpoint::from_static("http://l2.test:50051")
            .connect_with_connector(connector)
            .await
            .map_err(|e| format!("connect failed: {e}"))?;
        let mut client = EchoClient::new(channel);
        let view = client_call(&mut client, shape, vec![vec![1]], &req_md, false, &ch2, |_| {}).await;
        srv.abort();
        Ok(view)
    });
    drop(rt);
    let view = match result {
        Ok(v) => v,
        Err(e) => machinery(format!("L2 environment failed: {e}")),
    };
    let log = log.lock().unwrap().clone();
    let peer = peer_view(c, &view, log.req_md.as_ref());
    // only user keys are rendered: `date` and the user-agent version are not part of the observation
    let mut o = Outcome::new(format!(
        "{} peer[{}]",
        c.carrier.name(),
        peer.as_ref()
            .map(|p| {
                let mut h = p.as_ref().clone();
                h.remove("date");
                fmt_headers(&h)
            })
            .unwrap_or_else(|| "<none>".into())
    ));
    o.nontrivial = md_nontrivial(&md);
    let cn = c.carrier.name();
    match &peer {
        Some(p) => judge_peer(&mut o, c.carrier, p, &md),
        None => o.violate(format!("{cn}-not-delivered"), format!("the peer never received the carrier (caller view: {})", super::l1::fmt_view(&view))),
    }
    if c.carrier == Carrier::Request {
        // on the real transport tonic's own user-agent must be the only one
        if let Some(h) = &log.req_md {
            let uas: Vec<String> = h.get_all("user-agent").iter().map(|v| String::from_utf8_lossy(v.as_bytes()).to_string()).collect();
            if md.iter().any(|(k, _)| k == "user-agent") && uas.len() > 1 {
                o.violate("request-peer-forged-user-agent", format!("several user-agent values reach the handler: {uas:?}"));
            }
        }
    }
    o
}

fn describe_wire(tables: &Tables, c: &WireCase) -> String {
    format!("{} {:?} handler_err={} family={} md={:?}", c.carrier.name(), c.shape, c.handler_err, c.family, tables.md(&c.md))
}

// ---------------------------------------------------------------------------------------------
// padded: a peer that pads its base64
// ---------------------------------------------------------------------------------------------

#[derive(Clone, Copy, Debug, PartialEq, Eq)]
enum Route {
    /// `MetadataMap::from_headers`
    Map,
    /// `tonic::Request::from_http`
    RequestFromHttp,
    /// `Status::from_header_map`
    StatusFromHeaders,
    /// hand-built http request -> generated server -> handler's `Request::metadata`
    Server,
    /// hand-built http response -> generated client -> `Response::metadata`
    ClientHeaders,
    /// hand-built trailers-only response -> generated client -> `Status::metadata`
    ClientTrailersOnly,
    /// hand-built message + trailers -> generated client -> `Status::metadata`
    ClientTrailers,
}

impl Route {
    const ALL: [Route; 7] = [Route::Map, Route::RequestFromHttp, Route::StatusFromHeaders, Route::Server, Route::ClientHeaders, Route::ClientTrailersOnly, Route::ClientTrailers];
    fn name(&self) -> &'static str {
        match self {
            Route::Map => "map",
            Route::RequestFromHttp => "request-from-http",
            Route::StatusFromHeaders => "status-from-headers",
            Route::Server => "server",
            Route::ClientHeaders => "client-headers",
            Route::ClientTrailersOnly => "client-trailers-only",
            Route::ClientTrailers => "client-trailers",
        }
    }
}

#[derive(Clone, Debug)]
struct PadCase {
    route: Route,
    key: &'static str,
    /// (index into the byte-string table, padded?)
    vals: Vec<(u16, bool)>,
}

/// A non-tonic peer: answers every request with one fixed, hand-built response.
#[derive(Clone)]
struct CannedPeer {
    headers: HeaderMap,
    body: Vec<u8>,
    trailers: Option<HeaderMap>,
    ch: Chooser,
}

impl tower_service::Service<http::Request<tonic::body::Body>> for CannedPeer {
    type Response = http::Response<ScriptBody>;
    type Error = std::convert::Infallible;
    type Future = std::future::Ready<Result<Self::Response, Self::Error>>;
    fn poll_ready(&mut self, _cx: &mut std::task::Context<'_>) -> std::task::Poll<Result<(), Self::Error>> {
        std::task::Poll::Ready(Ok(()))
    }
    fn call(&mut self, _req: http::Request<tonic::body::Body>) -> Self::Future {
        let body = ScriptBody::new(self.body.clone(), self.trailers.clone(), Chunking::Fixed(vec![]), &self.ch);
        let mut resp = http::Response::new(body);
        *resp.version_mut() = http::Version::HTTP_2;
        *resp.headers_mut() = self.headers.clone();
        std::future::ready(Ok(resp))
    }
}

fn hv(bytes: &[u8]) -> HeaderValue {
    HeaderValue::from_bytes(bytes).unwrap_or_else(|_| machinery("harness built an invalid header value"))
}

fn hn(name: &str) -> HeaderName {
    HeaderName::from_bytes(name.as_bytes()).unwrap_or_else(|_| machinery("harness built an invalid header name"))
}

fn padded_body(tables: &Tables, c: &PadCase, ch: &Chooser) -> Outcome {
    let want: Vec<Vec<u8>> = c.vals.iter().map(|(i, _)| tables.bins[*i as usize].clone()).collect();
    // the entries as a padding / non-padding peer writes them
    let mut entries = HeaderMap::new();
    let mut any_pad_char = false;
    for ((_, pad), bytes) in c.vals.iter().zip(&want) {
        let text = b64::encode(bytes, *pad);
        if b64::decode(text.as_bytes()).as_deref() != Ok(&bytes[..]) {
            machinery("the oracle's own base64 does not round-trip");
        }
        any_pad_char |= text.contains('=');
        entries.append(hn(c.key), hv(text.as_bytes()));
    }
    let grpc_ct = ("content-type", "application/grpc");
    let view: Result<MetadataMap, String> = match c.route {
        Route::Map => Ok(MetadataMap::from_headers(entries.clone())),
        Route::RequestFromHttp => {
            let mut r = http::Request::new(());
            *r.headers_mut() = entries.clone();
            Ok(tonic::Request::from_http(r).metadata().clone())
        }
        Route::StatusFromHeaders => {
            let mut h = entries.clone();
            h.insert("grpc-status", hv(b"5"));
            tonic::Status::from_header_map(&h).map(|s| s.metadata().clone()).ok_or_else(|| "no status".to_string())
        }
        Route::Server => {
            let script = Script { initial_md: vec![], msgs: vec![vec![2]], end: None, handler_err: false, bidi: BidiMode::Ignore, disable_compression: false, exact_hint: false };
            let (mut server, log) = new_server(script, ch, false);
            let mut h = entries.clone();
            h.insert(grpc_ct.0, hv(grpc_ct.1.as_bytes()));
            h.insert("te", hv(b"trailers"));
            let body = ScriptBody::new(wire::encode_frame(0, &[1]), None, Chunking::Fixed(vec![]), ch);
            let mut req = http::Request::new(body);
            *req.method_mut() = http::Method::POST;
            *req.version_mut() = http::Version::HTTP_2;
            *req.uri_mut() = http::Uri::from_static("/fx.Echo/Unary");
            *req.headers_mut() = h;
            let fut = tower_service::Service::call(&mut server, req);
            match spin_block_on(fut, 10_000) {
                Ok(Ok(_resp)) => log.lock().unwrap().req_md.clone().map(MetadataMap::from_headers).ok_or_else(|| "the handler was not invoked".to_string()),
                _ => Err("the server did not answer".to_string()),
            }
        }
        Route::ClientHeaders | Route::ClientTrailersOnly | Route::ClientTrailers => {
            let mut headers = HeaderMap::new();
            headers.insert(grpc_ct.0, hv(grpc_ct.1.as_bytes()));
            let mut trailers = HeaderMap::new();
            let mut body = vec![];
            let shape;
            match c.route {
                Route::ClientHeaders => {
                    headers.extend(entries.clone());
                    body = wire::encode_frame(0, &[7]);
                    trailers.insert("grpc-status", hv(b"0"));
                    shape = Shape::Unary;
                }
                Route::ClientTrailersOnly => {
                    headers.extend(entries.clone());
                    headers.insert("grpc-status", hv(b"5"));
                    headers.insert("grpc-message", hv(b"nf"));
                    shape = Shape::Unary;
                }
                _ => {
                    body = wire::encode_frame(0, &[7]);
                    trailers.extend(entries.clone());
                    trailers.insert("grpc-status", hv(b"5"));
                    shape = Shape::ServerStream;
                }
            }
            let peer = CannedPeer { headers, body, trailers: (!trailers.is_empty()).then_some(trailers), ch: ch.clone() };
            let mut client = EchoClient::new(peer);
            match spin_block_on(client_call(&mut client, shape, vec![vec![1]], &vec![], false, ch, |_| {}), 10_000) {
                Err(_) => Err("the call did not complete".to_string()),
                Ok(v) => match c.route {
                    Route::ClientHeaders => match (&v.initial_md, &v.error) {
                        (Some(h), None) => Ok(MetadataMap::from_headers(h.clone())),
                        _ => Err(format!("unexpected caller view {}", super::l1::fmt_view(&v))),
                    },
                    _ => match &v.error {
                        Some(e) if e.code() == tonic::Code::NotFound => Ok(e.metadata().clone()),
                        _ => Err(format!("unexpected caller view {}", super::l1::fmt_view(&v))),
                    },
                },
            }
        }
    };
    let r = c.route.name();
    let view = match view {
        Ok(v) => v,
        Err(e) => {
            let mut o = Outcome::new(format!("{r} FAILED {e}"));
            o.nontrivial = any_pad_char;
            o.violate(format!("{r}-carrier-lost"), format!("a response/request whose only peculiarity is base64 padding was not delivered: {e}"));
            return o;
        }
    };
    let mut got: Vec<Result<Vec<u8>, String>> = vec![];
    for v in view.get_all_bin(c.key).iter() {
        got.push(v.to_bytes().map(|x| x.to_vec()).map_err(|_| String::from_utf8_lossy(v.as_encoded_bytes()).to_string()));
    }
    let first = view.get_bin(c.key).map(|v| v.to_bytes().map(|x| x.to_vec()).map_err(|_| ()));
    let mut o = Outcome::new(format!("{r} {:?}", got.iter().map(|g| g.as_ref().map(|x| hex(x)).map_err(|e| e.clone())).collect::<Vec<_>>()));
    o.nontrivial = any_pad_char;
    let want_r: Vec<Result<Vec<u8>, String>> = want.iter().cloned().map(Ok).collect();
    if got != want_r {
        // name the failing form
        let mut kinds: Vec<&str> = vec![];
        for (i, (_, pad)) in c.vals.iter().enumerate() {
            if got.get(i) != Some(&Ok(want[i].clone())) {
                let k = if *pad { "padded" } else { "unpadded" };
                if !kinds.contains(&k) {
                    kinds.push(k);
                }
            }
        }
        if kinds.is_empty() {
            kinds.push("count");
        }
        for k in kinds {
            o.violate(
                format!("{r}-{k}-not-restored"),
                format!("key {:?}: the peer sent {:?}; the receiver reads {:?}, expected bytes {:?}", c.key, entries.get_all(c.key).iter().map(|v| String::from_utf8_lossy(v.as_bytes()).to_string()).collect::<Vec<_>>(), got, want.iter().map(|x| hex(x)).collect::<Vec<_>>()),
            );
        }
    } else if !want.is_empty() && first != Some(Ok(want[0].clone())) {
        o.violate(format!("{r}-get-bin-not-restored"), format!("get_bin({:?}) gives {first:?}, expected {:?}", c.key, hex(&want[0])));
    }
    o
}

fn pad_cases(tier: Tier, tables: &Tables) -> Vec<PadCase> {
    let mut out = vec![];
    let n = tables.bins.len();
    let sub = bin_sub_menu();
    let sub_idx: Vec<u16> = sub.iter().map(|s| tables.bins.iter().position(|t| t == s).expect("sub menu is in the table") as u16).collect();
    for route in Route::ALL {
        for (ki, key) in BIN_KEYS.iter().enumerate() {
            for i in 0..n {
                // quick: the two keys share the value table; thorough: both keys see every value
                if tier == Tier::Quick && i % 2 != ki {
                    continue;
                }
                for pad in [false, true] {
                    out.push(PadCase { route, key, vals: vec![(i as u16, pad)] });
                }
            }
        }
        // repeated values mixing both forms under one key
        for &i in &sub_idx {
            for &j in &sub_idx {
                for (pi, pj) in [(false, false), (false, true), (true, false), (true, true)] {
                    out.push(PadCase { route, key: "a-bin", vals: vec![(i, pi), (j, pj)] });
                }
            }
        }
        for mask in 0..8u32 {
            let vals: Vec<(u16, bool)> = (0..3).map(|k| (sub_idx[k + 1], mask & (1 << k) != 0)).collect();
            out.push(PadCase { route, key: "-bin", vals });
        }
    }
    out
}

// ---------------------------------------------------------------------------------------------
// unary-merge: the caller of a unary-response method has one metadata view for headers + trailers
// ---------------------------------------------------------------------------------------------

#[derive(Clone, Copy, Debug, PartialEq, Eq)]
enum MergeEnd {
    /// headers, message, OK trailers
    Ok,
    /// headers, message, error trailers
    ErrAfterMessage,
    /// headers, no message, error trailers
    ErrNoMessage,
}

#[derive(Clone, Debug)]
struct MergeCase {
    shape: Shape,
    hdr: Md,
    trl: Md,
    end: MergeEnd,
}

fn raw_entries(md: &Md) -> HeaderMap {
    let mut h = HeaderMap::new();
    for (k, v) in md {
        match v {
            MdVal::Ascii(s) => h.append(hn(k), hv(s.as_bytes())),
            MdVal::Bin(x) => h.append(hn(k), hv(b64::encode(x, false).as_bytes())),
        };
    }
    h
}

fn typed_values(m: &MetadataMap, key: &str) -> Vec<Vec<u8>> {
    if is_bin_key(key) {
        m.get_all_bin(key).iter().map(|v| v.to_bytes().map(|x| x.to_vec()).unwrap_or_else(|_| b"<undecodable>".to_vec())).collect()
    } else {
        m.get_all(key).iter().map(|v| v.as_bytes().to_vec()).collect()
    }
}

fn is_subsequence(needle: &[Vec<u8>], hay: &[Vec<u8>]) -> bool {
    let mut it = hay.iter();
    needle.iter().all(|n| it.any(|h| h == n))
}

fn merge_body(c: &MergeCase, ch: &Chooser) -> Outcome {
    let mut headers = HeaderMap::new();
    headers.insert("content-type", hv(b"application/grpc"));
    headers.extend(raw_entries(&c.hdr));
    let mut trailers = raw_entries(&c.trl);
    trailers.insert("grpc-status", hv(if c.end == MergeEnd::Ok { b"0" } else { b"5" }));
    let body = if c.end == MergeEnd::ErrNoMessage { vec![] } else { wire::encode_frame(0, &[7]) };
    let peer = CannedPeer { headers, body, trailers: Some(trailers), ch: ch.clone() };
    let mut client = EchoClient::new(peer);
    let view = match spin_block_on(client_call(&mut client, c.shape, vec![vec![1]], &vec![], false, ch, |_| {}), 10_000) {
        Ok(v) => v,
        Err(_) => {
            let mut o = Outcome::new("STALLED");
            o.violate("stall", "the call did not complete");
            return o;
        }
    };
    let mut o = Outcome::new(super::l1::fmt_view(&view));
    let collide = c.hdr.iter().any(|(k, _)| c.trl.iter().any(|(t, _)| t == k));
    o.nontrivial = collide;
    let describe = |m: &MetadataMap, key: &str| show_vals(key, &typed_values(m, key));
    match c.end {
        MergeEnd::Ok => match (&view.initial_md, &view.error) {
            (Some(h), None) => {
                let m = MetadataMap::from_headers(h.clone());
                for key in keys_in_order(&c.hdr) {
                    let want = want_bytes(&c.hdr, key);
                    if !is_subsequence(&want, &typed_values(&m, key)) {
                        o.violate("unary-merge-header-entry-lost", format!("the peer sent response headers {:?} and trailers {:?}; the caller's Response::metadata has {:?} under {key:?}: the header values {:?} are gone", c.hdr, c.trl, describe(&m, key), show_vals(key, &want)));
                    }
                }
                for key in keys_in_order(&c.trl) {
                    let want = want_bytes(&c.trl, key);
                    if !is_subsequence(&want, &typed_values(&m, key)) {
                        o.violate("unary-merge-trailer-entry-lost", format!("the peer sent response headers {:?} and trailers {:?}; the caller's Response::metadata has {:?} under {key:?}: the trailer values {:?} are gone", c.hdr, c.trl, describe(&m, key), show_vals(key, &want)));
                    }
                }
            }
            _ => o.violate("unary-merge-carrier-lost", "a well-formed unary response was not delivered"),
        },
        _ => match &view.error {
            Some(e) if e.code() == tonic::Code::NotFound => {
                let m = e.metadata();
                for key in keys_in_order(&c.trl) {
                    let want = want_bytes(&c.trl, key);
                    if !is_subsequence(&want, &typed_values(m, key)) {
                        o.violate("unary-merge-status-entry-lost", format!("the peer sent response headers {:?} and an error status in the trailers with metadata {:?}; the caller's Status::metadata has {:?} under {key:?}: the status's own values {:?} are gone", c.hdr, c.trl, describe(m, key), show_vals(key, &want)));
                    }
                }
            }
            _ => o.violate("unary-merge-carrier-lost", "the error status in the trailers was not delivered"),
        },
    }
    o
}

fn merge_cases() -> Vec<MergeCase> {
    let mut out = vec![];
    let hv_a = ["h1", "h2"];
    let tv_a = ["t1", "t2"];
    let hv_b: [&[u8]; 2] = [&[0x00], &[0xFB, 0xFF]];
    let tv_b: [&[u8]; 2] = [&[0x3D], &[0xFF, 0x00, 0x3D, 0xFB]];
    for shape in [Shape::Unary, Shape::ClientStream] {
        for end in [MergeEnd::Ok, MergeEnd::ErrAfterMessage, MergeEnd::ErrNoMessage] {
            for bin in [false, true] {
                for same_key in [true, false] {
                    for nh in 0..=2usize {
                        for nt in 0..=2usize {
                            let (kh, kt) = match (bin, same_key) {
                                (false, true) => ("a", "a"),
                                (false, false) => ("a", "x-y"),
                                (true, true) => ("a-bin", "a-bin"),
                                (true, false) => ("a-bin", "-bin"),
                            };
                            let hdr: Md = (0..nh).map(|i| if bin { b(kh, hv_b[i]) } else { a(kh, hv_a[i]) }).collect();
                            let trl: Md = (0..nt).map(|i| if bin { b(kt, tv_b[i]) } else { a(kt, tv_a[i]) }).collect();
                            out.push(MergeCase { shape, hdr, trl, end });
                        }
                    }
                }
            }
        }
    }
    out
}

// ---------------------------------------------------------------------------------------------
// accessors
// ---------------------------------------------------------------------------------------------

const ACC_KEYS: [&str; 7] = ["a", "a-bin", "x-y", "bin", "-bin", "abin", "grpc-timeout"];

#[derive(Clone, Debug)]
struct AccCase {
    /// (key, number of values), insertion order as listed
    counts: Vec<(&'static str, u8)>,
    via_headers: bool,
    lookup: &'static str,
}

#[derive(Clone, Copy, Debug, PartialEq, Eq)]
enum Form {
    Str,
    String,
    RefString,
}

#[derive(Clone, Debug, PartialEq, Eq)]
enum Res {
    None,
    /// presented as ASCII; the name of the stored entry
    Ascii(String),
    /// presented as binary; the name of the stored entry
    Binary(String),
    VacantAscii,
    VacantBinary,
    Err,
}

impl Res {
    fn sym(&self) -> char {
        match self {
            Res::None => '-',
            Res::Ascii(_) => 'A',
            Res::Binary(_) => 'B',
            Res::VacantAscii => 'a',
            Res::VacantBinary => 'b',
            Res::Err => 'E',
        }
    }
}

fn build_acc_map(c: &AccCase) -> MetadataMap {
    let asc = ["v0", "", "a b", "k=v"];
    let bins = bin_sub_menu();
    if c.via_headers {
        let mut h = HeaderMap::new();
        for (ki, (key, n)) in c.counts.iter().enumerate() {
            for i in 0..*n as usize {
                if is_bin_key(key) {
                    h.append(hn(key), hv(b64::encode(&bins[(ki + i) % bins.len()], i % 2 == 1).as_bytes()));
                } else {
                    h.append(hn(key), hv(asc[(ki + i) % asc.len()].as_bytes()));
                }
            }
        }
        MetadataMap::from_headers(h)
    } else {
        let mut md: Md = vec![];
        for (ki, (key, n)) in c.counts.iter().enumerate() {
            for i in 0..*n as usize {
                if is_bin_key(key) {
                    md.push(b(key, &bins[(ki + i) % bins.len()]));
                } else {
                    md.push(a(key, asc[(ki + i) % asc.len()]));
                }
            }
        }
        let mut m = MetadataMap::new();
        apply_md(&mut m, &md);
        m
    }
}

/// lower / UPPER / Capitalised / upper-case suffix / alternating
fn spellings(k: &str) -> Vec<(&'static str, String)> {
    let lower = k.to_ascii_lowercase();
    let upper = k.to_ascii_uppercase();
    let mut cap = String::new();
    let mut done = false;
    for ch in lower.chars() {
        if !done && ch.is_ascii_alphabetic() {
            cap.push(ch.to_ascii_uppercase());
            done = true;
        } else {
            cap.push(ch);
        }
    }
    let split = lower.len().saturating_sub(4);
    let suffix_upper = format!("{}{}", &lower[..split], lower[split..].to_ascii_uppercase());
    let mut alt = String::new();
    let mut n = 0;
    for ch in lower.chars() {
        if ch.is_ascii_alphabetic() {
            n += 1;
            alt.push(if n % 2 == 0 { ch.to_ascii_uppercase() } else { ch });
        } else {
            alt.push(ch);
        }
    }
    let mut out: Vec<(&'static str, String)> = vec![("lower", lower)];
    for (n, s) in [("upper", upper), ("capitalised", cap), ("suffix-upper", suffix_upper), ("alternating", alt)] {
        if !out.iter().any(|(_, t)| *t == s) {
            out.push((n, s));
        }
    }
    out
}

macro_rules! with_form {
    ($form:expr, $s:expr, |$k:ident| $e:expr) => {
        match $form {
            Form::Str => {
                let $k: &str = $s;
                $e
            }
            Form::String => {
                let $k: String = $s.to_string();
                $e
            }
            Form::RefString => {
                let owned: String = $s.to_string();
                let $k: &String = &owned;
                $e
            }
        }
    };
}

/// Call every keyed accessor with the lookup key spelled `s` in the given form.
fn probe(map: &MetadataMap, s: &str, form: Form) -> Vec<(&'static str, Res)> {
    let stored = s.to_ascii_lowercase();
    let found_a = |hit: bool| if hit { Res::Ascii(stored.clone()) } else { Res::None };
    let found_b = |hit: bool| if hit { Res::Binary(stored.clone()) } else { Res::None };
    let mut out: Vec<(&'static str, Res)> = vec![];
    out.push(("get", found_a(with_form!(form, s, |k| map.get(k).is_some()))));
    out.push(("get_bin", found_b(with_form!(form, s, |k| map.get_bin(k).is_some()))));
    out.push(("get_all", found_a(with_form!(form, s, |k| map.get_all(k).iter().count() > 0))));
    out.push(("get_all_bin", found_b(with_form!(form, s, |k| map.get_all_bin(k).iter().count() > 0))));
    {
        let mut m = map.clone();
        out.push(("get_mut", found_a(with_form!(form, s, |k| m.get_mut(k).is_some()))));
        out.push(("get_bin_mut", found_b(with_form!(form, s, |k| m.get_bin_mut(k).is_some()))));
    }
    {
        use tonic::metadata::Entry;
        let mut m = map.clone();
        let r = with_form!(form, s, |k| match m.entry(k) {
            Ok(Entry::Occupied(e)) => Res::Ascii(e.key().as_str().to_string()),
            Ok(Entry::Vacant(_)) => Res::VacantAscii,
            Err(_) => Res::Err,
        });
        out.push(("entry", r));
        let mut m = map.clone();
        let r = with_form!(form, s, |k| match m.entry_bin(k) {
            Ok(Entry::Occupied(e)) => Res::Binary(e.key().as_str().to_string()),
            Ok(Entry::Vacant(_)) => Res::VacantBinary,
            Err(_) => Res::Err,
        });
        out.push(("entry_bin", r));
    }
    {
        let mut m = map.clone();
        out.push(("remove", found_a(with_form!(form, s, |k| m.remove(k).is_some()))));
        let mut m = map.clone();
        out.push(("remove_bin", found_b(with_form!(form, s, |k| m.remove_bin(k).is_some()))));
    }
    out
}

fn judge_typing(o: &mut Outcome, accessor: &str, class: &str, res: &Res, ctx: &str) {
    match res {
        Res::Ascii(stored) if is_bin_key(stored) => o.violate(
            format!("{accessor}-{class}-bin-typed-ascii"),
            format!("{ctx}: the binary entry {stored:?} is presented with the Ascii type"),
        ),
        Res::Binary(stored) if !is_bin_key(stored) => o.violate(
            format!("{accessor}-{class}-ascii-typed-bin"),
            format!("{ctx}: the ASCII entry {stored:?} is presented with the Binary type"),
        ),
        _ => {}
    }
}

fn accessors_body(c: &AccCase, _ch: &Chooser) -> Outcome {
    let map = build_acc_map(c);
    let mut obs = String::new();
    let mut o = Outcome::new("");
    for (sp_name, s) in spellings(c.lookup) {
        let class = if s == s.to_ascii_lowercase() { "lowercase" } else { "uppercase" };
        obs.push_str(&format!(" {sp_name}:"));
        for form in [Form::Str, Form::String, Form::RefString] {
            for (acc, res) in probe(&map, &s, form) {
                obs.push(res.sym());
                judge_typing(&mut o, acc, class, &res, &format!("{acc}({s:?}) [{form:?} key]"));
            }
            obs.push('/');
        }
    }
    // iterators: the variant must follow the stored name
    let raw: &HeaderMap = map.as_ref();
    let names: Vec<String> = raw.iter().map(|(k, _)| k.as_str().to_string()).collect();
    let mut n_iter = 0;
    for (i, kv) in map.iter().enumerate() {
        n_iter += 1;
        let (res, k) = match kv {
            KeyAndValueRef::Ascii(k, _) => (Res::Ascii(k.as_str().to_string()), k.as_str().to_string()),
            KeyAndValueRef::Binary(k, _) => (Res::Binary(k.as_str().to_string()), k.as_str().to_string()),
        };
        if names.get(i) != Some(&k) {
            machinery("MetadataMap::iter and HeaderMap::iter disagree on the order");
        }
        judge_typing(&mut o, "iter", "lowercase", &res, "iter()");
    }
    for k in map.keys() {
        let res = match k {
            KeyRef::Ascii(k) => Res::Ascii(k.as_str().to_string()),
            KeyRef::Binary(k) => Res::Binary(k.as_str().to_string()),
        };
        judge_typing(&mut o, "keys", "lowercase", &res, "keys()");
    }
    for (i, v) in map.values().enumerate() {
        let stored = names.get(i).cloned().unwrap_or_default();
        let res = match v {
            ValueRef::Ascii(_) => Res::Ascii(stored),
            ValueRef::Binary(_) => Res::Binary(stored),
        };
        judge_typing(&mut o, "values", "lowercase", &res, "values()");
    }
    {
        use tonic::metadata::{KeyAndMutValueRef, ValueRefMut};
        let mut m = map.clone();
        for kv in m.iter_mut() {
            let res = match kv {
                KeyAndMutValueRef::Ascii(k, _) => Res::Ascii(k.as_str().to_string()),
                KeyAndMutValueRef::Binary(k, _) => Res::Binary(k.as_str().to_string()),
            };
            judge_typing(&mut o, "iter_mut", "lowercase", &res, "iter_mut()");
        }
        for (i, v) in m.values_mut().enumerate() {
            let stored = names.get(i).cloned().unwrap_or_default();
            let res = match v {
                ValueRefMut::Ascii(_) => Res::Ascii(stored),
                ValueRefMut::Binary(_) => Res::Binary(stored),
            };
            judge_typing(&mut o, "values_mut", "lowercase", &res, "values_mut()");
        }
    }
    if n_iter != names.len() {
        o.violate("iter-count", format!("iter() yields {n_iter} entries, the map holds {}", names.len()));
    }
    // one report per finding key and execution (the same defect shows under every spelling/form)
    let mut reported = std::collections::BTreeSet::new();
    o.violations.retain(|(k, _)| reported.insert(k.clone()));
    o.obs = format!("lookup={} n={}{}", c.lookup, names.len(), obs);
    o.nontrivial = c.counts.iter().any(|(k, n)| *k == c.lookup && *n > 0);
    o
}

fn acc_cases(tier: Tier) -> Vec<AccCase> {
    let mut out = vec![];
    let max = tier.q(2u8, 3u8);
    let base = (max + 1) as usize;
    let total = base.pow(ACC_KEYS.len() as u32);
    let mut lookups: Vec<&'static str> = ACC_KEYS.to_vec();
    lookups.extend(["zz", "zz-bin"]);
    for code in 0..total {
        let mut x = code;
        let mut counts: Vec<(&'static str, u8)> = vec![];
        for k in ACC_KEYS {
            counts.push((k, (x % base) as u8));
            x /= base;
        }
        // rotate the insertion order with the code so that every key is inserted first/last somewhere
        counts.rotate_left(code % ACC_KEYS.len());
        for via_headers in [false, true] {
            for lookup in &lookups {
                out.push(AccCase { counts: counts.clone(), via_headers, lookup });
            }
        }
    }
    // reserved names are ordinary ASCII entries inside a map
    for mask in 0u32..64 {
        let mut counts: Vec<(&'static str, u8)> = vec![("a", 1), ("a-bin", 2)];
        for (i, r) in RESERVED.iter().enumerate() {
            if mask & (1 << i) != 0 {
                counts.insert(i % 3, (r, 1 + (i as u8 % 2)));
            }
        }
        for via_headers in [false, true] {
            for lookup in RESERVED.iter().copied().chain(["a", "a-bin"]) {
                out.push(AccCase { counts: counts.clone(), via_headers, lookup });
            }
        }
    }
    out
}

// ---------------------------------------------------------------------------------------------

// ---- foreign peers: metadata next to a degraded status, and through the grpc-web client ------

#[derive(Clone, Debug)]
struct ForeignCase {
    /// 0: tonic client reads trailers with an undecodable grpc-message; 1: undecodable
    /// grpc-status-details-bin; 2: grpc-web client layer, trailers frame with these entries
    route: u8,
    md: Vec<(String, Vec<u8>)>,
}

struct CannedResp {
    headers: HeaderMap,
    body: Vec<u8>,
    trailers: Option<HeaderMap>,
    ch: Chooser,
}

impl<B: Send + 'static> tower_service::Service<http::Request<B>> for CannedResp {
    type Response = http::Response<ScriptBody>;
    type Error = std::convert::Infallible;
    type Future = std::pin::Pin<Box<dyn std::future::Future<Output = Result<Self::Response, Self::Error>> + Send>>;
    fn poll_ready(&mut self, _: &mut std::task::Context<'_>) -> std::task::Poll<Result<(), Self::Error>> {
        std::task::Poll::Ready(Ok(()))
    }
    fn call(&mut self, _req: http::Request<B>) -> Self::Future {
        let mut r = http::Response::new(ScriptBody::new(self.body.clone(), self.trailers.clone(), Chunking::Fixed(vec![]), &self.ch));
        *r.headers_mut() = self.headers.clone();
        Box::pin(async move { Ok(r) })
    }
}

fn foreign_body(c: &ForeignCase, ch: &Chooser) -> Outcome {
    let mut headers = HeaderMap::new();
    headers.insert("content-type", HeaderValue::from_static("application/grpc"));
    let mut trailers = HeaderMap::new();
    trailers.insert("grpc-status", HeaderValue::from_static("10"));
    match c.route {
        0 => {
            trailers.insert("grpc-message", HeaderValue::from_static("caf%E9%FF"));
        }
        1 => {
            trailers.insert("grpc-status-details-bin", HeaderValue::from_static("!!!not-base64"));
        }
        _ => {}
    }
    for (k, v) in &c.md {
        trailers.append(HeaderName::from_bytes(k.as_bytes()).unwrap(), HeaderValue::from_bytes(v).unwrap());
    }
    let view = if c.route == 2 {
        let block: Vec<(String, Vec<u8>)> = trailers.iter().map(|(k, v)| (k.as_str().to_string(), v.as_bytes().to_vec())).collect();
        let body = wire::encode_frame(0x80, &wire::encode_trailer_block(&block, false));
        headers.insert("content-type", HeaderValue::from_static("application/grpc-web+proto"));
        let svc = tonic_web::GrpcWebClientService::new(CannedResp { headers, body, trailers: None, ch: ch.clone() });
        let mut client = EchoClient::new(svc);
        spin_block_on(client_call(&mut client, Shape::ServerStream, vec![vec![1]], &vec![], false, ch, |_| {}), 100_000)
    } else {
        let svc = CannedResp { headers, body: vec![], trailers: Some(trailers), ch: ch.clone() };
        let mut client = EchoClient::new(svc);
        spin_block_on(client_call(&mut client, Shape::ServerStream, vec![vec![1]], &vec![], false, ch, |_| {}), 100_000)
    };
    let Ok(view) = view else {
        let mut o = Outcome::new("STALLED");
        o.violate("foreign-stall", "call did not complete");
        return o;
    };
    let mut o = Outcome::new(super::l1::fmt_view(&view));
    o.nontrivial = !c.md.is_empty();
    let Some(st) = &view.error else {
        o.violate("foreign-status-lost", "the peer's error status did not reach the caller");
        return o;
    };
    // every metadata entry the peer attached to its error status is visible to the caller
    let got = st.metadata().clone().into_headers();
    let mut keys: Vec<&String> = c.md.iter().map(|(k, _)| k).collect();
    keys.sort();
    keys.dedup();
    for k in keys {
        let want: Vec<Vec<u8>> = c.md.iter().filter(|(kk, _)| kk == k).map(|(_, v)| v.clone()).collect();
        let have: Vec<Vec<u8>> = got.get_all(k.as_str()).iter().map(|v| v.as_bytes().to_vec()).collect();
        if have != want {
            let route = ["undecodable-message", "undecodable-details", "grpc-web-client"][c.route as usize];
            o.violate(format!("foreign-status-metadata-lost:{route}"), format!("the peer's error status carried {k} = {:?} but the caller's Status::metadata has {:?} (status {})", want.iter().map(|v| String::from_utf8_lossy(v).to_string()).collect::<Vec<_>>(), have.iter().map(|v| String::from_utf8_lossy(v).to_string()).collect::<Vec<_>>(), crate::env::fmt_status(st)));
        }
    }
    o
}

fn foreign_cases() -> Vec<ForeignCase> {
    let mds: Vec<Vec<(String, Vec<u8>)>> = vec![
        vec![],
        vec![("x-reason".into(), b"quota".to_vec())],
        vec![("x-r".into(), b"1".to_vec()), ("x-r".into(), b"2".to_vec())],
        vec![("x-b-bin".into(), b"AP8+".to_vec()), ("x-c-bin".into(), b"AP8=".to_vec())],
        vec![("x-opaque".into(), vec![b'c', b'a', b'f', 0xe9, b' ', 0xfa, 0xfb]), ("x-a".into(), b"v: w".to_vec())],
    ];
    let mut out = vec![];
    for route in 0..3u8 {
        for md in &mds {
            out.push(ForeignCase { route, md: md.clone() });
        }
    }
    out
}

// ---------------------------------------------------------------------------------------------
// user-agent set by a client interceptor, through the real Channel: the channel's own product
// token is what the peer sees; nothing the user put under that name reaches the wire
// ---------------------------------------------------------------------------------------------

#[derive(Clone, Debug)]
struct UaCase {
    shape: Shape,
    /// Endpoint::user_agent(..)
    endpoint_ua: Option<&'static str>,
    /// what the interceptor writes under `user-agent` (insert or append)
    forged: &'static str,
    append: bool,
    /// the caller also puts it into the request metadata
    also_request_md: bool,
}

fn ua_body(c: &UaCase, ch: &Chooser) -> Outcome {
    use tokio_stream::StreamExt;
    let script = Script { initial_md: vec![], msgs: vec![vec![2]], end: None, handler_err: false, bidi: BidiMode::ReadAll, disable_compression: false, exact_hint: false };
    let (server, log) = new_server(script, ch, false);
    let rt = tokio::runtime::Builder::new_current_thread().enable_time().build().unwrap_or_else(|e| machinery(format!("runtime: {e}")));
    let c2 = c.clone();
    let ch2 = ch.clone();
    let result: Result<ClientView, String> = rt.block_on(async move {
        let c = c2;
        let (client_io, server_io) = tokio::io::duplex(1 << 16);
        let incoming = tokio_stream::once(Ok::<_, std::io::Error>(server_io)).chain(tokio_stream::pending());
        let srv = tokio::spawn(async move {
            let _ = tonic::transport::Server::builder().add_service(server).serve_with_incoming(incoming).await;
        });
        let mut io = Some(client_io);
        let connector = tower::service_fn(move |_: http::Uri| {
            let io = io.take();
            async move { io.map(hyper_util::rt::TokioIo::new).ok_or_else(|| std::io::Error::other("the pipe was already taken")) }
        });
        let mut ep = tonic::transport::Endpoint::from_static("http://l2.test:50051");
        if let Some(ua) = c.endpoint_ua {
            ep = ep.user_agent(ua).map_err(|e| format!("user_agent: {e}"))?;
        }
        let channel = ep.connect_with_connector(connector).await.map_err(|e| format!("connect failed: {e}"))?;
        let (forged, append) = (c.forged, c.append);
        let mut client = EchoClient::with_interceptor(channel, move |mut r: tonic::Request<()>| {
            let v: tonic::metadata::MetadataValue<tonic::metadata::Ascii> = forged.parse().unwrap();
            if append {
                r.metadata_mut().append("user-agent", v);
            } else {
                r.metadata_mut().insert("user-agent", v);
            }
            Ok(r)
        });
        let req_md: Md = if c.also_request_md { vec![a("user-agent", forged), a("x-a", "1")] } else { vec![a("x-a", "1")] };
        let view = client_call_intercepted(&mut client, c.shape, &req_md, &ch2).await;
        srv.abort();
        Ok(view)
    });
    drop(rt);
    let view = match result {
        Ok(v) => v,
        Err(e) => machinery(format!("L2 environment failed: {e}")),
    };
    let log = log.lock().unwrap().clone();
    let seen: Vec<String> = log.req_md.as_ref().map(|h| h.get_all("user-agent").iter().map(|v| String::from_utf8_lossy(v.as_bytes()).to_string()).collect()).unwrap_or_default();
    let mut o = Outcome::new(format!("handler_calls={} user-agent values seen by the handler: {}", log.calls, seen.len()));
    o.nontrivial = true;
    if log.calls != 1 || view.error.is_some() {
        o.violate("ua-call-failed", format!("the call did not reach the handler / failed: calls={} error={:?}", log.calls, view.error.as_ref().map(crate::env::fmt_status)));
        return o;
    }
    if seen.iter().any(|v| v.contains(c.forged)) {
        o.violate("request-wire-forged-user-agent", format!("the handler sees user-agent {:?}: the value {:?} written by the client's interceptor reached the wire", seen, c.forged));
    }
    if let Some(ua) = c.endpoint_ua {
        if !seen.iter().any(|v| v.contains(ua)) {
            o.violate("endpoint-user-agent-missing", format!("Endpoint::user_agent({ua:?}) is configured but the handler sees {:?}", seen));
        }
    }
    if log.req_md.as_ref().and_then(|h| h.get("x-a")).map(|v| v.as_bytes()) != Some(b"1") {
        o.violate("request-peer-values-ascii", "the ordinary entry x-a=1 next to the forged user-agent did not arrive".to_string());
    }
    o
}

/// `client_call` for a client wrapped in an interceptor (only the shapes' unary-request forms are needed).
async fn client_call_intercepted<F>(client: &mut EchoClient<tonic::service::interceptor::InterceptedService<tonic::transport::Channel, F>>, shape: Shape, req_md: &Md, _ch: &Chooser) -> ClientView
where
    F: tonic::service::Interceptor,
{
    let mut view = ClientView::default();
    let mut req = tonic::Request::new(vec![1u8]);
    apply_md(req.metadata_mut(), req_md);
    match shape {
        Shape::ServerStream => match client.server_stream(req).await {
            Err(e) => view.error = Some(e),
            Ok(resp) => {
                let mut s = resp.into_inner();
                loop {
                    match s.message().await {
                        Ok(Some(m)) => view.msgs.push(m),
                        Ok(None) => break,
                        Err(e) => {
                            view.error = Some(e);
                            break;
                        }
                    }
                }
            }
        },
        _ => match client.unary(req).await {
            Err(e) => view.error = Some(e),
            Ok(resp) => view.msgs.push(resp.into_inner()),
        },
    }
    view
}

fn ua_cases() -> Vec<UaCase> {
    let mut out = vec![];
    for shape in [Shape::Unary, Shape::ServerStream] {
        for endpoint_ua in [None, Some("app/2.0")] {
            for forged in ["evil/1", "grpc-go/9.9"] {
                for append in [false, true] {
                    for also_request_md in [false, true] {
                        out.push(UaCase { shape, endpoint_ua, forged, append, also_request_md });
                    }
                }
            }
        }
    }
    out
}

// ---------------------------------------------------------------------------------------------
// an error status that reaches tonic wrapped inside another error (what a tower layer or a
// transport hands over): whatever path finds the status must keep its metadata
// ---------------------------------------------------------------------------------------------

#[derive(Debug)]
struct Wrapping {
    what: &'static str,
    source: Box<dyn std::error::Error + Send + Sync>,
}
impl std::fmt::Display for Wrapping {
    fn fmt(&self, f: &mut std::fmt::Formatter<'_>) -> std::fmt::Result {
        write!(f, "{}", self.what)
    }
}
impl std::error::Error for Wrapping {
    fn source(&self) -> Option<&(dyn std::error::Error + 'static)> {
        Some(&*self.source)
    }
}

#[derive(Clone, Debug)]
struct WrapCase {
    md: Md,
    /// how many error types are wrapped around the status (0 = the bare status)
    depth: usize,
    /// 0 Status::from_error, 1 Status::try_from_error, 2 a transport failing under the generated client
    path: u8,
}

#[derive(Clone)]
struct FailingTransport {
    status: tonic::Status,
    depth: usize,
}

fn wrap(status: tonic::Status, depth: usize) -> Box<dyn std::error::Error + Send + Sync> {
    let mut e: Box<dyn std::error::Error + Send + Sync> = Box::new(status);
    for i in 0..depth {
        e = Box::new(Wrapping { what: if i == 0 { "layer refused the call" } else { "outer layer" }, source: e });
    }
    e
}

impl tower_service::Service<http::Request<tonic::body::Body>> for FailingTransport {
    type Response = http::Response<tonic::body::Body>;
    type Error = Box<dyn std::error::Error + Send + Sync>;
    type Future = std::future::Ready<Result<Self::Response, Self::Error>>;
    fn poll_ready(&mut self, _: &mut std::task::Context<'_>) -> std::task::Poll<Result<(), Self::Error>> {
        std::task::Poll::Ready(Ok(()))
    }
    fn call(&mut self, _req: http::Request<tonic::body::Body>) -> Self::Future {
        std::future::ready(Err(wrap(self.status.clone(), self.depth)))
    }
}

fn wrapped_body(c: &WrapCase, ch: &Chooser) -> Outcome {
    let spec = carrier_status(c.md.clone());
    let status = spec.build();
    let found: Result<tonic::Status, String> = match c.path {
        0 => Ok(tonic::Status::from_error(wrap(status, c.depth))),
        1 => tonic::Status::try_from_error(wrap(status, c.depth)).map_err(|e| format!("try_from_error did not find the status: {e}")),
        _ => {
            let mut client = EchoClient::new(FailingTransport { status, depth: c.depth });
            match spin_block_on(client_call(&mut client, Shape::Unary, vec![vec![1]], &vec![], false, ch, |_| {}), 10_000) {
                Err(_) => Err("call did not complete".into()),
                Ok(v) => v.error.ok_or_else(|| "the call succeeded although its transport failed".to_string()),
            }
        }
    };
    let mut o = Outcome::new(match &found {
        Ok(s) => crate::env::fmt_status(s),
        Err(e) => format!("ERR {e}"),
    });
    o.nontrivial = c.depth > 0 && md_nontrivial(&c.md);
    let s = match found {
        Ok(s) => s,
        Err(e) => {
            o.violate("wrapped-status-not-found", e);
            return o;
        }
    };
    if s.code() as i32 != spec.code || s.message() != spec.message || s.details() != &spec.details[..] {
        o.violate("wrapped-status-changed", format!("status {} came out as {}", crate::env::fmt_status(&spec.build()), crate::env::fmt_status(&s)));
    }
    for key in keys_in_order(&c.md) {
        if is_reserved(key) {
            continue;
        }
        let want = want_bytes(&c.md, key);
        let got = typed_values(s.metadata(), key);
        if got != want {
            o.violate("wrapped-status-metadata-lost", format!("status wrapped in {} error(s): key {key:?} has {:?}, attached {:?}", c.depth, show_vals(key, &got), show_vals(key, &want)));
        }
    }
    o
}

fn wrap_cases() -> Vec<WrapCase> {
    let mut mds: Vec<Md> = vec![vec![], vec![a("a", "1")], vec![b("a-bin", &[0, 0x3D, 0xFB])], vec![a("a", "1"), a("a", "2"), a("a", "1")], vec![b("a-bin", &[]), b("a-bin", &[0xFF]), a("x-y", "a b")]];
    for (i, (m, _)) in mixed_mds().into_iter().enumerate() {
        if i % 7 == 0 {
            mds.push(m);
        }
    }
    let mut out = vec![];
    for md in mds {
        for depth in 0..=3 {
            for path in 0..3u8 {
                out.push(WrapCase { md: md.clone(), depth, path });
            }
        }
    }
    out
}

pub fn property(tier: Tier) -> Property {
    let tables = Arc::new(Tables { bins: bin_strings(tier.q(4, 6)) });
    let cfg = || Config { max_bound: 0, ..Default::default() };

    let (t1, t2) = (tables.clone(), tables.clone());
    let wire_l1 = Section::new(
        "wire-l1",
        cfg(),
        "cases: carrier (request metadata client->handler; response headers; error Status on a trailers-only response; error Status on trailers after a message) x every call shape producing that carrier x metadata list: one entry (binary keys {a-bin,-bin} x every byte string of length 0..=4 [T: 0..=6] over {00,3D,FB,FF}; ASCII keys {a,x-y,bin,abin,grpc-timeout} x {\"\",v,'a b','k=v==',all visible punctuation,0}), one key repeated 2..3 times (menus with every length mod 3; T: every ordered pair of byte strings of length <=4), five mixed 4-5 entry maps under all insertion orders, each reserved name with 1..2 values at every position of a base list, every subset of the six reserved names. Path: generated client -> in-process adapter (captures the raw http header blocks/trailers) -> generated server, no runtime, no chunking choices. Oracle (hand-written base64/percent decoding): on the wire each non-reserved key carries exactly the user's values in order, binary values as base64 (padded or not) whose independent decode equals the bytes; no wire value under a reserved name equals a user-supplied value (the menus exclude tonic's own legitimate values); the peer's get_all/get_all_bin/iter give the same bytes in the same order; the status code/message/details are undisturbed. Non-trivial = the list has a binary value, a repeated key or a reserved name.",
        wire_cases(tier, &tables, false),
        move |c: &WireCase| describe_wire(&t1, c),
        move |c: &WireCase, ch: &Chooser| wire_l1_body(&t2, c, ch),
    )
    .mins(tier.q(15_000, 1_500_000), 500, 5_000);

    let (t1, t2) = (tables.clone(), tables.clone());
    let wire_l2 = Section::new(
        "wire-l2",
        Config { max_bound: 0, hang_secs: 30, ..Default::default() },
        "the same four carriers through the real transport: Endpoint::connect_with_connector -> Channel (user-agent, reconnect, buffer layers) -> hyper/h2 -> tokio duplex pipe -> Server::serve_with_incoming -> generated server, one fresh current-thread runtime per execution, one call shape per carrier (rotating). Metadata: single binary entries (every byte string of length 0..=4), single ASCII entries, [T: the repeated-key menus,] the permuted mixed maps, reserved names at every position, every subset of reserved names. Oracle: the peer's typed view (handler's Request::metadata, caller's Response::metadata / Status::metadata) holds the user's values per key in order; no user-supplied value is visible under a reserved name. Non-trivial as in wire-l1.",
        wire_cases(tier, &tables, true),
        move |c: &WireCase| describe_wire(&t1, c),
        move |c: &WireCase, ch: &Chooser| wire_l2_body(&t2, c, ch),
    )
    .mins(3_000, 200, 1_000);

    let (t1, t2) = (tables.clone(), tables.clone());
    let padded = Section::new(
        "padded",
        cfg(),
        "cases: receiving route (MetadataMap::from_headers; Request::from_http; Status::from_header_map; hand-built http request -> generated server -> handler; hand-built http response headers / trailers-only headers / trailers -> generated client -> Response/Status metadata) x binary key x every byte string of length 0..=4 [T: 0..=6] over {00,3D,FB,FF} written by the oracle's own base64 with and without padding, plus 2-3 values under one key mixing both forms. The header blocks are built by hand (a non-tonic peer). Oracle: get_all_bin/get_bin + to_bytes restore exactly the bytes for both forms. Non-trivial = at least one '=' is present on the wire.",
        pad_cases(tier, &tables),
        move |c: &PadCase| format!("{} key={} vals={:?}", c.route.name(), c.key, c.vals.iter().map(|(i, p)| (hex(&t1.bins[*i as usize]), *p)).collect::<Vec<_>>()),
        move |c: &PadCase, ch: &Chooser| padded_body(&t2, c, ch),
    )
    .mins(5_000, 100, 1_000);

    let merge = Section::new(
        "unary-merge",
        cfg(),
        "cases: a hand-built (non-tonic) peer answers a Unary / ClientStream call with response headers carrying 0..2 values under a key, and trailers carrying 0..2 values under the same or another key (ASCII and binary keys), ending OK, with an error status after the message, or with an error status and no message. The generated client gives the caller one metadata view (Response::metadata, or Status::metadata). Oracle: OK -> the header values and the trailer values are each an ordered subsequence of the caller's values under their key; error -> the status's own (trailer) values are an ordered subsequence of Status::metadata under their key (whether header entries are also visible on an error is not judged). Non-trivial = headers and trailers share a key.",
        merge_cases(),
        |c: &MergeCase| format!("{:?} {:?} headers={:?} trailers={:?}", c.shape, c.end, c.hdr, c.trl),
        merge_body,
    )
    .mins(200, 10, 20);

    let foreign = Section::new(
        "foreign-peer-status",
        Config::default(),
        "cases: a non-tonic peer ends a server-streaming call with an error status whose trailers carry custom metadata (single, repeated, binary padded/unpadded, opaque non-UTF-8 bytes, values with ': ') next to (0) an undecodable grpc-message, (1) an undecodable grpc-status-details-bin, or (2) delivered as a grpc-web trailers frame through GrpcWebClientService; oracle: every such entry is present, per key in order, in the caller's Status::metadata. Non-trivial = metadata attached.",
        foreign_cases(),
        |c: &ForeignCase| format!("route={} md={:?}", c.route, c.md.iter().map(|(k, v)| format!("{k}={}", String::from_utf8_lossy(v))).collect::<Vec<_>>()),
        foreign_body,
    )
    .mins(10, 3, 8);
    let ua = Section::new(
        "interceptor-user-agent",
        Config::default(),
        "cases: generated client with an interceptor that inserts / appends a user-agent value (and optionally the caller's request metadata carrying it too), with and without Endpoint::user_agent, unary and server-streaming, through the real Channel -> hyper/h2 -> in-memory pipe -> tonic server; oracle: the call succeeds, no user-agent value the handler sees contains what the user wrote, the configured endpoint product token is there, an ordinary entry next to it arrives. All cases count as non-trivial.",
        ua_cases(),
        |c: &UaCase| format!("{c:?}"),
        ua_body,
    )
    .mins(20, 1, 20);
    let wrapped = Section::new(
        "wrapped-status",
        Config::default(),
        "cases: an error status carrying metadata (empty, single ASCII / binary, repeated, mixed menus incl. reserved names) reaches tonic as the source of 0..3 nested foreign error types, through Status::from_error, Status::try_from_error, and as the failure of the transport under the generated client; oracle: the status found has the same code, message, details and, per non-reserved key, the same values in the same order. Non-trivial = wrapped at least once and metadata attached.",
        wrap_cases(),
        |c: &WrapCase| format!("depth={} path={} md={:?}", c.depth, ["from_error", "try_from_error", "failing transport"][c.path as usize], c.md),
        wrapped_body,
    )
    .mins(50, 3, 20);
    let accessors = Section::new(
        "accessors",
        cfg(),
        "cases: map with 0..=2 [T: 0..=3] values under each of {a,a-bin,x-y,bin,-bin,abin,grpc-timeout} (all combinations, rotating insertion order; built through append/append_bin and through MetadataMap::from_headers with mixed padding) plus every subset of the reserved names, x lookup key in the key menu + {zz,zz-bin}. Each execution calls get, get_bin, get_all, get_all_bin, get_mut, get_bin_mut, entry, entry_bin, remove, remove_bin with the lookup key spelled lower/UPPER/Capitalised/upper-suffix/alternating and passed as &str, String and &String, and walks iter, keys, values, iter_mut, values_mut. Oracle: an entry whose stored name ends in -bin is never presented with the Ascii type, any other entry never with the Binary type (a vacant entry or None presents nothing). Non-trivial = the looked-up key is present in the map.",
        acc_cases(tier),
        |c: &AccCase| format!("counts={:?} via_headers={} lookup={}", c.counts, c.via_headers, c.lookup),
        accessors_body,
    )
    .mins(10_000, 20, 1_000);

    Property {
        id: "C08",
        level: "exploration",
        hang_is_violation: false,
        assumptions: vec![
            "values outside the stated alphabets (byte strings over {00,3D,FB,FF} up to the stated length, the ASCII value menu, the key menu) are not covered".into(),
            "user metadata named grpc-* other than the six reserved names and grpc-timeout is outside the alphabet (grpc-status-details-bin in user metadata would be read back as status details)".into(),
            "ASCII values with leading/trailing whitespace are outside the alphabet (the gRPC spec lets a peer strip them)".into(),
            "forgery is judged by value: the values attached under reserved names are chosen so that tonic never legitimately sends them (status code 9, message 'm 9%')".into(),
            "wire-l2 judges the peer's view only (the bytes inside the h2 connection are not captured)".into(),
        ],
        sections: vec![wire_l1, wire_l2, padded, merge, accessors, foreign, wrapped, ua],
        extra: Default::default(),
    }
}
