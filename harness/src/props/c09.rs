//! C09 — deadlines: faithful grpc-timeout encoding, exact parsing, shortest-deadline enforcement.

use crate::explore::{Chooser, Config, Outcome};
use crate::oracle::timeout;
use crate::report::{Property, Section, Tier};
use http::{HeaderMap, HeaderValue};
use std::time::Duration;

// ------------------------------------------------------------------------------- encode

fn enc_body(d: &Duration, _ch: &Chooser) -> Outcome {
    let mut req = tonic::Request::new(());
    req.set_timeout(*d);
    let vals: Vec<Vec<u8>> = req.metadata().get_all("grpc-timeout").iter().map(|v| v.as_bytes().to_vec()).collect();
    let mut o = Outcome::new(format!("{:?} -> {:?}", d, vals.iter().map(|v| String::from_utf8_lossy(v).to_string()).collect::<Vec<_>>()));
    o.nontrivial = d.subsec_nanos() % 1000 != 0 || d.as_secs() > 99;
    if vals.len() != 1 {
        o.violate("encode-count", format!("{} grpc-timeout values", vals.len()));
        return o;
    }
    let v = &vals[0];
    let Some(denoted) = timeout::parse(v) else {
        o.violate("encode-not-conformant", format!("{:?} does not match ^[0-9]{{1,8}}[HMSmun]$", String::from_utf8_lossy(v)));
        return o;
    };
    if denoted > *d {
        o.violate("encode-longer-than-requested", format!("{:?} denotes {:?} > requested {:?}", String::from_utf8_lossy(v), denoted, d));
    }
    let unit = timeout::unit_nanos(*v.last().unwrap()).unwrap();
    let lost = d.as_nanos() - denoted.as_nanos().min(d.as_nanos());
    if lost >= unit {
        o.violate("encode-loses-a-unit", format!("{:?} loses {lost} ns, one unit is {unit} ns", String::from_utf8_lossy(v)));
    }
    // tonic's own parser must read its own output back to the same duration
    let mut h = HeaderMap::new();
    h.insert("grpc-timeout", HeaderValue::from_bytes(v).unwrap());
    match tonic::transport::verif_hooks::parse_grpc_timeout(&h) {
        Ok(Some(p)) if p == denoted => {}
        other => o.violate("encode-parse-disagree", format!("tonic parses its own {:?} as {:?}", String::from_utf8_lossy(v), other)),
    }
    o
}

fn enc_cases() -> Vec<Duration> {
    let mut out = vec![Duration::ZERO];
    for (_, per) in timeout::UNITS {
        for v in [0u128, 1, 9, 10, 99_999_998, 99_999_999, 100_000_000] {
            for delta in [0u128, 1, per - 1] {
                let n = v * per + if per == 1 { delta.min(1) } else { delta };
                // largest representable: 99 999 999 h 59 m 59.999999999 s
                if n <= 99_999_999u128 * 3_600_000_000_000 + 3_599_999_999_999 {
                    out.push(Duration::new((n / 1_000_000_000) as u64, (n % 1_000_000_000) as u32));
                }
            }
        }
    }
    let mut p: u128 = 1;
    while p <= 99_999_999u128 * 3_600_000_000_000 {
        for m in [1u128, 3, 7] {
            let n = p * m;
            if n <= 99_999_999u128 * 3_600_000_000_000 + 3_599_999_999_999 {
                out.push(Duration::new((n / 1_000_000_000) as u64, (n % 1_000_000_000) as u32));
                out.push(Duration::new(((n + 1) / 1_000_000_000) as u64, ((n + 1) % 1_000_000_000) as u32));
                if n > 1 {
                    out.push(Duration::new(((n - 1) / 1_000_000_000) as u64, ((n - 1) % 1_000_000_000) as u32));
                }
            }
        }
        p *= 10;
    }
    out.push(Duration::new(99_999_999 * 3600 + 3599, 999_999_999));
    out.sort();
    out.dedup();
    out
}

// ------------------------------------------------------------------------------- parse

#[derive(Clone, Debug)]
enum ParseCase {
    /// every digit string of `digits` digits whose leading `digits - low` digits spell `high`
    /// (leading zeros included), for this unit
    Block { unit: u8, digits: u32, high: u64, low: u32 },
    /// one explicit header value
    One(Vec<u8>),
}

fn judge_one(o: &mut Outcome, raw: &[u8]) {
    let mut h = HeaderMap::new();
    let Ok(hv) = HeaderValue::from_bytes(raw) else { return };
    h.insert("grpc-timeout", hv);
    let got = tonic::transport::verif_hooks::parse_grpc_timeout(&h);
    match timeout::parse(raw) {
        Some(want) => {
            if got != Ok(Some(want)) {
                o.violate("parse-conformant-wrong", format!("{:?} denotes {:?} but tonic parsed {:?}", String::from_utf8_lossy(raw), want, got));
            }
        }
        None => {
            if let Ok(Some(d)) = got {
                // classify the best-known shapes so that distinct defects get distinct keys
                let key = if raw.first() == Some(&b'+') { "parse-malformed-accepted:leading-plus" } else if raw.len() > 9 { "parse-malformed-accepted:too-many-digits" } else { "parse-malformed-accepted:other" };
                o.violate(key, format!("malformed {:?} was not ignored: parsed as {:?}", String::from_utf8_lossy(raw), d));
            }
        }
    }
}

fn parse_body(c: &ParseCase, _ch: &Chooser) -> Outcome {
    match c {
        ParseCase::One(raw) => {
            let mut o = Outcome::new(format!("{:?}", String::from_utf8_lossy(raw)));
            o.nontrivial = true;
            judge_one(&mut o, raw);
            o
        }
        ParseCase::Block { unit, digits, high, low } => {
            let n = 10u64.pow(*low);
            let mut o = Outcome::new(format!("block unit={} digits={digits} high={high} values={n}", *unit as char));
            o.nontrivial = true;
            let mut buf = Vec::with_capacity(10);
            for lowv in 0..n {
                buf.clear();
                let v = high * n + lowv;
                let s = format!("{:0width$}", v, width = *digits as usize);
                buf.extend_from_slice(s.as_bytes());
                buf.push(*unit);
                judge_one(&mut o, &buf);
                if !o.violations.is_empty() {
                    break;
                }
            }
            o
        }
    }
}

fn parse_cases(tier: Tier) -> Vec<ParseCase> {
    let mut out = vec![];
    for (unit, _) in timeout::UNITS {
        // all digit strings of length 1..=4 (leading zeros included)
        for digits in 1..=4u32 {
            out.push(ParseCase::Block { unit, digits, high: 0, low: digits });
        }
        // 5..=8 digits: blocks of 10^4 values
        for digits in 5..=8u32 {
            let blocks = 10u64.pow(digits - 4);
            for b in 0..blocks {
                let keep = match tier {
                    Tier::Thorough => true,
                    Tier::Quick => b == 0 || b == blocks - 1 || b % 997 == (digits as u64) || (b + 1).is_power_of_two(),
                };
                if keep {
                    out.push(ParseCase::Block { unit, digits, high: b, low: 4 });
                }
            }
        }
    }
    // malformed: every string of length <= 3 over a small alphabet
    let alpha: [u8; 10] = [b'0', b'9', b'+', b'-', b' ', b'.', b'S', b's', b'H', b'x'];
    let mut strs: Vec<Vec<u8>> = vec![vec![]];
    let mut frontier: Vec<Vec<u8>> = vec![vec![]];
    for _ in 0..tier.q(3, 4) {
        let mut next = vec![];
        for s in &frontier {
            for a in alpha {
                let mut t = s.clone();
                t.push(a);
                next.push(t);
            }
        }
        strs.extend(next.iter().cloned());
        frontier = next;
    }
    for s in strs {
        out.push(ParseCase::One(s));
    }
    for s in [
        &b"123456789S"[..], b"000000000S", b"1234567890123456789012345678901234567890S", b"S", b"n", b"12", b"12SS", b"12 S", b" 12S", b"12S ", b"+5S", b"-5S", b"+0n", b"1e3S", b"0x10S", b"5s", b"5h", b"5N", b"5U", b"12\xe9", b"\xe95S", b"99999999H", b"99999999n", b"00000000H", b"18446744073709551616S", b"1_000S",
    ] {
        out.push(ParseCase::One(s.to_vec()));
    }
    out
}

// ------------------------------------------------------------------------------- enforcement

#[derive(Clone, Copy, Debug, PartialEq, Eq)]
enum Side {
    /// tonic Server::timeout against a bare hyper client
    Server,
    /// tonic Endpoint::timeout + Request::set_timeout against a bare hyper server
    Client,
    /// tonic client against tonic server (caller-visible status text)
    Both,
}

#[derive(Clone, Debug)]
struct EnfCase {
    side: Side,
    /// a malformed grpc-timeout value sent instead of a conformant one (must be ignored)
    malformed: Option<&'static str>,
    caller_ms: Option<u64>,
    configured_ms: Option<u64>,
    latency_ms: u64,
    chop: usize,
    /// tonic client sides only: an earlier call on the same channel carried this deadline (its own
    /// outcome is not judged; it must not leak into the judged call)
    prior_caller_ms: Option<u64>,
    /// tonic client sides only: the caller polls the call once and then stays away this long
    /// before awaiting it (the deadline runs from the call, not from the caller's attention)
    idle_gap_ms: Option<u64>,
    /// tonic client sides only: the call is polled once where it was made and then moved to another
    /// task (tokio::spawn), which awaits it: the deadline must wake the task that holds the call NOW
    move_task: bool,
    /// bare client only: the request is labelled `application/grpc+proto` (a legal content-type
    /// that tonic's own client never sends); deadlines apply to it like to any gRPC request
    subtype: bool,
}

struct SlowEcho {
    latency: Duration,
    calls: std::sync::Arc<std::sync::atomic::AtomicU32>,
}

type BoxStream = std::pin::Pin<Box<dyn tokio_stream::Stream<Item = Result<Vec<u8>, tonic::Status>> + Send + 'static>>;

#[tonic::async_trait]
impl crate::fixtures::echo::echo_server::Echo for SlowEcho {
    async fn unary(&self, _r: tonic::Request<Vec<u8>>) -> Result<tonic::Response<Vec<u8>>, tonic::Status> {
        self.calls.fetch_add(1, std::sync::atomic::Ordering::SeqCst);
        tokio::time::sleep(self.latency).await;
        Ok(tonic::Response::new(vec![9]))
    }
    type ServerStreamStream = BoxStream;
    async fn server_stream(&self, _r: tonic::Request<Vec<u8>>) -> Result<tonic::Response<BoxStream>, tonic::Status> {
        Err(tonic::Status::unimplemented(""))
    }
    async fn client_stream(&self, _r: tonic::Request<tonic::Streaming<Vec<u8>>>) -> Result<tonic::Response<Vec<u8>>, tonic::Status> {
        Err(tonic::Status::unimplemented(""))
    }
    type BidiStream = BoxStream;
    async fn bidi(&self, _r: tonic::Request<tonic::Streaming<Vec<u8>>>) -> Result<tonic::Response<BoxStream>, tonic::Status> {
        Err(tonic::Status::unimplemented(""))
    }
}

/// (outcome, virtual milliseconds elapsed)
#[derive(Debug, Clone, PartialEq)]
enum EnfOutcome {
    Answer,
    Cancelled(String),
    Other(String),
    Hang,
}

fn enf_run(c: &EnfCase) -> (EnfOutcome, u64) {
    use crate::env::vnet::{self, ConnectMode};
    use crate::fixtures::echo::{echo_client::EchoClient, echo_server::EchoServer};
    use http_body_util::BodyExt;
    let rt = vnet::runtime(5);
    let c = c.clone();
    rt.block_on(async move {
        let (st, mut rx) = vnet::connector_state(ConnectMode::Succeed, false, c.chop);
        let latency = Duration::from_millis(c.latency_ms);
        let calls = std::sync::Arc::new(std::sync::atomic::AtomicU32::new(0));
        // ---- server
        match c.side {
            Side::Server | Side::Both => {
                let mut b = tonic::transport::Server::builder();
                if let (Some(ms), true) = (c.configured_ms, c.side == Side::Server) {
                    b = b.timeout(Duration::from_millis(ms));
                }
                let svc = EchoServer::new(SlowEcho { latency, calls: calls.clone() });
                tokio::spawn(async move {
                    let _ = b.add_service(svc).serve_with_incoming(vnet::incoming(rx)).await;
                });
            }
            Side::Client => {
                // a bare hyper HTTP/2 server: sleeps, then answers one gRPC message + OK trailers
                tokio::spawn(async move {
                    while let Some(io) = rx.recv().await {
                        tokio::spawn(async move {
                            let svc = hyper::service::service_fn(move |_req: http::Request<hyper::body::Incoming>| async move {
                                tokio::time::sleep(latency).await;
                                let mut t = http::HeaderMap::new();
                                t.insert("grpc-status", http::HeaderValue::from_static("0"));
                                let frames: Vec<Result<http_body::Frame<bytes::Bytes>, std::convert::Infallible>> = vec![
                                    Ok(http_body::Frame::data(bytes::Bytes::from(crate::oracle::wire::encode_frame(0, &[9])))),
                                    Ok(http_body::Frame::trailers(t)),
                                ];
                                let body = http_body_util::StreamBody::new(tokio_stream::iter(frames));
                                Ok::<_, std::convert::Infallible>(http::Response::builder().status(200).header("content-type", "application/grpc").body(body).unwrap())
                            });
                            let _ = hyper::server::conn::http2::Builder::new(hyper_util::rt::TokioExecutor::new()).serve_connection(hyper_util::rt::TokioIo::new(io), svc).await;
                        });
                    }
                });
            }
        }
        // ---- client
        let t0 = tokio::time::Instant::now();
        let horizon = Duration::from_secs(3600);
        let out = match c.side {
            Side::Client | Side::Both => {
                let mut ep = tonic::transport::Endpoint::from_static("http://c09.test:1");
                if let Some(ms) = c.configured_ms {
                    ep = ep.timeout(Duration::from_millis(ms));
                }
                let chn = match vnet::within(horizon, ep.connect_with_connector(vnet::connector(st))).await {
                    Some(Ok(c)) => c,
                    other => return (EnfOutcome::Other(format!("connect: {:?}", other.map(|r| r.map(|_| ()).map_err(|e| e.to_string())))), 0),
                };
                let mut client = EchoClient::new(chn);
                if let Some(ms) = c.prior_caller_ms {
                    let mut first = tonic::Request::new(vec![1]);
                    first.set_timeout(Duration::from_millis(ms));
                    if vnet::within(horizon, client.unary(first)).await.is_none() {
                        return (EnfOutcome::Other("the earlier call on the channel hung".into()), 0);
                    }
                }
                let mut req = tonic::Request::new(vec![1]);
                if let Some(ms) = c.caller_ms {
                    req.set_timeout(Duration::from_millis(ms));
                }
                if let Some(bad) = c.malformed {
                    req.metadata_mut().insert("grpc-timeout", tonic::metadata::MetadataValue::try_from(bad).unwrap());
                }
                let t0 = tokio::time::Instant::now();
                let r = match c.idle_gap_ms {
                    None if c.move_task => {
                        let mut owned = client.clone();
                        let mut fut: std::pin::Pin<Box<dyn std::future::Future<Output = Result<tonic::Response<Vec<u8>>, tonic::Status>> + Send>> = Box::pin(async move { owned.unary(req).await });
                        // a few polls from this task, letting the channel's worker run in between, so that
                        // the request is really under way (and its deadline armed) before the hand-over
                        let mut first = std::task::Poll::Pending;
                        for _ in 0..3 {
                            first = std::future::poll_fn(|cx| std::task::Poll::Ready(fut.as_mut().poll(cx))).await;
                            if first.is_ready() {
                                break;
                            }
                            tokio::task::yield_now().await;
                            tokio::task::yield_now().await;
                        }
                        match first {
                            std::task::Poll::Ready(r) => Some(r),
                            std::task::Poll::Pending => match vnet::within(horizon, tokio::spawn(fut)).await {
                                None => None,
                                Some(Ok(r)) => Some(r),
                                Some(Err(e)) => Some(Err(tonic::Status::unknown(format!("task failed: {e}")))),
                            },
                        }
                    }
                    None => vnet::within(horizon, client.unary(req)).await,
                    Some(gap) => {
                        let fut = client.unary(req);
                        tokio::pin!(fut);
                        // one poll gets the call under way, then the caller is busy elsewhere
                        let first = std::future::poll_fn(|cx| std::task::Poll::Ready(std::future::Future::poll(fut.as_mut(), cx))).await;
                        match first {
                            std::task::Poll::Ready(r) => Some(r),
                            std::task::Poll::Pending => {
                                tokio::time::sleep(Duration::from_millis(gap)).await;
                                vnet::within(horizon, fut).await
                            }
                        }
                    }
                };
                let dt = t0.elapsed().as_millis() as u64;
                return match r {
                    None => (EnfOutcome::Hang, dt),
                    Some(Ok(resp)) if resp.get_ref() == &vec![9] => (EnfOutcome::Answer, dt),
                    Some(Ok(_)) => (EnfOutcome::Other("wrong answer".into()), dt),
                    Some(Err(e)) if e.code() == tonic::Code::Cancelled => (EnfOutcome::Cancelled(e.message().to_string()), dt),
                    Some(Err(e)) => (EnfOutcome::Other(crate::env::fmt_status(&e)), dt),
                };
            }
            Side::Server => {
                // bare hyper HTTP/2 client
                use tower_service::Service;
                let mut conn = vnet::connector(st);
                let io = match conn.call(http::Uri::from_static("http://c09.test:1")).await {
                    Ok(io) => io,
                    Err(e) => return (EnfOutcome::Other(format!("pipe: {e}")), 0),
                };
                let (mut send, connection) = match hyper::client::conn::http2::handshake(hyper_util::rt::TokioExecutor::new(), io).await {
                    Ok(x) => x,
                    Err(e) => return (EnfOutcome::Other(format!("handshake: {e}")), 0),
                };
                tokio::spawn(async move {
                    let _ = connection.await;
                });
                let mut b = http::Request::builder().method("POST").uri("http://c09.test:1/fx.Echo/Unary").header("content-type", if c.subtype { "application/grpc+proto" } else { "application/grpc" }).header("te", "trailers");
                if let Some(ms) = c.caller_ms {
                    b = b.header("grpc-timeout", format!("{ms}m"));
                }
                if let Some(bad) = c.malformed {
                    b = b.header("grpc-timeout", bad);
                }
                let req = b.body(http_body_util::Full::new(bytes::Bytes::from(crate::oracle::wire::encode_frame(0, &[1])))).unwrap();
                let t0 = tokio::time::Instant::now();
                let r = vnet::within(horizon, async {
                    let resp = send.send_request(req).await.map_err(|e| e.to_string())?;
                    let (parts, body) = resp.into_parts();
                    let col = body.collect().await.map_err(|e| e.to_string())?;
                    let trailers = col.trailers().cloned();
                    let data = col.to_bytes();
                    Ok::<_, String>((parts, data, trailers))
                })
                .await;
                let dt = t0.elapsed().as_millis() as u64;
                match r {
                    None => (EnfOutcome::Hang, dt),
                    Some(Err(e)) => (EnfOutcome::Other(e), dt),
                    Some(Ok((parts, data, trailers))) => {
                        let status = parts.headers.get("grpc-status").or_else(|| trailers.as_ref().and_then(|t| t.get("grpc-status"))).map(|v| String::from_utf8_lossy(v.as_bytes()).to_string());
                        let msg = parts.headers.get("grpc-message").or_else(|| trailers.as_ref().and_then(|t| t.get("grpc-message"))).map(|v| String::from_utf8_lossy(v.as_bytes()).to_string()).unwrap_or_default();
                        match status.as_deref() {
                            Some("0") if data[..] == crate::oracle::wire::encode_frame(0, &[9])[..] => (EnfOutcome::Answer, dt),
                            Some("1") => (EnfOutcome::Cancelled(crate::oracle::pct::decode_strict(msg.as_bytes()).unwrap_or(msg)), dt),
                            other => (EnfOutcome::Other(format!("grpc-status {other:?} message {msg:?} data {}", crate::env::hex(&data))), dt),
                        }
                    }
                }
            }
        };
        let _ = t0;
        out
    })
}

fn enf_body(c: &EnfCase, _ch: &Chooser) -> Outcome {
    let (out, dt) = enf_run(c);
    let mut o = Outcome::new(format!("{out:?} after {dt} ms"));
    let limit = match (c.caller_ms, c.configured_ms) {
        (None, None) => None,
        (Some(a), None) => Some(a),
        (None, Some(b)) => Some(b),
        (Some(a), Some(b)) => Some(a.min(b)),
    };
    // Side::Both: the server has no configured timeout of its own but reads the caller's header
    o.nontrivial = limit.is_some();
    // a caller that stays away until both the answer and the deadline are in the past finds both
    // ready at its next poll; which of the two a poll-driven future then reports is not fixed by
    // the statement (nothing could have been "cut off" while nobody was polling): recorded only
    if let Some(g) = c.idle_gap_ms {
        if g >= c.latency_ms && limit.map(|l| c.latency_ms > l).unwrap_or(false) {
            o.nontrivial = false;
            return o;
        }
    }
    // a caller that stayed away for `idle_gap_ms` sees the outcome no earlier than that
    let gap = c.idle_gap_ms.unwrap_or(0);
    let near = |t: u64, want: u64| t + 2 >= want.max(gap) && t <= want.max(gap) + 2;
    match limit {
        Some(l) if c.latency_ms > l => match &out {
            EnfOutcome::Cancelled(msg) => {
                if !msg.contains("Timeout expired") {
                    o.violate("timeout-status-text", format!("CANCELLED but message {msg:?}"));
                }
                if !near(dt, l) {
                    o.violate("timeout-at-wrong-time", format!("cut off after {dt} ms, the shorter deadline is {l} ms (caller {:?}, configured {:?})", c.caller_ms, c.configured_ms));
                }
            }
            other => o.violate("deadline-not-enforced", format!("latency {} ms exceeds the shorter deadline {l} ms (caller {:?}, configured {:?}) but the outcome was {other:?} after {dt} ms", c.latency_ms, c.caller_ms, c.configured_ms)),
        },
        _ => {
            if out != EnfOutcome::Answer {
                o.violate("call-cut-off-early", format!("latency {} ms is within the deadline {limit:?} but the outcome was {out:?} after {dt} ms", c.latency_ms));
            } else if !near(dt, c.latency_ms) {
                o.violate("answer-at-wrong-time", format!("answer after {dt} ms, handler latency {} ms", c.latency_ms));
            }
        }
    }
    o
}

fn enf_cases(tier: Tier) -> Vec<EnfCase> {
    let mut out = vec![];
    let mut n = 0;
    for side in [Side::Server, Side::Client] {
        for caller_ms in [None, Some(50u64), Some(200)] {
            for configured_ms in [None, Some(50u64), Some(200)] {
                for latency_ms in [10u64, 100, 300] {
                    n += 1;
                    let chops: Vec<usize> = if tier == Tier::Thorough { vec![0, 2, 3] } else { vec![[0, 2, 3][n % 3]] };
                    for chop in chops {
                        out.push(EnfCase { side, malformed: None, caller_ms, configured_ms, latency_ms, chop, prior_caller_ms: None, idle_gap_ms: None, move_task: false, subtype: false });
                    }
                }
            }
        }
    }
    // a conformant ZERO deadline is the shortest of all: the call is cut off at once
    for side in [Side::Server, Side::Client] {
        for configured_ms in [None, Some(50u64)] {
            for latency_ms in [10u64, 300] {
                out.push(EnfCase { side, malformed: None, caller_ms: Some(0), configured_ms, latency_ms, chop: 0, prior_caller_ms: None, idle_gap_ms: None, move_task: false, subtype: false });
            }
        }
        for latency_ms in [10u64, 300] {
            out.push(EnfCase { side, malformed: None, caller_ms: Some(200), configured_ms: Some(0), latency_ms, chop: 0, prior_caller_ms: None, idle_gap_ms: None, move_task: false, subtype: false });
        }
    }
    // a malformed caller value is ignored: the configured timeout alone decides
    for side in [Side::Server, Side::Client] {
        for bad in ["82f", "+5S", "S", "123456789S", "5 S", "1e3m"] {
            for configured_ms in [None, Some(50u64)] {
                for latency_ms in [10u64, 300] {
                    out.push(EnfCase { side, malformed: Some(bad), caller_ms: None, configured_ms, latency_ms, chop: 0, prior_caller_ms: None, idle_gap_ms: None, move_task: false, subtype: false });
                }
            }
        }
    }
    // sequences on one channel: an earlier call's deadline must not stick to the channel
    for side in [Side::Client, Side::Both] {
        for prior in [20u64, 50] {
            for caller_ms in [None, Some(200u64)] {
                for configured_ms in [None, Some(200u64)] {
                    for latency_ms in [10u64, 100, 300] {
                        if side == Side::Both && configured_ms.is_some() {
                            continue;
                        }
                        out.push(EnfCase { side, malformed: None, caller_ms, configured_ms, latency_ms, chop: 0, prior_caller_ms: Some(prior), idle_gap_ms: None, move_task: false, subtype: false });
                    }
                }
            }
        }
    }
    // a call that is polled once and then handed to another task
    for (caller_ms, configured_ms) in [(None, Some(50u64)), (Some(50u64), None), (Some(200u64), Some(50u64)), (None, None)] {
        for latency_ms in [10u64, 100, 300] {
            out.push(EnfCase { side: Side::Client, malformed: None, caller_ms, configured_ms, latency_ms, chop: 0, prior_caller_ms: None, idle_gap_ms: None, move_task: true, subtype: false });
        }
    }
    // a caller that polls once and then stays away: the deadline runs from the call
    for gap in [30u64, 150, 400] {
        for (caller_ms, configured_ms) in [(None, Some(50u64)), (Some(50u64), None), (Some(200u64), Some(50u64)), (None, None)] {
            for latency_ms in [10u64, 100, 300] {
                out.push(EnfCase { side: Side::Client, malformed: None, caller_ms, configured_ms, latency_ms, chop: 0, prior_caller_ms: None, idle_gap_ms: Some(gap), move_task: false, subtype: false });
            }
        }
    }
    for caller_ms in [None, Some(50u64), Some(200)] {
        for latency_ms in [10u64, 100, 300] {
            out.push(EnfCase { side: Side::Both, malformed: None, caller_ms, configured_ms: None, latency_ms, chop: 0, prior_caller_ms: None, idle_gap_ms: None, move_task: false, subtype: false });
        }
    }
    // every bare-client case once more under the content-type `application/grpc+proto`
    let sub: Vec<EnfCase> = out.iter().filter(|c| c.side == Side::Server).cloned().map(|mut c| {
        c.subtype = true;
        c
    }).collect();
    out.extend(sub);
    out
}

pub fn property(tier: Tier) -> Property {
    let enc = Section::new(
        "encode",
        Config::default(),
        "cases: durations v*u + delta for every unit u, v in {0,1,9,10,99999998,99999999,100000000}, delta in {0, 1 ns, u - 1 ns}, every power of ten in ns times {1,3,7} +/- 1 ns up to the largest representable (99999999 h 59 m 59.999999999 s); Request::set_timeout output must match ^[0-9]{1,8}[HMSmun]$, denote <= requested, lose < 1 unit of the chosen unit, and be parsed back by tonic's own parser to the denoted value. Non-trivial = sub-microsecond part or more than 99 s.",
        enc_cases(),
        |d: &Duration| format!("{d:?}"),
        enc_body,
    )
    .mins(100, 50, 20);
    let parse = Section::new(
        "parse",
        Config::default(),
        "cases (each Block case covers 10^k header values, evaluated one by one inside the case): for each of the 6 units every digit string of 1..4 digits (leading zeros included) and, of the 5..8 digit strings, every 10^4-value block in thorough (all 666 666 660 conformant strings) / first, last, power-of-two and every 997th block in quick; plus every string of length <= 3 (thorough 4) over {0,9,+,-,space,.,S,s,H,x} and a menu of malformed values (9 digits, sign, two units, spaces, obs-text, lower/upper-case unit mix-ups, overflow). Oracle (via hook H1): conformant => exactly the denoted Duration; anything else must not yield a duration.",
        parse_cases(tier),
        |c: &ParseCase| match c {
            ParseCase::One(r) => format!("{:?}", String::from_utf8_lossy(r)),
            ParseCase::Block { unit, digits, high, low } => format!("block unit={} digits={digits} high={high} low_digits={low}", *unit as char),
        },
        parse_body,
    )
    .mins(1000, 100, 100);
    let enf = Section::new(
        "enforce",
        Config { hang_secs: 60, ..Default::default() },
        "cases: the full grid caller timeout {none, 50, 200 ms} x configured timeout {none, 50, 200 ms} x handler latency {10, 100, 300 ms} (off the exact ties) for each side against a NON-tonic peer — Server::timeout driven by a bare hyper HTTP/2 client sending grpc-timeout, and Endpoint::timeout + Request::set_timeout against a bare hyper HTTP/2 server with scripted latency (so that one side's enforcement cannot mask the other's) — plus zero deadlines (caller 0 or configured 0: cut off at t = 0), plus the same with a malformed caller value (82f, +5S, S, 9 digits, '5 S', 1e3m: ignored, the configured timeout alone decides), plus sequences on one channel (an earlier call carrying a 20 / 50 ms deadline must not leak into the judged call), plus callers that poll the call once and then stay away 30 / 150 / 400 ms before awaiting it (the deadline runs from the call), plus calls polled once and then moved to another task, plus a tonic-to-tonic pass for the caller-visible status text; in-memory pipes, paused clock (exact virtual durations); oracle: latency below the shorter deadline => the real answer at t = latency; above => CANCELLED 'Timeout expired' at t = min(caller, configured) (+-2 ms timer granularity). Non-trivial = some deadline is set.",
        enf_cases(tier),
        |c: &EnfCase| format!("{c:?}"),
        enf_body,
    )
    .mins(50, 3, 30);
    Property {
        id: "C09",
        level: "exploration",
        hang_is_violation: false,
        assumptions: vec![
            "the parser is observed through the add-only hook tonic::transport::verif_hooks::parse_grpc_timeout (feature verif-hooks)".into(),
            "durations above 99999999 hours are outside the property (set_timeout panics there by design)".into(),
        ],
        sections: vec![enc, parse, enf],
        extra: Default::default(),
    }
}
