//! C09 — deadlines: faithful grpc-timeout encoding, exact parsing, shortest-deadline enforcement.

use crate::explore::{Chooser, Config, Outcome};
use crate::oracle::timeout;
use crate::report::{Property, Section, Tier};
use http::{HeaderMap, HeaderValue};
use std::time::Duration;

// ------------------------------------------------------------------------------- encode

fn enc_body(d: &Duration, _ch: &Chooser) -> Outcome {
    let mut req = tonic::Request::new(());
    req.set_timeout(*d);
    let vals: Vec<Vec<u8>> = req.metadata().get_all("grpc-timeout").iter().map(|v| v.as_bytes().to_vec()).collect();
    let mut o = Outcome::new(format!("{:?} -> {:?}", d, vals.iter().map(|v| String::from_utf8_lossy(v).to_string()).collect::<Vec<_>>()));
    o.nontrivial = d.subsec_nanos() % 1000 != 0 || d.as_secs() > 99;
    if vals.len() != 1 {
        o.violate("encode-count", format!("{} grpc-timeout values", vals.len()));
        return o;
    }
    let v = &vals[0];
    let Some(denoted) = timeout::parse(v) else {
        o.violate("encode-not-conformant", format!("{:?} does not match ^[0-9]{{1,8}}[HMSmun]$", String::from_utf8_lossy(v)));
        return o;
    };
    if denoted > *d {
        o.violate("encode-longer-than-requested", format!("{:?} denotes {:?} > requested {:?}", String::from_utf8_lossy(v), denoted, d));
    }
    let unit = timeout::unit_nanos(*v.last().unwrap()).unwrap();
    let lost = d.as_nanos() - denoted.as_nanos().min(d.as_nanos());
    if lost >= unit {
        o.violate("encode-loses-a-unit", format!("{:?} loses {lost} ns, one unit is {unit} ns", String::from_utf8_lossy(v)));
    }
    // tonic's own parser must read its own output back to the same duration
    let mut h = HeaderMap::new();
    h.insert("grpc-timeout", HeaderValue::from_bytes(v).unwrap());
    match tonic::transport::verif_hooks::parse_grpc_timeout(&h) {
        Ok(Some(p)) if p == denoted => {}
        other => o.violate("encode-parse-disagree", format!("tonic parses its own {:?} as {:?}", String::from_utf8_lossy(v), other)),
    }
    o
}

fn enc_cases() -> Vec<Duration> {
    let mut out = vec![Duration::ZERO];
    for (_, per) in timeout::UNITS {
        for v in [0u128, 1, 9, 10, 99_999_998, 99_999_999, 100_000_000] {
            for delta in [0u128, 1, per - 1] {
                let n = v * per + if per == 1 { delta.min(1) } else { delta };
                // largest representable: 99 999 999 h 59 m 59.999999999 s
                if n <= 99_999_999u128 * 3_600_000_000_000 + 3_599_999_999_999 {
                    out.push(Duration::new((n / 1_000_000_000) as u64, (n % 1_000_000_000) as u32));
                }
            }
        }
    }
    let mut p: u128 = 1;
    while p <= 99_999_999u128 * 3_600_000_000_000 {
        for m in [1u128, 3, 7] {
            let n = p * m;
            if n <= 99_999_999u128 * 3_600_000_000_000 + 3_599_999_999_999 {
                out.push(Duration::new((n / 1_000_000_000) as u64, (n % 1_000_000_000) as u32));
                out.push(Duration::new(((n + 1) / 1_000_000_000) as u64, ((n + 1) % 1_000_000_000) as u32));
                if n > 1 {
                    out.push(Duration::new(((n - 1) / 1_000_000_000) as u64, ((n - 1) % 1_000_000_000) as u32));
                }
            }
        }
        p *= 10;
    }
    out.push(Duration::new(99_999_999 * 3600 + 3599, 999_999_999));
    out.sort();
    out.dedup();
    out
}

// ------------------------------------------------------------------------------- parse

#[derive(Clone, Debug)]
enum ParseCase {
    /// every digit string of `digits` digits whose leading `digits - low` digits spell `high`
    /// (leading zeros included), for this unit
    Block { unit: u8, digits: u32, high: u64, low: u32 },
    /// one explicit header value
    One(Vec<u8>),
}

fn judge_one(o: &mut Outcome, raw: &[u8]) {
    let mut h = HeaderMap::new();
    let Ok(hv) = HeaderValue::from_bytes(raw) else { return };
    h.insert("grpc-timeout", hv);
    let got = tonic::transport::verif_hooks::parse_grpc_timeout(&h);
    match timeout::parse(raw) {
        Some(want) => {
            if got != Ok(Some(want)) {
                o.violate("parse-conformant-wrong", format!("{:?} denotes {:?} but tonic parsed {:?}", String::from_utf8_lossy(raw), want, got));
            }
        }
        None => {
            if let Ok(Some(d)) = got {
                // classify the best-known shapes so that distinct defects get distinct keys
                let key = if raw.first() == Some(&b'+') { "parse-malformed-accepted:leading-plus" } else if raw.len() > 9 { "parse-malformed-accepted:too-many-digits" } else { "parse-malformed-accepted:other" };
                o.violate(key, format!("malformed {:?} was not ignored: parsed as {:?}", String::from_utf8_lossy(raw), d));
            }
        }
    }
}

fn parse_body(c: &ParseCase, _ch: &Chooser) -> Outcome {
    match c {
        ParseCase::One(raw) => {
            let mut o = Outcome::new(format!("{:?}", String::from_utf8_lossy(raw)));
            o.nontrivial = true;
            judge_one(&mut o, raw);
            o
        }
        ParseCase::Block { unit, digits, high, low } => {
            let n = 10u64.pow(*low);
            let mut o = Outcome::new(format!("block unit={} digits={digits} high={high} values={n}", *unit as char));
            o.nontrivial = true;
            let mut buf = Vec::with_capacity(10);
            for lowv in 0..n {
                buf.clear();
                let v = high * n + lowv;
                let s = format!("{:0width$}", v, width = *digits as usize);
                buf.extend_from_slice(s.as_bytes());
                buf.push(*unit);
                judge_one(&mut o, &buf);
                if !o.violations.is_empty() {
                    break;
                }
            }
            o
        }
    }
}

fn parse_cases(tier: Tier) -> Vec<ParseCase> {
    let mut out = vec![];
    for (unit, _) in timeout::UNITS {
        // all digit strings of length 1..=4 (leading zeros included)
        for digits in 1..=4u32 {
            out.push(ParseCase::Block { unit, digits, high: 0, low: digits });
        }
        // 5..=8 digits: blocks of 10^4 values
        for digits in 5..=8u32 {
            let blocks = 10u64.pow(digits - 4);
            for b in 0..blocks {
                let keep = match tier {
                    Tier::Thorough => true,
                    Tier::Quick => b == 0 || b == blocks - 1 || b % 997 == (digits as u64) || (b + 1).is_power_of_two(),
                };
                if keep {
                    out.push(ParseCase::Block { unit, digits, high: b, low: 4 });
                }
            }
        }
    }
    // malformed: every string of length <= 3 over a small alphabet
    let alpha: [u8; 10] = [b'0', b'9', b'+', b'-', b' ', b'.', b'S', b's', b'H', b'x'];
    let mut strs: Vec<Vec<u8>> = vec![vec![]];
    let mut frontier: Vec<Vec<u8>> = vec![vec![]];
    for _ in 0..tier.q(3, 4) {
        let mut next = vec![];
        for s in &frontier {
            for a in alpha {
                let mut t = s.clone();
                t.push(a);
                next.push(t);
            }
        }
        strs.extend(next.iter().cloned());
        frontier = next;
    }
    for s in strs {
        out.push(ParseCase::One(s));
    }
    for s in [
        &b"123456789S"[..], b"000000000S", b"1234567890123456789012345678901234567890S", b"S", b"n", b"12", b"12SS", b"12 S", b" 12S", b"12S ", b"+5S", b"-5S", b"+0n", b"1e3S", b"0x10S", b"5s", b"5h", b"5N", b"5U", b"12\xe9", b"\xe95S", b"99999999H", b"99999999n", b"00000000H", b"18446744073709551616S", b"1_000S",
    ] {
        out.push(ParseCase::One(s.to_vec()));
    }
    out
}

pub fn property(tier: Tier) -> Property {
    let enc = Section::new(
        "encode",
        Config::default(),
        "cases: durations v*u + delta for every unit u, v in {0,1,9,10,99999998,99999999,100000000}, delta in {0, 1 ns, u - 1 ns}, every power of ten in ns times {1,3,7} +/- 1 ns up to the largest representable (99999999 h 59 m 59.999999999 s); Request::set_timeout output must match ^[0-9]{1,8}[HMSmun]$, denote <= requested, lose < 1 unit of the chosen unit, and be parsed back by tonic's own parser to the denoted value. Non-trivial = sub-microsecond part or more than 99 s.",
        enc_cases(),
        |d: &Duration| format!("{d:?}"),
        enc_body,
    )
    .mins(100, 50, 20);
    let parse = Section::new(
        "parse",
        Config::default(),
        "cases (each Block case covers 10^k header values, evaluated one by one inside the case): for each of the 6 units every digit string of 1..4 digits (leading zeros included) and, of the 5..8 digit strings, every 10^4-value block in thorough (all 666 666 660 conformant strings) / first, last, power-of-two and every 997th block in quick; plus every string of length <= 3 (thorough 4) over {0,9,+,-,space,.,S,s,H,x} and a menu of malformed values (9 digits, sign, two units, spaces, obs-text, lower/upper-case unit mix-ups, overflow). Oracle (via hook H1): conformant => exactly the denoted Duration; anything else must not yield a duration.",
        parse_cases(tier),
        |c: &ParseCase| match c {
            ParseCase::One(r) => format!("{:?}", String::from_utf8_lossy(r)),
            ParseCase::Block { unit, digits, high, low } => format!("block unit={} digits={digits} high={high} low_digits={low}", *unit as char),
        },
        parse_body,
    )
    .mins(1000, 100, 100);
    Property {
        id: "C09",
        level: "exploration",
        hang_is_violation: false,
        assumptions: vec![
            "the parser is observed through the add-only hook tonic::transport::verif_hooks::parse_grpc_timeout (feature verif-hooks)".into(),
            "durations above 99999999 hours are outside the property (set_timeout panics there by design)".into(),
        ],
        sections: vec![enc, parse],
        extra: Default::default(),
    }
}
