//! "L1": generated client wired directly to the generated server through an in-process adapter
//! that captures and re-chunks both bodies. No runtime, no transport.

use crate::env::{collect_body, BodyEnd, Chunking, Collected, Item, ScriptBody, ScriptStream};
use crate::explore::Chooser;
use crate::fixtures::echo::{echo_client::EchoClient, echo_server::{Echo, EchoServer}};
use http::HeaderMap;
use std::future::Future;
use std::pin::Pin;
use std::sync::{Arc, Mutex};
use std::task::{Context, Poll};
use tokio_stream::{Stream, StreamExt};
use tonic::metadata::{AsciiMetadataKey, BinaryMetadataKey, MetadataMap, MetadataValue};
use tonic::{Code, Request, Response, Status, Streaming};

#[derive(Clone, Debug, PartialEq, Eq)]
pub enum MdVal {
    Ascii(String),
    Bin(Vec<u8>),
}

/// Ordered metadata entries.
pub type Md = Vec<(String, MdVal)>;

pub fn apply_md(map: &mut MetadataMap, md: &Md) {
    for (k, v) in md {
        match v {
            MdVal::Ascii(s) => {
                let key = AsciiMetadataKey::from_bytes(k.as_bytes()).expect("ascii key");
                map.append(key, MetadataValue::try_from(s.as_str()).expect("ascii value"));
            }
            MdVal::Bin(b) => {
                let key = BinaryMetadataKey::from_bytes(k.as_bytes()).expect("binary key");
                map.append_bin(key, MetadataValue::from_bytes(b));
            }
        }
    }
}

/// The values found under `key` in a received metadata map, decoded.
pub fn md_values(map: &MetadataMap, key: &str, bin: bool) -> Vec<MdVal> {
    if bin {
        map.get_all_bin(key)
            .iter()
            .map(|v| match v.to_bytes() {
                Ok(b) => MdVal::Bin(b.to_vec()),
                Err(_) => MdVal::Ascii(format!("<undecodable {:?}>", v)),
            })
            .collect()
    } else {
        map.get_all(key)
            .iter()
            .map(|v| MdVal::Ascii(String::from_utf8_lossy(v.as_bytes()).to_string()))
            .collect()
    }
}

/// `md` is contained in `map`: for every key the values are present in the same order.
pub fn md_contained(map: &MetadataMap, md: &Md) -> Result<(), String> {
    let mut keys: Vec<&String> = md.iter().map(|(k, _)| k).collect();
    keys.dedup();
    let mut seen = std::collections::BTreeSet::new();
    for k in keys {
        if !seen.insert(k.clone()) {
            continue;
        }
        let want: Vec<MdVal> = md.iter().filter(|(kk, _)| kk == k).map(|(_, v)| v.clone()).collect();
        let bin = matches!(want[0], MdVal::Bin(_));
        let got = md_values(map, k, bin);
        if got != want {
            return Err(format!("metadata key {k:?}: got {got:?}, expected {want:?}"));
        }
    }
    Ok(())
}

pub fn md_menu() -> Vec<Md> {
    vec![
        vec![],
        vec![("x-a".into(), MdVal::Ascii("v 1=;,".into()))],
        vec![("x-b-bin".into(), MdVal::Bin(vec![0, 255, 61, 1]))],
        vec![
            ("x-r".into(), MdVal::Ascii("1".into())),
            ("x-r".into(), MdVal::Ascii("2".into())),
            ("x-e-bin".into(), MdVal::Bin(vec![])),
            ("x-e-bin".into(), MdVal::Bin(vec![7, 7])),
        ],
    ]
}

#[derive(Clone, Debug, PartialEq, Eq)]
pub struct StatusSpec {
    pub code: i32,
    pub message: String,
    pub details: Vec<u8>,
    pub md: Md,
}

impl StatusSpec {
    pub fn build(&self) -> Status {
        let mut md = MetadataMap::new();
        apply_md(&mut md, &self.md);
        Status::with_details_and_metadata(Code::from_i32(self.code), self.message.clone(), self.details.clone().into(), md)
    }
    /// Compare a received status with this spec (code, message, details, metadata contained).
    pub fn matches(&self, s: &Status) -> Result<(), String> {
        if s.code() as i32 != self.code {
            return Err(format!("code {:?} != {}", s.code(), self.code));
        }
        if s.message() != self.message {
            return Err(format!("message {:?} != {:?}", s.message(), self.message));
        }
        if s.details() != &self.details[..] {
            return Err(format!("details {:?} != {:?}", s.details(), self.details));
        }
        md_contained(s.metadata(), &self.md)
    }
}

#[derive(Clone, Copy, Debug, PartialEq, Eq)]
pub enum Shape {
    Unary,
    ServerStream,
    ClientStream,
    Bidi,
}

impl Shape {
    pub const ALL: [Shape; 4] = [Shape::Unary, Shape::ServerStream, Shape::ClientStream, Shape::Bidi];
    pub fn streams_requests(&self) -> bool {
        matches!(self, Shape::ClientStream | Shape::Bidi)
    }
    pub fn streams_responses(&self) -> bool {
        matches!(self, Shape::ServerStream | Shape::Bidi)
    }
    pub fn path(&self) -> &'static str {
        match self {
            Shape::Unary => "/fx.Echo/Unary",
            Shape::ServerStream => "/fx.Echo/ServerStream",
            Shape::ClientStream => "/fx.Echo/ClientStream",
            Shape::Bidi => "/fx.Echo/Bidi",
        }
    }
}

#[derive(Clone, Copy, Debug, PartialEq, Eq)]
pub enum BidiMode {
    /// answer each request message with itself, then the scripted end
    Echo,
    /// never read the input; answer with the script
    Ignore,
    /// read all input first, then answer with the script
    ReadAll,
}

/// What the handler does.
#[derive(Clone, Debug)]
pub struct Script {
    pub initial_md: Md,
    /// response messages (unary-response shapes use the first)
    pub msgs: Vec<Vec<u8>>,
    /// final status after the messages (`None` = OK)
    pub end: Option<StatusSpec>,
    /// fail from the handler function itself (before any response exists)
    pub handler_err: bool,
    pub bidi: BidiMode,
    pub disable_compression: bool,
    /// the scripted message sources (response and request) report an exact size_hint
    pub exact_hint: bool,
}

#[derive(Default, Debug, Clone)]
pub struct HandlerLog {
    pub calls: u32,
    pub method: String,
    pub req_msgs: Vec<Vec<u8>>,
    pub req_md: Option<HeaderMap>,
    pub req_err: Option<String>,
    pub req_stream_done: bool,
}

pub struct ScriptedEcho {
    pub script: Script,
    pub log: Arc<Mutex<HandlerLog>>,
    pub ch: Chooser,
    /// response stream may answer Pending (deviations)
    pub pending: bool,
}

type BoxStream = Pin<Box<dyn Stream<Item = Result<Vec<u8>, Status>> + Send + 'static>>;

impl ScriptedEcho {
    fn enter<T>(&self, method: &str, req: &Request<T>) {
        let mut l = self.log.lock().unwrap();
        l.calls += 1;
        l.method = method.to_string();
        l.req_md = Some(req.metadata().clone().into_headers());
    }
    fn scripted_stream(&self) -> BoxStream {
        let mut items: Vec<Item<Vec<u8>>> = self.script.msgs.iter().map(|m| Item::Msg(m.clone())).collect();
        if let Some(e) = &self.script.end {
            items.push(Item::Err(e.build()));
        }
        Box::pin(ScriptStream::new(items, self.pending, &self.ch))
    }
    fn respond<T>(&self, body: T) -> Response<T> {
        let mut r = Response::new(body);
        apply_md(r.metadata_mut(), &self.script.initial_md);
        if self.script.disable_compression {
            r.disable_compression();
        }
        r
    }
    fn unary_result(&self) -> Result<Response<Vec<u8>>, Status> {
        match &self.script.end {
            Some(e) => Err(e.build()),
            None => Ok(self.respond(self.script.msgs.first().cloned().unwrap_or_default())),
        }
    }
}

async fn drain(log: &Arc<Mutex<HandlerLog>>, s: &mut Streaming<Vec<u8>>) {
    loop {
        match s.message().await {
            Ok(Some(m)) => log.lock().unwrap().req_msgs.push(m),
            Ok(None) => {
                log.lock().unwrap().req_stream_done = true;
                return;
            }
            Err(e) => {
                log.lock().unwrap().req_err = Some(crate::env::fmt_status(&e));
                return;
            }
        }
    }
}

struct EchoStream {
    inner: Streaming<Vec<u8>>,
    log: Arc<Mutex<HandlerLog>>,
    end: Option<Status>,
    done: bool,
}

impl Stream for EchoStream {
    type Item = Result<Vec<u8>, Status>;
    fn poll_next(mut self: Pin<&mut Self>, cx: &mut Context<'_>) -> Poll<Option<Self::Item>> {
        if self.done {
            return Poll::Ready(None);
        }
        match Pin::new(&mut self.inner).poll_next(cx) {
            Poll::Pending => Poll::Pending,
            Poll::Ready(Some(Ok(m))) => {
                self.log.lock().unwrap().req_msgs.push(m.clone());
                Poll::Ready(Some(Ok(m)))
            }
            Poll::Ready(Some(Err(e))) => {
                self.log.lock().unwrap().req_err = Some(crate::env::fmt_status(&e));
                self.done = true;
                Poll::Ready(Some(Err(e)))
            }
            Poll::Ready(None) => {
                self.log.lock().unwrap().req_stream_done = true;
                self.done = true;
                match self.end.take() {
                    Some(s) => Poll::Ready(Some(Err(s))),
                    None => Poll::Ready(None),
                }
            }
        }
    }
}

#[tonic::async_trait]
impl Echo for ScriptedEcho {
    async fn unary(&self, request: Request<Vec<u8>>) -> Result<Response<Vec<u8>>, Status> {
        self.enter("Unary", &request);
        {
            let mut l = self.log.lock().unwrap();
            l.req_msgs.push(request.get_ref().clone());
            l.req_stream_done = true;
        }
        self.unary_result()
    }
    type ServerStreamStream = BoxStream;
    async fn server_stream(&self, request: Request<Vec<u8>>) -> Result<Response<BoxStream>, Status> {
        self.enter("ServerStream", &request);
        {
            let mut l = self.log.lock().unwrap();
            l.req_msgs.push(request.get_ref().clone());
            l.req_stream_done = true;
        }
        if self.script.handler_err {
            return Err(self.script.end.clone().expect("handler_err needs a status").build());
        }
        Ok(self.respond(self.scripted_stream()))
    }
    async fn client_stream(&self, request: Request<Streaming<Vec<u8>>>) -> Result<Response<Vec<u8>>, Status> {
        self.enter("ClientStream", &request);
        let mut s = request.into_inner();
        if self.script.bidi != BidiMode::Ignore {
            drain(&self.log, &mut s).await;
        }
        self.unary_result()
    }
    type BidiStream = BoxStream;
    async fn bidi(&self, request: Request<Streaming<Vec<u8>>>) -> Result<Response<BoxStream>, Status> {
        self.enter("Bidi", &request);
        if self.script.handler_err {
            return Err(self.script.end.clone().expect("handler_err needs a status").build());
        }
        let mut s = request.into_inner();
        match self.script.bidi {
            BidiMode::Echo => {
                let st = EchoStream { inner: s, log: self.log.clone(), end: self.script.end.as_ref().map(|e| e.build()), done: false };
                Ok(self.respond(Box::pin(st) as BoxStream))
            }
            BidiMode::Ignore => Ok(self.respond(self.scripted_stream())),
            BidiMode::ReadAll => {
                drain(&self.log, &mut s).await;
                Ok(self.respond(self.scripted_stream()))
            }
        }
    }
}

/// Everything that crossed the adapter.
#[derive(Default, Debug, Clone)]
pub struct Capture {
    pub calls: u32,
    pub method: Option<http::Method>,
    pub uri: Option<http::Uri>,
    pub version: Option<http::Version>,
    pub req_headers: HeaderMap,
    pub req_body: Collected,
    pub resp_status: Option<http::StatusCode>,
    pub resp_version: Option<http::Version>,
    pub resp_headers: HeaderMap,
    pub resp_body: Collected,
}

/// In-process adapter: collects the request body, re-delivers it to the inner service under
/// chosen chunking, collects the response body to exhaustion and re-delivers it likewise.
pub struct Direct<S> {
    pub svc: S,
    pub ch: Chooser,
    pub req_chunking: Chunking,
    pub resp_chunking: Chunking,
    pub capture: Arc<Mutex<Capture>>,
}

impl<S: Clone> Clone for Direct<S> {
    fn clone(&self) -> Self {
        Direct { svc: self.svc.clone(), ch: self.ch.clone(), req_chunking: self.req_chunking.clone(), resp_chunking: self.resp_chunking.clone(), capture: self.capture.clone() }
    }
}

impl<S> tower_service::Service<http::Request<tonic::body::Body>> for Direct<S>
where
    S: tower_service::Service<http::Request<ScriptBody>, Response = http::Response<tonic::body::Body>, Error = std::convert::Infallible> + Clone + Send + 'static,
    S::Future: Send + 'static,
{
    type Response = http::Response<ScriptBody>;
    type Error = std::convert::Infallible;
    type Future = Pin<Box<dyn Future<Output = Result<Self::Response, Self::Error>> + Send>>;

    fn poll_ready(&mut self, _cx: &mut Context<'_>) -> Poll<Result<(), Self::Error>> {
        Poll::Ready(Ok(()))
    }

    fn call(&mut self, req: http::Request<tonic::body::Body>) -> Self::Future {
        let mut svc = self.svc.clone();
        let ch = self.ch.clone();
        let capture = self.capture.clone();
        let (rq, rs) = (self.req_chunking.clone(), self.resp_chunking.clone());
        Box::pin(async move {
            let (parts, body) = req.into_parts();
            let c = collect_body(body, 100_000);
            {
                let mut cap = capture.lock().unwrap();
                cap.calls += 1;
                cap.method = Some(parts.method.clone());
                cap.uri = Some(parts.uri.clone());
                cap.version = Some(parts.version);
                cap.req_headers = parts.headers.clone();
                cap.req_body = c.clone();
            }
            let data = c.bytes();
            let mut sb = ScriptBody::new(data.clone(), c.trailers.first().cloned(), rq, &ch);
            if let Some(e) = &c.error {
                sb = sb.with_end(BodyEnd::Error { at: data.len(), status: e.clone() });
            }
            let resp = svc.call(http::Request::from_parts(parts, sb)).await?;
            let (rparts, rbody) = resp.into_parts();
            let rc = collect_body(rbody, 100_000);
            {
                let mut cap = capture.lock().unwrap();
                cap.resp_status = Some(rparts.status);
                cap.resp_version = Some(rparts.version);
                cap.resp_headers = rparts.headers.clone();
                cap.resp_body = rc.clone();
            }
            let rdata = rc.bytes();
            let mut rsb = ScriptBody::new(rdata.clone(), rc.trailers.first().cloned(), rs, &ch);
            if let Some(e) = &rc.error {
                rsb = rsb.with_end(BodyEnd::Error { at: rdata.len(), status: e.clone() });
            }
            Ok(http::Response::from_parts(rparts, rsb))
        })
    }
}

/// What the caller saw.
#[derive(Debug, Clone, Default)]
pub struct ClientView {
    pub initial_md: Option<HeaderMap>,
    pub msgs: Vec<Vec<u8>>,
    /// `None` = success (clean end / Ok response)
    pub error: Option<Status>,
    pub trailers: Option<HeaderMap>,
}

/// Issue one call of `shape` with `req_msgs`/`req_md` through `client`.
pub async fn client_call<T>(
    client: &mut EchoClient<T>,
    shape: Shape,
    req_msgs: Vec<Vec<u8>>,
    req_md: &Md,
    req_pending: bool,
    ch: &Chooser,
    configure: impl FnOnce(&mut Request<()>),
) -> ClientView
where
    T: tonic::client::GrpcService<tonic::body::Body>,
    T::Error: Into<Box<dyn std::error::Error + Send + Sync>>,
    T::ResponseBody: http_body::Body<Data = bytes::Bytes> + Send + 'static,
    <T::ResponseBody as http_body::Body>::Error: Into<Box<dyn std::error::Error + Send + Sync>> + Send,
{
    let mut view = ClientView::default();
    // a unit request carries caller-side settings (timeout etc.) that are copied over
    let mut proto = Request::new(());
    apply_md(proto.metadata_mut(), req_md);
    configure(&mut proto);
    fn build<M>(proto: Request<()>, m: M) -> Request<M> {
        let (md, ext, _) = proto.into_parts();
        Request::from_parts(md, ext, m)
    }
    let src = |msgs: Vec<Vec<u8>>| {
        let items: Vec<Item<Vec<u8>>> = msgs.into_iter().map(Item::Msg).collect();
        ScriptStream::new(items, req_pending, ch).map(|r| r.expect("scripted request stream has no errors"))
    };
    match shape {
        Shape::Unary => {
            let r = client.unary(build(proto, req_msgs.first().cloned().unwrap_or_default())).await;
            match r {
                Ok(resp) => {
                    let (md, m, _) = resp.into_parts();
                    view.initial_md = Some(md.into_headers());
                    view.msgs.push(m);
                }
                Err(e) => view.error = Some(e),
            }
        }
        Shape::ClientStream => {
            let r = client.client_stream(build(proto, src(req_msgs))).await;
            match r {
                Ok(resp) => {
                    let (md, m, _) = resp.into_parts();
                    view.initial_md = Some(md.into_headers());
                    view.msgs.push(m);
                }
                Err(e) => view.error = Some(e),
            }
        }
        Shape::ServerStream | Shape::Bidi => {
            let r = if shape == Shape::ServerStream {
                client.server_stream(build(proto, req_msgs.first().cloned().unwrap_or_default())).await
            } else {
                client.bidi(build(proto, src(req_msgs))).await
            };
            match r {
                Ok(resp) => {
                    let (md, mut s, _) = resp.into_parts();
                    view.initial_md = Some(md.into_headers());
                    loop {
                        match s.message().await {
                            Ok(Some(m)) => view.msgs.push(m),
                            Ok(None) => break,
                            Err(e) => {
                                view.error = Some(e);
                                break;
                            }
                        }
                    }
                    if view.error.is_none() {
                        match s.trailers().await {
                            Ok(t) => view.trailers = t.map(|t| t.into_headers()),
                            Err(e) => view.error = Some(e),
                        }
                    }
                }
                Err(e) => view.error = Some(e),
            }
        }
    }
    view
}

pub fn fmt_view(v: &ClientView) -> String {
    format!(
        "initial_md={:?} msgs={:?} error={:?} trailers={:?}",
        v.initial_md.as_ref().map(crate::env::fmt_headers),
        v.msgs.iter().map(|m| crate::env::hex(m)).collect::<Vec<_>>(),
        v.error.as_ref().map(crate::env::fmt_status),
        v.trailers.as_ref().map(crate::env::fmt_headers)
    )
}

pub fn new_server(script: Script, ch: &Chooser, pending: bool) -> (EchoServer<ScriptedEcho>, Arc<Mutex<HandlerLog>>) {
    if script.exact_hint {
        ch.flag(crate::env::EXACT_SIZE_HINT);
    }
    let log = Arc::new(Mutex::new(HandlerLog::default()));
    let h = ScriptedEcho { script, log: log.clone(), ch: ch.clone(), pending };
    (EchoServer::new(h), log)
}
