//! C18 — the health service reports the latest status to Check and Watch.

use crate::env::{sched, spin_block_on};
use crate::explore::{Chooser, Config, Outcome};
use crate::report::{Property, Section, Tier};
use std::cell::RefCell;
use std::collections::HashMap;
use std::pin::Pin;
use std::rc::Rc;
use std::task::{Context, Poll, Waker};
use tokio_stream::Stream;
use tonic_health::pb::health_client::HealthClient;
use tonic_health::pb::{HealthCheckRequest, HealthCheckResponse};
use tonic_health::ServingStatus;

/// The second name carries surrounding whitespace and the never-set name is a single space: a
/// service name is an opaque string, every operation has to treat it the same way.
const SERVICES: [&str; 2] = ["", " a "];
const UNKNOWN: &str = " ";

fn st(i: usize) -> ServingStatus {
    [ServingStatus::Unknown, ServingStatus::Serving, ServingStatus::NotServing][i]
}
fn wire(s: ServingStatus) -> i32 {
    match s {
        ServingStatus::Unknown => 0,
        ServingStatus::Serving => 1,
        ServingStatus::NotServing => 2,
    }
}

/// What an operation returned.
#[derive(Clone, Debug, PartialEq, Eq)]
pub enum Ret {
    Unit,
    Status(i32),
    NotFound,
    OtherErr(String),
    WatchOk,
    Pending,
    End,
}

#[derive(Clone, Debug, PartialEq, Eq)]
pub enum Op {
    Set(usize, usize),
    Clear(usize),
    /// 0/1 = SERVICES, 2 = the never-set name
    Check(usize),
    Watch(usize),
    /// non-blocking poll of watch #i
    Next(usize),
    Drop(usize),
    /// the same update / clear made through a second handle (a clone of the reporter)
    SetB(usize, usize),
    ClearB(usize),
}

impl Op {
    /// which handle made an update does not matter to the reference model
    fn canonical(&self) -> Op {
        match self {
            Op::SetB(s, v) => Op::Set(*s, *v),
            Op::ClearB(s) => Op::Clear(*s),
            o => o.clone(),
        }
    }
}

/// `RefHealth`: one generation per (re)registration of a service; a watch is bound to the
/// generation that was current when it subscribed.
#[derive(Clone, Debug, Default)]
pub struct RefHealth {
    /// per service: index of the current generation
    current: [Option<usize>; 2],
    /// per generation: history of statuses, closed?
    gens: Vec<(Vec<i32>, bool)>,
    /// per watch: (generation, set of possible 'next unreported history index' values — a set
    /// because equal statuses make the matching of a report to a history entry ambiguous)
    watches: Vec<Option<(usize, Vec<usize>)>>,
    /// per watch: the value it reported last
    last_value: Vec<Option<i32>>,
}

impl RefHealth {
    /// Generation a watch is bound to.
    pub fn watch_gen(&self, w: usize) -> Option<usize> {
        self.watches.get(w).and_then(|x| x.as_ref()).map(|(g, _)| *g)
    }
    /// Current generation of a service.
    pub fn current_gen(&self, s: usize) -> Option<usize> {
        self.current[s]
    }
    pub fn new() -> Self {
        let mut r = RefHealth::default();
        r.gens.push((vec![1], false)); // "" is SERVING by default
        r.current[0] = Some(0);
        r
    }
    /// Check `observed` against the model and advance it.
    pub fn step(&mut self, op: &Op, observed: &Ret) -> Result<(), String> {
        match op {
            Op::Set(s, v) => {
                match self.current[*s] {
                    Some(g) => self.gens[g].0.push(wire(st(*v))),
                    None => {
                        self.gens.push((vec![wire(st(*v))], false));
                        self.current[*s] = Some(self.gens.len() - 1);
                    }
                }
                expect(observed, &Ret::Unit)
            }
            Op::Clear(s) => {
                if let Some(g) = self.current[*s].take() {
                    self.gens[g].1 = true;
                }
                expect(observed, &Ret::Unit)
            }
            Op::Check(s) => {
                let want = match s {
                    2 => Ret::NotFound,
                    s => match self.current[*s] {
                        Some(g) => Ret::Status(*self.gens[g].0.last().unwrap()),
                        None => Ret::NotFound,
                    },
                };
                expect(observed, &want)
            }
            Op::Watch(s) => match self.current[*s] {
                Some(g) => {
                    // first report: the status current at subscription (or, for a lazily polled
                    // in-process stream, any later one)
                    self.watches.push(Some((g, vec![self.gens[g].0.len() - 1])));
                    self.last_value.push(None);
                    expect(observed, &Ret::WatchOk)
                }
                None => {
                    self.watches.push(None);
                    self.last_value.push(None);
                    expect(observed, &Ret::NotFound)
                }
            },
            Op::Next(w) => {
                let Some(Some((g, los))) = self.watches.get(*w).cloned() else {
                    return Err("next on a watch the model does not have".into());
                };
                let (hist, closed) = &self.gens[g];
                match observed {
                    Ret::Status(v) => {
                        // order-preserving subsequence of the history from the subscription on
                        let mut next: Vec<usize> = vec![];
                        for lo in &los {
                            for j in *lo..hist.len() {
                                if hist[j] == *v && !next.contains(&(j + 1)) {
                                    next.push(j + 1);
                                }
                            }
                        }
                        if next.is_empty() {
                            Err(format!("watch reported {v}, which was not set for that service after what it had already reported (history {hist:?}, possible next unreported indices {los:?})"))
                        } else {
                            self.watches[*w] = Some((g, next));
                            self.last_value[*w] = Some(*v);
                            Ok(())
                        }
                    }
                    Ret::Pending => {
                        // nothing unreported, or the latest status equals what was reported last
                        // (an implementation may suppress a repeated status: the watcher already
                        // knows the latest status)
                        let up_to_date = los.contains(&hist.len()) || self.last_value[*w] == hist.last().copied();
                        if !up_to_date {
                            Err(format!("watch is Pending although the latest status {} (history {hist:?}) has not been reported", hist[hist.len() - 1]))
                        } else if *closed {
                            Err("watch is Pending although its service was cleared and everything was reported: it must end".into())
                        } else {
                            self.watches[*w] = Some((g, vec![hist.len()]));
                            Ok(())
                        }
                    }
                    Ret::End => {
                        if !*closed {
                            Err("watch stream ended although its service is still registered".into())
                        } else if !(los.contains(&hist.len()) || self.last_value[*w] == hist.last().copied()) {
                            Err(format!("watch stream ended without reporting the latest status {} set before the clear (history {hist:?})", hist[hist.len() - 1]))
                        } else {
                            self.watches[*w] = Some((g, vec![hist.len()]));
                            Ok(())
                        }
                    }
                    other => Err(format!("unexpected watch answer {other:?}")),
                }
            }
            Op::Drop(w) => {
                if let Some(slot) = self.watches.get_mut(*w) {
                    *slot = None;
                }
                expect(observed, &Ret::Unit)
            }
            Op::SetB(..) | Op::ClearB(_) => self.step(&op.canonical(), observed),
        }
    }
}

fn expect(observed: &Ret, want: &Ret) -> Result<(), String> {
    if observed == want {
        Ok(())
    } else {
        Err(format!("returned {observed:?}, the latest state says {want:?}"))
    }
}

fn svc_name(i: usize) -> &'static str {
    if i == 2 {
        UNKNOWN
    } else {
        SERVICES[i]
    }
}

fn status_ret(r: Result<tonic::Response<HealthCheckResponse>, tonic::Status>) -> Ret {
    match r {
        Ok(resp) => Ret::Status(resp.get_ref().status),
        Err(e) if e.code() == tonic::Code::NotFound => Ret::NotFound,
        Err(e) => Ret::OtherErr(crate::env::fmt_status(&e)),
    }
}

/// Waker that counts how often it was woken (a parked task would be rescheduled by it).
pub struct CountWaker(pub std::sync::atomic::AtomicU64);
impl std::task::Wake for CountWaker {
    fn wake(self: std::sync::Arc<Self>) {
        self.0.fetch_add(1, std::sync::atomic::Ordering::SeqCst);
    }
    fn wake_by_ref(self: &std::sync::Arc<Self>) {
        self.0.fetch_add(1, std::sync::atomic::Ordering::SeqCst);
    }
}

fn poll_watch_with(w: &mut tonic::Streaming<HealthCheckResponse>, waker: &std::sync::Arc<CountWaker>) -> Ret {
    let wk: Waker = waker.clone().into();
    let mut cx = Context::from_waker(&wk);
    match Pin::new(w).poll_next(&mut cx) {
        Poll::Pending => Ret::Pending,
        Poll::Ready(None) => Ret::End,
        Poll::Ready(Some(Ok(r))) => Ret::Status(r.status),
        Poll::Ready(Some(Err(e))) => Ret::OtherErr(crate::env::fmt_status(&e)),
    }
}

fn poll_watch(w: &mut tonic::Streaming<HealthCheckResponse>) -> Ret {
    let mut cx = Context::from_waker(Waker::noop());
    match Pin::new(w).poll_next(&mut cx) {
        Poll::Pending => Ret::Pending,
        Poll::Ready(None) => Ret::End,
        Poll::Ready(Some(Ok(r))) => Ret::Status(r.status),
        Poll::Ready(Some(Err(e))) => Ret::OtherErr(crate::env::fmt_status(&e)),
    }
}

// ------------------------------------------------------------------------------- histories

#[derive(Clone, Debug)]
struct HistCase {
    depth: usize,
    first: Op,
    /// SERVING / NOT_SERVING updates go through set_serving::<S>() / set_not_serving::<S>()
    typed: bool,
    /// updates and clears may also come through a clone of the reporter
    two_handles: bool,
}

struct NamedEmpty;
impl tonic::server::NamedService for NamedEmpty {
    const NAME: &'static str = "";
}
struct NamedA;
impl tonic::server::NamedService for NamedA {
    const NAME: &'static str = " a ";
}

fn menu2(live: &[bool], total_watches: usize, two_handles: bool) -> Vec<Op> {
    let mut m = menu(live, total_watches);
    if two_handles {
        for s in 0..2 {
            for v in 0..3 {
                m.push(Op::SetB(s, v));
            }
            m.push(Op::ClearB(s));
        }
    }
    m
}

fn menu(live: &[bool], total_watches: usize) -> Vec<Op> {
    let mut m = vec![];
    for s in 0..2 {
        for v in 0..3 {
            m.push(Op::Set(s, v));
        }
    }
    for s in 0..2 {
        m.push(Op::Clear(s));
    }
    for s in 0..3 {
        m.push(Op::Check(s));
    }
    if total_watches < 2 {
        for s in 0..2 {
            m.push(Op::Watch(s));
        }
    }
    for (i, l) in live.iter().enumerate() {
        if *l {
            m.push(Op::Next(i));
            m.push(Op::Drop(i));
        }
    }
    m
}

fn hist_body(c: &HistCase, ch: &Chooser) -> Outcome {
    tonic_health::verif_hooks::arm(false);
    let (mut reporter, server) = tonic_health::server::health_reporter();
    let mut reporter_b = reporter.clone();
    let mut client = HealthClient::new(server);
    let mut model = RefHealth::new();
    let mut watches: Vec<Option<tonic::Streaming<HealthCheckResponse>>> = vec![];
    let mut trace: Vec<(Op, Ret)> = vec![];
    let mut o = Outcome::new("");
    // per watch: its waker, and the wake count recorded when its last poll answered Pending
    let mut wakers: Vec<std::sync::Arc<CountWaker>> = vec![];
    let mut parked_at: Vec<Option<u64>> = vec![];
    for d in 0..c.depth {
        let live: Vec<bool> = watches.iter().map(|w| w.is_some()).collect();
        let m = menu2(&live, watches.len(), c.two_handles);
        let op = if d == 0 { c.first.clone() } else { m[ch.pick(m.len())].clone() };
        let ret = match &op {
            Op::Set(s, v) if c.typed && *v > 0 => match (*s, *v) {
                (0, 1) => spin_block_on(reporter.set_serving::<NamedEmpty>(), 1000).map(|_| Ret::Unit),
                (0, _) => spin_block_on(reporter.set_not_serving::<NamedEmpty>(), 1000).map(|_| Ret::Unit),
                (_, 1) => spin_block_on(reporter.set_serving::<NamedA>(), 1000).map(|_| Ret::Unit),
                _ => spin_block_on(reporter.set_not_serving::<NamedA>(), 1000).map(|_| Ret::Unit),
            },
            Op::Set(s, v) => {
                spin_block_on(reporter.set_service_status(SERVICES[*s], st(*v)), 1000).map(|_| Ret::Unit)
            }
            Op::Clear(s) => spin_block_on(reporter.clear_service_status(SERVICES[*s]), 1000).map(|_| Ret::Unit),
            Op::SetB(s, v) => spin_block_on(reporter_b.set_service_status(SERVICES[*s], st(*v)), 1000).map(|_| Ret::Unit),
            Op::ClearB(s) => spin_block_on(reporter_b.clear_service_status(SERVICES[*s]), 1000).map(|_| Ret::Unit),
            Op::Check(s) => spin_block_on(client.check(HealthCheckRequest { service: svc_name(*s).into() }), 10_000).map(status_ret),
            Op::Watch(s) => spin_block_on(client.watch(HealthCheckRequest { service: svc_name(*s).into() }), 10_000).map(|r| match r {
                Ok(resp) => {
                    watches.push(Some(resp.into_inner()));
                    wakers.push(std::sync::Arc::new(CountWaker(std::sync::atomic::AtomicU64::new(0))));
                    parked_at.push(None);
                    Ret::WatchOk
                }
                Err(e) => {
                    watches.push(None);
                    wakers.push(std::sync::Arc::new(CountWaker(std::sync::atomic::AtomicU64::new(0))));
                    parked_at.push(None);
                    if e.code() == tonic::Code::NotFound { Ret::NotFound } else { Ret::OtherErr(crate::env::fmt_status(&e)) }
                }
            }),
            Op::Next(w) => {
                // a watcher whose last poll was Pending comes back with a NEW waker (the stream was
                // handed to another task, or polled once by a select!): only that one has to be woken
                if parked_at[*w].is_some() {
                    wakers[*w] = std::sync::Arc::new(CountWaker(std::sync::atomic::AtomicU64::new(0)));
                }
                let r = poll_watch_with(watches[*w].as_mut().unwrap(), &wakers[*w]);
                parked_at[*w] = if r == Ret::Pending { Some(wakers[*w].0.load(std::sync::atomic::Ordering::SeqCst)) } else { None };
                Ok(r)
            }
            Op::Drop(w) => {
                watches[*w] = None;
                Ok(Ret::Unit)
            }
        };
        let ret = match ret {
            Ok(r) => r,
            Err(_) => {
                o.violate("operation-stalled", format!("{op:?} did not complete after {trace:?}"));
                break;
            }
        };
        let raw_op = op.clone();
        let op = op.canonical();
        // a watcher parked on Pending must be woken by an update or clear of its registration
        if let Op::Set(s, _) | Op::Clear(s) = &op {
            let target = model.current_gen(*s);
            for w in 0..watches.len() {
                // an update to the very status the watcher reported last may be suppressed
                // (nothing new to report), so only a different status or a clear must wake it
                let same_as_reported = match &op {
                    Op::Set(_, v) => model.last_value.get(w).copied().flatten() == Some(wire(st(*v))),
                    _ => false,
                };
                if watches[w].is_some() && target.is_some() && model.watch_gen(w) == target && !same_as_reported {
                    if let Some(at) = parked_at[w] {
                        if wakers[w].0.load(std::sync::atomic::Ordering::SeqCst) == at {
                            o.violate("watch-lost-wakeup", format!("after {trace:?}: {op:?} changed the registration watch #{w} is parked on (its last poll was Pending) but its waker was never called: a task awaiting the stream would sleep forever"));
                        }
                    }
                }
            }
        }
        let verdict = model.step(&op, &ret);
        trace.push((raw_op.clone(), ret.clone()));
        if let Err(why) = verdict {
            let key = match (&op, &ret) {
                (Op::Check(_), _) => "check-not-latest",
                (Op::Watch(_), _) => "watch-subscription",
                (Op::Next(_), Ret::Status(_)) => "watch-reports-unset-or-stale-status",
                (Op::Next(_), Ret::Pending) => "watch-misses-latest-status",
                (Op::Next(_), Ret::End) => "watch-ends-wrongly",
                _ => "health-other",
            };
            o.violate(key, format!("after {:?}: {op:?} {why}", &trace[..trace.len() - 1]));
            break;
        }
    }
    o.obs = format!("{trace:?}");
    o.nontrivial = (trace.iter().any(|(op, _)| matches!(op, Op::Next(_))) || c.two_handles) && trace.iter().any(|(op, _)| matches!(op, Op::Set(..) | Op::Clear(_) | Op::SetB(..) | Op::ClearB(_)));
    o
}

// ------------------------------------------------------------------------------- schedules

#[derive(Clone, Debug)]
struct SchedCase {
    /// program of each task
    tasks: Vec<Vec<Op>>,
    /// initial registration of "a": None = unregistered
    init_a: Option<usize>,
}

fn sched_body(c: &SchedCase, ch: &Chooser) -> Outcome {
    tonic_health::verif_hooks::arm(false);
    let (reporter, server) = tonic_health::server::health_reporter();
    let client = HealthClient::new(server);
    if let Some(v) = c.init_a {
        let _ = spin_block_on(reporter.set_service_status(SERVICES[1], st(v)), 1000);
    }
    let results: Rc<RefCell<HashMap<(usize, usize), Ret>>> = Rc::new(RefCell::new(HashMap::new()));
    let live: Rc<RefCell<HashMap<usize, tonic::Streaming<HealthCheckResponse>>>> = Rc::new(RefCell::new(HashMap::new()));
    let mut tasks: Vec<sched::Task<'_>> = vec![];
    for (ti, prog) in c.tasks.iter().enumerate() {
        let mut reporter = reporter.clone();
        let mut client = client.clone();
        let results = results.clone();
        let live = live.clone();
        let prog = prog.clone();
        tasks.push(Box::pin(async move {
            let mut watch: Option<tonic::Streaming<HealthCheckResponse>> = None;
            for (oi, op) in prog.iter().enumerate() {
                let r = match op {
                    Op::Set(s, v) => {
                        reporter.set_service_status(SERVICES[*s], st(*v)).await;
                        Ret::Unit
                    }
                    Op::Clear(s) => {
                        reporter.clear_service_status(SERVICES[*s]).await;
                        Ret::Unit
                    }
                    Op::Check(s) => status_ret(client.check(HealthCheckRequest { service: svc_name(*s).into() }).await),
                    Op::Watch(s) => match client.watch(HealthCheckRequest { service: svc_name(*s).into() }).await {
                        Ok(resp) => {
                            watch = Some(resp.into_inner());
                            Ret::WatchOk
                        }
                        Err(e) if e.code() == tonic::Code::NotFound => Ret::NotFound,
                        Err(e) => Ret::OtherErr(crate::env::fmt_status(&e)),
                    },
                    Op::Next(_) => match watch.as_mut() {
                        Some(w) => poll_watch(w),
                        None => Ret::End,
                    },
                    Op::Drop(_) => {
                        watch = None;
                        Ret::Unit
                    }
                    Op::SetB(..) | Op::ClearB(_) => crate::explore::machinery("second-handle operations are not part of the schedule programs".to_string()),
                };
                results.borrow_mut().insert((ti, oi), r);
            }
            if let Some(w) = watch {
                live.borrow_mut().insert(ti, w);
            }
        }));
    }
    tonic_health::verif_hooks::arm(true);
    let rep = sched::run(tasks, ch, 2000, &tonic_health::verif_hooks::points);
    tonic_health::verif_hooks::arm(false);
    // final state, observed sequentially
    let mut fclient = client.clone();
    let final_a = spin_block_on(fclient.check(HealthCheckRequest { service: SERVICES[1].into() }), 10_000).map(status_ret).unwrap_or(Ret::OtherErr("stalled".into()));
    let final_e = spin_block_on(fclient.check(HealthCheckRequest { service: "".into() }), 10_000).map(status_ret).unwrap_or(Ret::OtherErr("stalled".into()));
    // every watch still alive is polled once more after everything has finished: an orphaned
    // watcher (one that will never see the latest status) shows up here
    let mut final_polls: Vec<(usize, Ret)> = vec![];
    {
        let mut l = live.borrow_mut();
        let mut keys: Vec<usize> = l.keys().copied().collect();
        keys.sort();
        for k in keys {
            let r = poll_watch(l.get_mut(&k).unwrap());
            final_polls.push((k, r));
        }
    }
    let results = results.borrow().clone();
    let mut o = Outcome::new(format!("schedule={:?} preemptions={} results={:?} final=({final_a:?},{final_e:?}) final_polls={final_polls:?}", rep.schedule, rep.preemptions, {
        let mut v: Vec<_> = results.iter().collect();
        v.sort_by_key(|(k, _)| **k);
        v
    }));
    o.nontrivial = rep.preemptions > 0;
    if rep.stuck {
        o.violate("deadlock", format!("no runnable task although some are unfinished (schedule {:?})", rep.schedule));
        return o;
    }
    // linearizability: some interleaving of the programs (respecting program order) explains
    // every return and the final state
    let lens: Vec<usize> = c.tasks.iter().map(|t| t.len()).collect();
    let mut pos = vec![0usize; lens.len()];
    let mut base = RefHealth::new();
    if let Some(v) = c.init_a {
        let _ = base.step(&Op::Set(1, v), &Ret::Unit);
    }
    if !explain(&c.tasks, &results, &mut pos, &lens, base, &final_a, &final_e, &final_polls) {
        o.violate("not-linearizable", format!("no sequential order of the operations explains the observed returns {:?} and final state ({final_a:?},{final_e:?})", o.obs));
    }
    o
}

/// In the schedule section every task has at most one watch, index = order of Watch ops in the
/// candidate sequential order; map (task) -> model watch index while exploring.
fn explain(progs: &[Vec<Op>], results: &HashMap<(usize, usize), Ret>, pos: &mut Vec<usize>, lens: &[usize], model: RefHealth, final_a: &Ret, final_e: &Ret, final_polls: &[(usize, Ret)]) -> bool {
    fn go(progs: &[Vec<Op>], results: &HashMap<(usize, usize), Ret>, pos: &mut Vec<usize>, lens: &[usize], model: RefHealth, widx: &mut Vec<Option<usize>>, final_a: &Ret, final_e: &Ret, final_polls: &[(usize, Ret)]) -> bool {
        if pos.iter().zip(lens).all(|(p, l)| p == l) {
            let mut m = model.clone();
            for (t, r) in final_polls {
                match widx[*t] {
                    Some(i) => {
                        if m.step(&Op::Next(i), r).is_err() {
                            return false;
                        }
                    }
                    None => return false,
                }
            }
            return m.step(&Op::Check(1), final_a).is_ok() && m.step(&Op::Check(0), final_e).is_ok();
        }
        for t in 0..progs.len() {
            if pos[t] < lens[t] {
                let op = &progs[t][pos[t]];
                let Some(ret) = results.get(&(t, pos[t])) else { return false };
                let mut m = model.clone();
                let saved = widx[t];
                let mapped = match op {
                    Op::Watch(s) => {
                        widx[t] = Some(m.watches.len());
                        Op::Watch(*s)
                    }
                    Op::Next(_) => match widx[t] {
                        Some(i) => Op::Next(i),
                        None => {
                            // the watch failed (NOT_FOUND): the harness reports End for next
                            if *ret == Ret::End {
                                pos[t] += 1;
                                let ok = go(progs, results, pos, lens, m, widx, final_a, final_e, final_polls);
                                pos[t] -= 1;
                                if ok {
                                    return true;
                                }
                            }
                            continue;
                        }
                    },
                    Op::Drop(_) => Op::Drop(widx[t].unwrap_or(usize::MAX)),
                    other => other.clone(),
                };
                if m.step(&mapped, ret).is_ok() {
                    if matches!(op, Op::Watch(_)) && *ret != Ret::WatchOk {
                        widx[t] = None;
                    }
                    pos[t] += 1;
                    let ok = go(progs, results, pos, lens, m, widx, final_a, final_e, final_polls);
                    pos[t] -= 1;
                    if ok {
                        return true;
                    }
                }
                widx[t] = saved;
            }
        }
        false
    }
    let mut widx = vec![None; progs.len()];
    go(progs, results, pos, lens, model, &mut widx, final_a, final_e, final_polls)
}

fn sched_cases(tier: Tier) -> Vec<SchedCase> {
    // per-task programs of 1..2 operations on service "a"
    let singles: Vec<Vec<Op>> = vec![
        vec![Op::Set(1, 1)],
        vec![Op::Set(1, 2)],
        vec![Op::Clear(1)],
        vec![Op::Check(1)],
        vec![Op::Watch(1), Op::Next(0)],
        vec![Op::Set(1, 2), Op::Check(1)],
        vec![Op::Clear(1), Op::Set(1, 0)],
        vec![Op::Set(1, 1), Op::Set(1, 2)],
        vec![Op::Check(1), Op::Check(1)],
    ];
    let mut out = vec![];
    for init_a in [None, Some(0usize)] {
        for a in 0..singles.len() {
            for b in a..singles.len() {
                out.push(SchedCase { tasks: vec![singles[a].clone(), singles[b].clone()], init_a });
                if tier == Tier::Thorough {
                    for c in b..singles.len() {
                        out.push(SchedCase { tasks: vec![singles[a].clone(), singles[b].clone(), singles[c].clone()], init_a });
                    }
                }
            }
        }
        if tier == Tier::Quick {
            // a few three-task programs
            for (a, b, c) in [(0, 2, 3), (1, 4, 2), (5, 6, 4), (0, 1, 3), (2, 6, 7)] {
                out.push(SchedCase { tasks: vec![singles[a].clone(), singles[b].clone(), singles[c].clone()], init_a });
            }
        }
    }
    out
}

pub fn property(tier: Tier) -> Property {
    let depth = tier.q(5, 7);
    let first_menu = menu(&[], 0);
    let mut hcases: Vec<HistCase> = first_menu.iter().cloned().map(|first| HistCase { depth, first, typed: false, two_handles: false }).collect();
    hcases.extend(first_menu.iter().cloned().map(|first| HistCase { depth: depth - 1, first, typed: true, two_handles: false }));
    hcases.extend(menu2(&[], 0, true).into_iter().map(|first| HistCase { depth: depth - 1, first, typed: false, two_handles: true }));
    let hist = Section::new(
        "histories",
        Config::default(),
        "cases: every operation sequence of depth 5 (thorough 7) over {set(service in {'', ' a ' (with surrounding blanks)}, status in 3), clear(service), check(service or the never-set name ' '), watch(service) (<= 2 watches), next(w) = one non-blocking poll of a live watch, drop(w)} (choices cost nothing; one case per first operation; and again one level shallower with every SERVING / NOT_SERVING update made through set_serving::<S>() / set_not_serving::<S>() for NamedService types named '' and 'a'; and again one level shallower with every update / clear available through either of two handles, the reporter and a clone of it), driven through the generated HealthClient wired in-process to health_reporter()'s HealthServer with no runtime; RefHealth is stepped in lock-step on every operation: check == latest (NOT_FOUND when unset/cleared/never set); a watch's reports form an order-preserving subsequence of the statuses set for its registration from the subscription on, Pending only when nothing is unreported (or the latest status equals the one reported last) and the service is still registered, end only after a clear and after the unreported latest status; never a status that was not set; every watch is polled with its own counting waker (a fresh one whenever its previous poll was Pending: only the latest waker counts) and a watcher whose last poll was Pending must have been woken by the next clear of its registration or update to a status other than the one it reported last (no lost wake-up). Non-trivial = the sequence polls a watch and contains an update or clear.",
        hcases,
        |c: &HistCase| format!("depth={} first={:?} typed_api={} two_handles={}", c.depth, c.first, c.typed, c.two_handles),
        hist_body,
    )
    .mins(10_000, 100, 1000);
    let sch = Section::new(
        "schedules",
        Config { max_bound: tier.q(2, 3), ..Default::default() },
        "cases: 2 (and 3) tasks, each a program of 1..2 operations on one service from {set, set other status, clear, check, watch+next, set;check, clear;set, set;set, check;check}, from an unregistered or registered initial state; environment: a deterministic scheduler switches tasks at every lock acquisition of the health registry (hook H2 makes each acquisition a yield point): every schedule with <= 2 (thorough 3) preemptions; oracle: no deadlock, and brute-force linearizability — some sequential order of the operations consistent with each task's program order makes RefHealth produce exactly the observed returns and the observed final state. Non-trivial = at least one preemption.",
        sched_cases(tier),
        |c: &SchedCase| format!("init_a={:?} tasks={:?}", c.init_a, c.tasks),
        sched_body,
    )
    .mins(500, 20, 100);
    Property {
        id: "C18",
        level: "model_checking",
        hang_is_violation: false,
        assumptions: vec![
            "the subscription instant of a lazily polled in-process watch stream lies between the watch call returning and its first poll".into(),
            "scheduling points are the lock acquisitions of the registry (hook H2, feature verif-hooks); memory-ordering effects inside tokio's RwLock/watch on a multi-core runtime are trusted".into(),
        ],
        sections: vec![hist, sch],
        extra: Default::default(),
    }
}
