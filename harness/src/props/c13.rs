//! C13 — graceful shutdown loses no accepted call.

use super::l1::{client_call, fmt_view, ClientView, Shape};
use crate::env::vnet::{self, ConnectMode};
use crate::explore::{Chooser, Config, Outcome};
use crate::fixtures::echo::echo_client::EchoClient;
use crate::fixtures::echo::echo_server::{Echo, EchoServer};
use crate::report::{Property, Section, Tier};
use std::collections::HashMap;
use std::future::Future;
use std::pin::Pin;
use std::sync::atomic::{AtomicBool, Ordering};
use std::sync::{Arc, Mutex};
use std::time::Duration;
use tokio::sync::mpsc;
use tokio_stream::Stream;
use tonic::transport::{Channel, Endpoint, Server};
use tonic::{Request, Response, Status, Streaming};

type Item = Result<Vec<u8>, Status>;
type BoxStream = Pin<Box<dyn Stream<Item = Item> + Send + 'static>>;

/// Handlers whose every step is released by the driver.
struct Gated {
    gates: Arc<Mutex<HashMap<u8, mpsc::UnboundedReceiver<Item>>>>,
    invoked: Arc<Mutex<Vec<u8>>>,
}

impl Gated {
    fn take(&self, id: u8) -> Result<mpsc::UnboundedReceiver<Item>, Status> {
        self.invoked.lock().unwrap().push(id);
        self.gates.lock().unwrap().remove(&id).ok_or_else(|| Status::internal("no gate for this call id"))
    }
}

#[tonic::async_trait]
impl Echo for Gated {
    async fn unary(&self, request: Request<Vec<u8>>) -> Result<Response<Vec<u8>>, Status> {
        let id = request.get_ref().first().copied().unwrap_or(255);
        let mut rx = self.take(id)?;
        match rx.recv().await {
            Some(Ok(m)) => Ok(Response::new(m)),
            Some(Err(s)) => Err(s),
            None => Err(Status::aborted("gate dropped")),
        }
    }
    type ServerStreamStream = BoxStream;
    async fn server_stream(&self, request: Request<Vec<u8>>) -> Result<Response<BoxStream>, Status> {
        let id = request.get_ref().first().copied().unwrap_or(255);
        let rx = self.take(id)?;
        Ok(Response::new(Box::pin(tokio_stream::wrappers::UnboundedReceiverStream::new(rx)) as BoxStream))
    }
    async fn client_stream(&self, _r: Request<Streaming<Vec<u8>>>) -> Result<Response<Vec<u8>>, Status> {
        Err(Status::unimplemented("not used"))
    }
    type BidiStream = BoxStream;
    async fn bidi(&self, _r: Request<Streaming<Vec<u8>>>) -> Result<Response<BoxStream>, Status> {
        Err(Status::unimplemented("not used"))
    }
}

#[derive(Clone, Debug)]
struct Case {
    /// (shape, connection index) per call
    calls: Vec<(Shape, usize)>,
    conns: usize,
    chop: usize,
    seed: u64,
    /// offer a brand-new connection (and a call on it) after the signal
    offer_after: bool,
    /// fire the signal and offer the new connection in the same step
    same_step: bool,
    /// the signal becomes ready exactly when the listener has yielded the new connection (so the
    /// serve future sees the accept and the signal in the same poll, whatever select!'s order)
    signal_on_accept: bool,
    /// instead of firing the shutdown signal, the listener's incoming stream ends (the serve
    /// future was started with a signal that never fires): serving must still drain
    end_incoming: bool,
    /// the clients keep their (idle) channels alive after their calls finished: graceful shutdown
    /// must close the connections by itself and the serve future must still resolve
    keep_clients: bool,
    max_age_ms: Option<u64>,
    /// number of accept errors the listener reports (each one an event of the alphabet)
    accept_errs: usize,
    /// calls not yet started when the signal fires are started in that very step, and the signal is
    /// raised by the transport at the moment their first bytes reach the server's (so far unused)
    /// connection: the connection's task finds the request and the signal on the same wake-up
    start_with_signal: bool,
    /// this many brand-new connections are handed to the listener in the very step in which the
    /// signal fires (a listener that stays ready): the signal must still be noticed before the
    /// backlog is drained
    backlog: usize,
}

fn steps_of(shape: Shape) -> usize {
    match shape {
        Shape::Unary => 1,
        _ => 3,
    }
}

fn expected_msgs(id: u8, shape: Shape) -> Vec<Vec<u8>> {
    match shape {
        Shape::Unary => vec![vec![id, 1]],
        _ => vec![vec![id, 1], vec![id, 2]],
    }
}

#[derive(Debug, Clone)]
enum CallEnd {
    Complete,
    Wrong(String),
    Error(String),
    Hang,
    NotStarted,
}

fn body(c: &Case, ch: &Chooser) -> Outcome {
    let rt = vnet::runtime(c.seed);
    let c2 = c.clone();
    let ch2 = ch.clone();
    let (log, ends, invoked, serve_states, serve_result, late, open_at_resolution) = rt.block_on(async move {
        let c = c2;
        let ch = ch2;
        let (st, rx) = vnet::connector_state(ConnectMode::Succeed, false, c.chop);
        let gates = Arc::new(Mutex::new(HashMap::new()));
        let invoked = Arc::new(Mutex::new(vec![]));
        let mut senders: Vec<Option<mpsc::UnboundedSender<Item>>> = vec![];
        let n = c.calls.len();
        // call ids 0..n are the scripted calls, id 100 is the late call on the new connection
        for id in (0..n as u8).chain([100u8]) {
            let (tx, grx) = mpsc::unbounded_channel::<Item>();
            gates.lock().unwrap().insert(id, grx);
            senders.push(Some(tx));
        }
        let server = EchoServer::new(Gated { gates: gates.clone(), invoked: invoked.clone() });
        let (sig_tx, sig_rx) = tokio::sync::oneshot::channel::<()>();
        let switch_outer = Arc::new(vnet::ListenerSwitch::default());
        let (err_tx, err_rx) = mpsc::unbounded_channel::<std::io::Error>();
        let mut errs_left = c.accept_errs;
        let serve_done = Arc::new(AtomicBool::new(false));
        let yield_count = Arc::new(std::sync::atomic::AtomicUsize::new(0));
        let mut backlog_held: Vec<hyper_util::rt::TokioIo<vnet::NetIo>> = vec![];
        let mut yielded_at_signal: Option<usize> = None;
        let open_cell_outer: Arc<Mutex<Option<usize>>> = Arc::new(Mutex::new(None));
        let serve_res: Arc<Mutex<Option<Result<(), String>>>> = Arc::new(Mutex::new(None));
        {
            let (sd, sr) = (serve_done.clone(), serve_res.clone());
            let st_for_serve = st.clone();
            let open_cell = open_cell_outer.clone();
            let mut b = Server::builder();
            if let Some(ms) = c.max_age_ms {
                b = b.max_connection_age(Duration::from_millis(ms));
            }
            let accept_flag = Arc::new((AtomicBool::new(false), Mutex::new(None::<std::task::Waker>)));
            let (af1, af2) = (accept_flag.clone(), accept_flag.clone());
            let initial_conns = c.conns;
            let on_accept = c.signal_on_accept;
            let mut yielded = 0usize;
            let yc = yield_count.clone();
            use tokio_stream::StreamExt;
            let switch = switch_outer.clone();
            let accept_errors = tokio_stream::wrappers::UnboundedReceiverStream::new(err_rx).map(Err::<vnet::NetIo, std::io::Error>);
            let incoming = vnet::switched(Box::pin(vnet::incoming(rx).merge(accept_errors)), switch).map(move |io| {
                yielded += 1;
                yc.fetch_add(1, Ordering::SeqCst);
                if on_accept && yielded > initial_conns {
                    af1.0.store(true, Ordering::SeqCst);
                    if let Some(w) = af1.1.lock().unwrap().take() {
                        w.wake();
                    }
                }
                io
            });
            tokio::spawn(async move {
                let mut sig_rx = sig_rx;
                let r = b
                    .add_service(server)
                    .serve_with_incoming_shutdown(incoming, std::future::poll_fn(move |cx| {
                        if af2.0.load(Ordering::SeqCst) {
                            return std::task::Poll::Ready(());
                        }
                        *af2.1.lock().unwrap() = Some(cx.waker().clone());
                        std::pin::Pin::new(&mut sig_rx).poll(cx).map(|_| ())
                    }))
                    .await;
                // measured at the very moment the serve future resolves: every pipe end ever
                // handed to the listener must be gone by now
                let open = st_for_serve.server_ends.lock().unwrap().iter().filter(|s| !s.dropped.load(Ordering::SeqCst)).count();
                *open_cell.lock().unwrap() = Some(open);
                *sr.lock().unwrap() = Some(r.map_err(|e| format!("{e:?}")));
                sd.store(true, Ordering::SeqCst);
            });
        }
        let mut log: Vec<String> = vec![];
        let mut serve_states: Vec<(String, bool)> = vec![];
        // open the connections eagerly
        let mut channels: Vec<Channel> = vec![];
        for _ in 0..c.conns {
            match vnet::within(Duration::from_secs(600), Endpoint::from_static("http://c13.test:1").connect_with_connector(vnet::connector(st.clone()))).await {
                Some(Ok(chn)) => channels.push(chn),
                other => crate::explore::machinery(format!("initial connect failed: {:?}", other.map(|r| r.map(|_| ()).map_err(|e| e.to_string())))),
            }
        }
        vnet::settle().await;
        let mut started = vec![false; n];
        let mut steps_done = vec![0usize; n];
        let mut handles: Vec<Option<tokio::task::JoinHandle<ClientView>>> = (0..n).map(|_| None).collect();
        let mut signal: Option<tokio::sync::oneshot::Sender<()>> = Some(sig_tx);
        let mut offered = false;
        let mut sig_keep: Option<tokio::sync::oneshot::Sender<()>> = None;
        let mut sig_keep_shared: Option<Arc<Mutex<Option<tokio::sync::oneshot::Sender<()>>>>> = None;
        let mut pre_io: Option<hyper_util::rt::TokioIo<vnet::NetIo>> = None;
        let mut open_at_resolution: Option<usize> = None;
        let mut late_handle: Option<tokio::task::JoinHandle<Option<ClientView>>> = None;
        let mut late_sender = senders.pop().unwrap();
        loop {
            // enabled events in a fixed order
            #[derive(Clone, Copy, Debug)]
            enum E {
                Start(usize),
                Step(usize),
                Signal,
                Offer,
                AcceptErr,
            }
            let mut en: Vec<E> = vec![];
            for k in 0..n {
                if !started[k] {
                    en.push(E::Start(k));
                } else if steps_done[k] < steps_of(c.calls[k].0) {
                    en.push(E::Step(k));
                }
            }
            if signal.is_some() {
                en.push(E::Signal);
            } else if c.offer_after && !offered {
                en.push(E::Offer);
            }
            if errs_left > 0 && !offered {
                en.push(E::AcceptErr);
            }
            if en.is_empty() || en.iter().all(|e| matches!(e, E::AcceptErr)) {
                break;
            }
            let ev = en[ch.pick(en.len())];
            log.push(format!("{ev:?}"));
            let mut offer_now = false;
            match ev {
                E::Start(k) => {
                    started[k] = true;
                    let (shape, ci) = c.calls[k];
                    let mut client = EchoClient::new(channels[ci].clone());
                    let chx = ch.clone();
                    handles[k] = Some(tokio::spawn(async move { client_call(&mut client, shape, vec![vec![k as u8]], &vec![], false, &chx, |_| {}).await }));
                }
                E::Step(k) => {
                    steps_done[k] += 1;
                    let (shape, _) = c.calls[k];
                    let s = steps_done[k];
                    if shape == Shape::Unary {
                        if let Some(tx) = &senders[k] {
                            let _ = tx.send(Ok(vec![k as u8, 1]));
                        }
                    } else if s <= 2 {
                        if let Some(tx) = &senders[k] {
                            let _ = tx.send(Ok(vec![k as u8, s as u8]));
                        }
                    } else {
                        senders[k] = None; // end of the response stream
                    }
                }
                E::Signal => {
                    let mut raised_by_transport = false;
                    if c.start_with_signal && (0..n).any(|k| !started[k]) {
                        // arm the server ends: whichever sees request bytes first raises the signal
                        if let Some(tx) = signal.take() {
                            let shared = Arc::new(Mutex::new(Some(tx)));
                            for end in st.server_ends.lock().unwrap().iter() {
                                let sh = shared.clone();
                                *end.on_next_data.lock().unwrap() = Some(Box::new(move || {
                                    if let Some(tx) = sh.lock().unwrap().take() {
                                        let _ = tx.send(());
                                    }
                                }));
                            }
                            sig_keep_shared = Some(shared);
                            raised_by_transport = true;
                        }
                        for k in 0..n {
                            if !started[k] {
                                started[k] = true;
                                log.push(format!("Start({k})"));
                                let (shape, ci) = c.calls[k];
                                let mut client = EchoClient::new(channels[ci].clone());
                                let chx = ch.clone();
                                handles[k] = Some(tokio::spawn(async move { client_call(&mut client, shape, vec![vec![k as u8]], &vec![], false, &chx, |_| {}).await }));
                            }
                        }
                    }
                    let _ = raised_by_transport;
                    if c.same_step && c.offer_after && !offered {
                        // the new connection reaches the listener in the very step in which the
                        // signal fires: hand its server end over first, synchronously
                        use tower_service::Service;
                        let mut conn = vnet::connector(st.clone());
                        if let Ok(io) = conn.call(http::Uri::from_static("http://c13.test:1")).await {
                            pre_io = Some(io);
                        }
                    }
                    if c.backlog > 0 {
                        use tower_service::Service;
                        let mut conn = vnet::connector(st.clone());
                        for _ in 0..c.backlog {
                            if let Ok(io) = conn.call(http::Uri::from_static("http://c13.test:1")).await {
                                backlog_held.push(io);
                            }
                        }
                        yielded_at_signal = Some(yield_count.load(Ordering::SeqCst));
                    }
                    if let Some(tx) = signal.take() {
                        if c.end_incoming {
                            sig_keep = Some(tx); // the signal never fires; the listener ends instead
                            switch_outer.close();
                        } else if c.signal_on_accept {
                            sig_keep = Some(tx); // the signal fires by itself when the connection is yielded
                        } else {
                            let _ = tx.send(());
                        }
                    }
                    if c.same_step && c.offer_after {
                        offer_now = true;
                    }
                }
                E::Offer => offer_now = true,
                E::AcceptErr => {
                    // what accept(2) reports when descriptors run out, resp. when the peer gave up
                    let e = if errs_left % 2 == 1 { std::io::Error::other("too many open files") } else { std::io::Error::new(std::io::ErrorKind::ConnectionAborted, "aborted") };
                    errs_left -= 1;
                    let _ = err_tx.send(e);
                }
            }
            if offer_now && !offered {
                offered = true;
                let stx = st.clone();
                let chx = ch.clone();
                // release the late handler at once, should it ever be reached
                if let Some(tx) = late_sender.take() {
                    let _ = tx.send(Ok(vec![100, 1]));
                }
                let pre = pre_io.take();
                late_handle = Some(tokio::spawn(async move {
                    let connected = match pre {
                        Some(io) => {
                            let mut io = Some(io);
                            Endpoint::from_static("http://c13.test:1")
                                .connect_with_connector(tower::service_fn(move |_: http::Uri| {
                                    let io = io.take();
                                    async move { io.ok_or_else(|| std::io::Error::other("pipe already used")) }
                                }))
                                .await
                        }
                        None => Endpoint::from_static("http://c13.test:1").connect_with_connector(vnet::connector(stx)).await,
                    };
                    match connected {
                        Ok(chn) => {
                            let mut client = EchoClient::new(chn);
                            Some(client_call(&mut client, Shape::Unary, vec![vec![100]], &vec![], false, &chx, |_| {}).await)
                        }
                        Err(_) => None,
                    }
                }));
            }
            vnet::settle().await;
            if !backlog_held.is_empty() {
                // the clients of the backlog give up: whatever was accepted closes
                backlog_held.clear();
                vnet::settle().await;
            }
            let done_now = serve_done.load(Ordering::SeqCst);
            serve_states.push((format!("{ev:?}"), done_now));
            if done_now && open_at_resolution.is_none() {
                open_at_resolution = *open_cell_outer.lock().unwrap();
            }
        }
        if let Some(before) = yielded_at_signal {
            log.push(format!("BacklogAccepted({})", yield_count.load(Ordering::SeqCst) - before));
        }
        // everything scripted has happened: let the system finish
        drop(sig_keep);
        drop(sig_keep_shared);
        let kept = if c.keep_clients { Some(channels) } else { drop(channels); None };
        vnet::settle_ms(50).await;
        let mut ends: Vec<CallEnd> = vec![];
        for k in 0..n {
            let e = match handles[k].take() {
                None => CallEnd::NotStarted,
                Some(h) => match vnet::within(Duration::from_secs(3600), h).await {
                    None => CallEnd::Hang,
                    Some(Err(e)) => CallEnd::Error(format!("client task failed: {e}")),
                    Some(Ok(view)) => {
                        if let Some(e) = &view.error {
                            CallEnd::Error(crate::env::fmt_status(e))
                        } else if view.msgs == expected_msgs(k as u8, c.calls[k].0) {
                            CallEnd::Complete
                        } else {
                            CallEnd::Wrong(fmt_view(&view))
                        }
                    }
                },
            };
            ends.push(e);
        }
        vnet::settle_ms(50).await;
        let final_done = serve_done.load(Ordering::SeqCst);
        serve_states.push(("final".into(), final_done));
        drop(kept);
        let late = match late_handle {
            None => None,
            Some(h) => Some(match vnet::within(Duration::from_secs(3600), h).await {
                None => "hang".to_string(),
                Some(Err(e)) => format!("task failed {e}"),
                Some(Ok(None)) => "connect-error".to_string(),
                Some(Ok(Some(v))) => match &v.error {
                    Some(e) => format!("call-error {:?}", e.code()),
                    None => format!("call-ok {:?}", v.msgs),
                },
            }),
        };
        let inv = invoked.lock().unwrap().clone();
        let sr = serve_res.lock().unwrap().clone();
        (log, ends, inv, serve_states, sr, late, open_at_resolution)
    });
    drop(rt);
    let mut o = Outcome::new(format!("events={log:?} ends={ends:?} invoked={invoked:?} serve={serve_states:?} result={serve_result:?} late={late:?} open_at_resolution={open_at_resolution:?}"));
    let sig_pos = log.iter().position(|e| e == "Signal");
    // non-trivial: the signal landed strictly between a call's start and its last handler step
    o.nontrivial = sig_pos
        .map(|sp| {
            (0..c.calls.len()).any(|k| {
                let start = log.iter().position(|e| *e == format!("Start({k})"));
                let last = log.iter().rposition(|e| *e == format!("Step({k})"));
                matches!((start, last), (Some(s), Some(l)) if s < sp && sp < l)
            })
        })
        .unwrap_or(false);
    // 1. every accepted call (handler invoked) completes with the full, true outcome
    for (k, e) in ends.iter().enumerate() {
        let accepted = invoked.contains(&(k as u8));
        match e {
            CallEnd::Complete => {}
            CallEnd::Hang => o.violate("call-hang", format!("call {k} never completed")),
            CallEnd::NotStarted => {}
            CallEnd::Wrong(v) if accepted => o.violate("accepted-call-wrong-outcome", format!("call {k} was accepted but its caller saw {v}")),
            CallEnd::Error(s) if accepted => o.violate("accepted-call-lost", format!("call {k} reached its handler but its caller got {s}")),
            // a call whose request had reached the server's connection when the signal fired is in
            // flight "before its response headers": it may be served, or refused in an orderly way
            // (UNAVAILABLE: GOAWAY / REFUSED_STREAM), but not dropped together with its connection
            CallEnd::Error(s) if c.start_with_signal && !s.contains("code=Unavailable") => o.violate("in-flight-call-dropped", format!("call {k}'s request had reached the server when the signal fired; it was neither served nor refused, its caller got {s}")),
            _ => {}
        }
    }
    // 1b. a listener that stays ready must not starve the signal: of K connections handed over in
    //     the step of the signal a fair accept loop takes each one with probability 1/2 before it
    //     looks at the signal (all K: 2^-K); a loop that prefers the listener takes them all
    if c.backlog > 0 {
        if log.iter().any(|e| *e == format!("BacklogAccepted({})", c.backlog)) {
            o.violate("signal-starved-by-accept-backlog", format!("all {} connections that were waiting at the listener when the signal fired were accepted before the signal was noticed: a listener that stays ready postpones shutdown for ever", c.backlog));
        }
        o.nontrivial = true;
    }
    // 2. the serve future resolves only after every accepted call has completed, and does resolve
    let mut done_steps: Vec<usize> = vec![0; c.calls.len()];
    let mut started: Vec<bool> = vec![false; c.calls.len()];
    for (idx, (ev, done)) in serve_states.iter().enumerate() {
        for k in 0..c.calls.len() {
            if *ev == format!("Start({k})") {
                started[k] = true;
            }
            if *ev == format!("Step({k})") {
                done_steps[k] += 1;
            }
        }
        if *done && ev != "final" {
            let unfinished: Vec<usize> = (0..c.calls.len()).filter(|k| started[*k] && invoked.contains(&(*k as u8)) && done_steps[*k] < steps_of(c.calls[*k].0) && matches!(ends[*k], CallEnd::Complete | CallEnd::Error(_) | CallEnd::Wrong(_))).collect();
            let before_signal = sig_pos.map(|sp| idx < sp).unwrap_or(true);
            if before_signal && ev != "Signal" {
                o.violate("serve-resolved-before-signal", format!("serve future resolved after event {ev} although no signal had fired"));
                break;
            }
            if !unfinished.is_empty() {
                o.violate("serve-resolved-with-calls-in-flight", format!("serve future resolved after event {ev} while accepted calls {unfinished:?} had handler steps outstanding"));
                break;
            }
        }
    }
    if serve_states.last().map(|(_, d)| *d) != Some(true) {
        o.violate("serve-never-resolved", "all calls finished (and the client channels were dropped, or are merely idle) after the signal, but the serve future did not resolve");
    }
    if let Some(n) = open_at_resolution {
        if n > 0 {
            o.violate("serve-resolved-with-open-connection", format!("the serve future had resolved while {n} connection(s) handed to the listener were still open"));
        }
    }
    if let Some(Err(e)) = &serve_result {
        o.violate("serve-error", format!("serve future resolved with an error: {e}"));
    }
    // 3. no connection is accepted after the signal (judged only when the offer came after the
    //    signal had been fired and the system had settled)
    if c.offer_after && !c.same_step && invoked.contains(&100) {
        o.violate("connection-accepted-after-signal", format!("a connection offered after the signal reached a handler (late call: {late:?})"));
    }
    if late.as_deref() == Some("hang") {
        o.violate("late-connection-hang", "a connection offered after the signal never saw an error/EOF although the serve future has resolved");
    }
    o
}

fn cases(tier: Tier) -> Vec<Case> {
    let mut out = vec![];
    let shapes = [Shape::Unary, Shape::ServerStream];
    let mut call_sets: Vec<(Vec<(Shape, usize)>, usize)> = vec![];
    for s in shapes {
        call_sets.push((vec![(s, 0)], 1));
    }
    for a in shapes {
        for b in shapes {
            call_sets.push((vec![(a, 0), (b, 0)], 1));
            call_sets.push((vec![(a, 0), (b, 1)], 2));
        }
    }
    if tier == Tier::Thorough {
        call_sets.push((vec![(Shape::Unary, 0), (Shape::ServerStream, 1), (Shape::Unary, 1)], 2));
        call_sets.push((vec![(Shape::Unary, 0), (Shape::Unary, 0), (Shape::Unary, 1)], 2));
        call_sets.push((vec![(Shape::Unary, 0), (Shape::Unary, 0), (Shape::ServerStream, 0)], 1));
        call_sets.push((vec![(Shape::ServerStream, 0), (Shape::ServerStream, 1)], 2));
    }
    // no call at all: the only connection is the one arriving together with the signal (and an
    // idle-connection variant)
    for conns in [0usize, 1] {
        for seed in 0..8 {
            out.push(Case { calls: vec![], conns, chop: 0, seed, offer_after: true, same_step: true, signal_on_accept: false, end_incoming: false, keep_clients: false, max_age_ms: None, accept_errs: 0, start_with_signal: false, backlog: 0 });
        }
        out.push(Case { calls: vec![], conns, chop: 0, seed: 0, offer_after: true, same_step: false, signal_on_accept: false, end_incoming: false, keep_clients: false, max_age_ms: None, accept_errs: 0, start_with_signal: false, backlog: 0 });
        for chop in [0usize, 2] {
            out.push(Case { calls: vec![], conns, chop, seed: 0, offer_after: true, same_step: true, signal_on_accept: true, end_incoming: false, keep_clients: false, max_age_ms: None, accept_errs: 0, start_with_signal: false, backlog: 0 });
        }
    }
    // the first request of an idle connection arrives together with the signal
    for seed in 0..6 {
        for shape in [Shape::Unary, Shape::ServerStream] {
            for chop in [0usize, 2] {
                out.push(Case { calls: vec![(shape, 0)], conns: 1, chop, seed, offer_after: false, same_step: false, signal_on_accept: false, end_incoming: false, keep_clients: false, max_age_ms: None, accept_errs: 0, start_with_signal: true, backlog: 0 });
            }
        }
        out.push(Case { calls: vec![(Shape::Unary, 0), (Shape::ServerStream, 1)], conns: 2, chop: 0, seed, offer_after: false, same_step: false, signal_on_accept: false, end_incoming: false, keep_clients: false, max_age_ms: None, accept_errs: 0, start_with_signal: true, backlog: 0 });
    }
    // the listener reports accept errors (descriptor exhaustion, aborted handshakes) around the signal
    for seed in 0..4 {
        for accept_errs in [1usize, 2] {
            out.push(Case { calls: vec![], conns: 0, chop: 0, seed, offer_after: true, same_step: false, signal_on_accept: false, end_incoming: false, keep_clients: false, max_age_ms: None, accept_errs, start_with_signal: false, backlog: 0 });
            out.push(Case { calls: vec![(Shape::Unary, 0)], conns: 1, chop: 0, seed, offer_after: true, same_step: false, signal_on_accept: false, end_incoming: false, keep_clients: false, max_age_ms: None, accept_errs, start_with_signal: false, backlog: 0 });
        }
    }
    for s in [Shape::Unary, Shape::ServerStream] {
        out.push(Case { calls: vec![(s, 0)], conns: 1, chop: 0, seed: 0, offer_after: true, same_step: true, signal_on_accept: true, end_incoming: false, keep_clients: false, max_age_ms: None, accept_errs: 0, start_with_signal: false, backlog: 0 });
        // the listener ends while calls are in flight
        out.push(Case { calls: vec![(s, 0)], conns: 1, chop: 0, seed: 0, offer_after: false, same_step: false, signal_on_accept: false, end_incoming: true, keep_clients: false, max_age_ms: None, accept_errs: 0, start_with_signal: false, backlog: 0 });
        out.push(Case { calls: vec![(s, 0), (Shape::Unary, 1)], conns: 2, chop: 2, seed: 0, offer_after: false, same_step: false, signal_on_accept: false, end_incoming: true, keep_clients: false, max_age_ms: None, accept_errs: 0, start_with_signal: false, backlog: 0 });
        // max_connection_age elapsing before / after the signal
        for age in [2u64, 5] {
            out.push(Case { calls: vec![(s, 0)], conns: 1, chop: 0, seed: 1, offer_after: false, same_step: false, signal_on_accept: false, end_incoming: false, keep_clients: false, max_age_ms: Some(age), accept_errs: 0, start_with_signal: false, backlog: 0 });
        }
    }
    // clients that keep their idle channels: the server must close the connections itself
    for calls in [vec![(Shape::Unary, 0)], vec![(Shape::ServerStream, 0), (Shape::Unary, 1)], vec![]] {
        let conns = calls.iter().map(|(_, c)| c + 1).max().unwrap_or(1);
        out.push(Case { calls, conns, chop: 0, seed: 0, offer_after: false, same_step: false, signal_on_accept: false, end_incoming: false, keep_clients: true, max_age_ms: None, accept_errs: 0, start_with_signal: false, backlog: 0 });
    }
    out.push(Case { calls: vec![(Shape::Unary, 0), (Shape::ServerStream, 0)], conns: 1, chop: 0, seed: 1, offer_after: false, same_step: false, signal_on_accept: false, end_incoming: false, keep_clients: false, max_age_ms: Some(2), accept_errs: 0, start_with_signal: false, backlog: 0 });
    for (i, (calls, conns)) in call_sets.iter().enumerate() {
        let chops: Vec<usize> = if tier == Tier::Thorough { vec![0, 2, 3] } else { vec![[0, 2, 3][i % 3]] };
        for chop in chops {
            out.push(Case { calls: calls.clone(), conns: *conns, chop, seed: 0, offer_after: true, same_step: false, signal_on_accept: false, end_incoming: false, keep_clients: false, max_age_ms: None, accept_errs: 0, start_with_signal: false, backlog: 0 });
            if calls.len() == 1 || tier == Tier::Thorough {
                for seed in 0..4 {
                    out.push(Case { calls: calls.clone(), conns: *conns, chop, seed, offer_after: true, same_step: true, signal_on_accept: false, end_incoming: false, keep_clients: false, max_age_ms: None, accept_errs: 0, start_with_signal: false, backlog: 0 });
                }
            }
        }
        if tier == Tier::Thorough && calls.len() <= 2 {
            for age in [2u64, 6] {
                out.push(Case { calls: calls.clone(), conns: *conns, chop: 0, seed: 1, offer_after: false, same_step: false, signal_on_accept: false, end_incoming: false, keep_clients: false, max_age_ms: Some(age), accept_errs: 0, start_with_signal: false, backlog: 0 });
            }
        }
    }
    // a backlog of 40 connections at the listener when the signal fires
    for seed in 0..4 {
        for (calls, conns) in [(vec![], 0usize), (vec![(Shape::Unary, 0usize)], 1)] {
            out.push(Case { calls, conns, chop: 0, seed, offer_after: false, same_step: false, signal_on_accept: false, end_incoming: false, keep_clients: false, max_age_ms: None, accept_errs: 0, start_with_signal: false, backlog: 40 });
        }
    }
    out
}

pub fn property(tier: Tier) -> Property {
    let sec = Section::new(
        "shutdown-schedules",
        Config { hang_secs: 60, ..Default::default() },
        "cases: 1..2 (thorough 3) concurrent calls (unary: 1 gated handler step; server-streaming: message, message, end = 3 gated steps) on 1..2 connections x pipe fragmentation pattern x {new connection offered after the signal has settled | in the same step as the signal under 4 RNG seeds} ; the listener's incoming stream ending instead of the signal firing; max_connection_age elapsing before/after the signal; the listener reporting 1..2 accept errors at any point before the new connection is offered; a backlog of 40 new connections handed to the listener in the step of the signal (the signal must be noticed before the backlog is drained; 4 RNG seeds); calls started in the very step in which the signal fires, the signal being raised by the transport at the moment their first bytes reach the server's so far unused connection (the connection's task finds request and signal on one wake-up; such a call is in flight: it may be served or refused with UNAVAILABLE, not dropped); environment: the explorer enumerates EVERY interleaving of {start call k, release next handler step of call k, fire the shutdown signal, offer a new connection, report an accept error} consistent with causality (choices cost nothing), each event followed by quiescence in virtual time, on the real Server::serve_with_incoming_shutdown over in-memory pipes; RefShutdown: every call whose handler was invoked ends with its full outcome; no call hangs; the serve future is unresolved while an accepted call has steps outstanding (and before any signal), resolves after the last one finishes and the clients are gone, never with Err; a connection offered after signal+quiescence never reaches a handler and does not hang once serving ended. Non-trivial = the signal landed strictly between a call's start and its last handler step.",
        cases(tier),
        |c: &Case| format!("calls={:?} conns={} chop={} seed={} offer_after={} same_step={} signal_on_accept={} end_incoming={} keep_clients={} max_age={:?} accept_errs={} start_with_signal={} backlog={}", c.calls, c.conns, c.chop, c.seed, c.offer_after, c.same_step, c.signal_on_accept, c.end_incoming, c.keep_clients, c.max_age_ms, c.accept_errs, c.start_with_signal, c.backlog),
        body,
    )
    .mins(100, 10, 20);
    Property {
        id: "C13",
        level: "model_checking",
        hang_is_violation: true,
        assumptions: vec![
            "interleavings inside hyper/h2/tokio below event granularity follow the deterministic current-thread order; they are varied through the pipe fragmentation menu and the RNG seed set, not enumerated".into(),
            "clients drop their channels after their calls finished (a server cannot finish while a peer keeps a healthy connection open only if streams are in flight)".into(),
        ],
        sections: vec![sec],
        extra: Default::default(),
    }
}
