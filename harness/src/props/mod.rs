use crate::report::{Property, Tier};

pub mod codec_common;
pub mod c01;
pub mod c07;

pub fn get(id: &str, tier: Tier) -> Option<Property> {
    Some(match id {
        "C01" => c01::property(tier),
        "C07" => c07::property(tier),
        _ => return None,
    })
}
