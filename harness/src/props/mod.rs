use crate::report::{Property, Tier};

pub mod codec_common;
pub mod c01;
pub mod c02;
pub mod c03;
pub mod c08;
pub mod c09;
pub mod c10;
pub mod c11;
pub mod c12;
pub mod c13;
pub mod c14;
pub mod c15;
pub mod c16;
pub mod c17;
pub mod c18;
pub mod c19;
pub mod c20;
pub mod l1;
pub mod c04;
pub mod c05;
pub mod c06;
pub mod c07;

pub fn get(id: &str, tier: Tier) -> Option<Property> {
    Some(match id {
        "C01" => c01::property(tier),
        "C02" => c02::property(tier),
        "C03" => c03::property(tier),
        "C04" => c04::property(tier),
        "C05" => c05::property(tier),
        "C06" => c06::property(tier),
        "C07" => c07::property(tier),
        "C08" => c08::property(tier),
        "C09" => c09::property(tier),
        "C10" => c10::property(tier),
        "C11" => c11::property(tier),
        "C12" => c12::property(tier),
        "C13" => c13::property(tier),
        "C14" => c14::property(tier),
        "C15" => c15::property(tier),
        "C16" => c16::property(tier),
        "C17" => c17::property(tier),
        "C18" => c18::property(tier),
        "C19" => c19::property(tier),
        "C20" => c20::property(tier),
        _ => return None,
    })
}

/// `mc --isolated <what> <args…>`: one execution in a process of its own.
pub fn isolated(args: &[String]) -> i32 {
    match args.first().map(|s| s.as_str()) {
        Some("c07-empty-run") => {
            let n = args.get(1).and_then(|s| s.parse().ok()).unwrap_or(0);
            let at = args.get(2).and_then(|s| s.parse().ok()).unwrap_or(0);
            c07::isolated_empty_run(n, at)
        }
        _ => 2,
    }
}
