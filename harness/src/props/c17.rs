//! C17 — the grpc-web client layer recovers messages and full trailers under any chunking.

use crate::env::{collect_body, fmt_headers, fmt_status, hex, spin_block_on, Chunking, Collected, ScriptBody};
use crate::explore::{Chooser, Config, Outcome};
use crate::fixtures::echo::echo_client::EchoClient;
use crate::oracle::wire;
use crate::report::{Property, Section, Tier};
use http::{HeaderMap, HeaderValue};
use std::future::Future;
use std::pin::Pin;
use std::task::{Context, Poll};
use tonic_web::GrpcWebClientService;
use tower_service::Service;

type Trailers = Vec<(String, Vec<u8>)>;

#[derive(Clone, Debug)]
struct Case {
    msgs: Vec<(u8, Vec<u8>)>,
    trailers: Trailers,
    space: bool,
    /// cut the encoded body after this many bytes
    truncate: Option<usize>,
    /// overwrite the flag byte of frame k (message frames, then the trailers frame) with this
    bad_flag: Option<(usize, u8)>,
    free: bool,
    drip: bool,
    /// replaces the encoded body: a body cut off inside a frame that declares a huge length
    raw: Option<Vec<u8>>,
    /// every DATA frame of the transport is a Buf of this many non-contiguous segments
    segments: usize,
    /// fixed cyclic chunk lengths (large bodies)
    fixed: Option<Vec<usize>>,
}

fn encode(c: &Case) -> (Vec<u8>, Vec<usize>) {
    let mut v = vec![];
    let mut starts = vec![];
    for (f, p) in &c.msgs {
        starts.push(v.len());
        v.extend(wire::encode_frame(*f, p));
    }
    starts.push(v.len());
    v.extend(wire::encode_frame(0x80, &wire::encode_trailer_block(&c.trailers, c.space)));
    (v, starts)
}

/// Inner HTTP service returning a canned response body.
#[derive(Clone)]
struct Canned {
    body: Vec<u8>,
    chunking: Chunking,
    segments: usize,
    ch: Chooser,
    stats: std::sync::Arc<std::sync::Mutex<Option<std::sync::Arc<crate::env::BodyStats>>>>,
}

impl<B: Send + 'static> Service<http::Request<B>> for Canned {
    type Response = http::Response<crate::env::Segmented<ScriptBody>>;
    type Error = std::convert::Infallible;
    type Future = Pin<Box<dyn Future<Output = Result<Self::Response, Self::Error>> + Send>>;
    fn poll_ready(&mut self, _: &mut Context<'_>) -> Poll<Result<(), Self::Error>> {
        Poll::Ready(Ok(()))
    }
    fn call(&mut self, req: http::Request<B>) -> Self::Future {
        drop(req);
        let sb = ScriptBody::new(self.body.clone(), None, self.chunking.clone(), &self.ch);
        *self.stats.lock().unwrap() = Some(sb.stats());
        let mut r = http::Response::new(crate::env::Segmented { inner: sb, segments: self.segments });
        // every spelling of a binary grpc-web response, rotating with the body length
        let ct = ["application/grpc-web+proto", "application/grpc-web", "application/grpc-web+json", "application/grpc-web+proto"][self.body.len() % 4];
        r.headers_mut().insert("content-type", HeaderValue::from_static(ct));
        Box::pin(async move { Ok(r) })
    }
}

fn multimap(h: &HeaderMap) -> Trailers {
    // per-name order is what a multimap preserves
    let mut names: Vec<String> = h.keys().map(|k| k.as_str().to_string()).collect();
    names.sort();
    let mut out = vec![];
    for n in names {
        for v in h.get_all(&n) {
            out.push((n.clone(), v.as_bytes().to_vec()));
        }
    }
    out
}

fn canon(t: &Trailers) -> Trailers {
    let mut names: Vec<String> = t.iter().map(|(k, _)| k.to_ascii_lowercase()).collect();
    names.sort();
    names.dedup();
    let mut out = vec![];
    for n in names {
        for (k, v) in t {
            if k.to_ascii_lowercase() == n {
                // HTTP/1 OWS around the value is not part of it
                let mut s: &[u8] = v;
                while let [b' ' | b'\t', r @ ..] = s {
                    s = r;
                }
                while let [r @ .., b' ' | b'\t'] = s {
                    s = r;
                }
                out.push((n.clone(), s.to_vec()));
            }
        }
    }
    out
}

fn body(c: &Case, ch: &Chooser) -> Outcome {
    let (mut bytes, starts) = encode(c);
    if let Some(r) = &c.raw {
        bytes = r.clone();
    }
    if let Some((k, f)) = c.bad_flag {
        bytes[starts[k]] = f;
    }
    let full_len = bytes.len();
    if let Some(t) = c.truncate {
        bytes.truncate(t);
    }
    // exhaustive-composition cases take no Pending deviations (they would multiply 2^(n-1) compositions by every placement)
    let chunking = if let Some(f) = &c.fixed {
        Chunking::Fixed(f.clone())
    } else if c.segments > 1 { Chunking::Fixed(if c.drip { vec![7] } else { vec![] }) } else if c.drip { Chunking::Fixed(vec![1]) } else { Chunking::Choose { free: c.free, pending: !c.free, empty: false } };
    let stats_slot = std::sync::Arc::new(std::sync::Mutex::new(None));
    let inner = Canned { body: bytes.clone(), chunking, segments: c.segments, ch: ch.clone(), stats: stats_slot.clone() };
    let mut svc = GrpcWebClientService::new(inner);
    let req = http::Request::builder().method("POST").uri("/fx.Echo/ServerStream").version(http::Version::HTTP_2).body(tonic::body::Body::empty()).unwrap();
    let resp = match spin_block_on(svc.call(req), 1000) {
        Ok(Ok(r)) => r,
        _ => crate::explore::machinery("canned service failed"),
    };
    let got: Collected = collect_body(resp.into_body(), 20_000);
    let data = got.bytes();
    let mut o = Outcome::new(format!(
        "order={} data={} trailers={:?} err={:?} stalled={}",
        got.order, hex(&data), got.trailers.iter().map(fmt_headers).collect::<Vec<_>>(), got.error.as_ref().map(fmt_status), got.stalled
    ));
    let cut_inside = stats_slot.lock().unwrap().as_ref().map(|s| s.frames.load(std::sync::atomic::Ordering::Relaxed) > 1).unwrap_or(false);
    o.nontrivial = cut_inside || c.truncate.is_some() || c.bad_flag.is_some();
    if got.stalled {
        o.violate("stall", "body never finished although its source was ready");
        return o;
    }
    // a complete trailers frame whose block is not well-formed header lines: how it is answered
    // (an error, or a lenient reading) is not constrained — the poll must return and the body end
    if let Some(r) = &c.raw {
        if r.len() >= 5 && r[0] == 0x80 && u32::from_be_bytes([r[1], r[2], r[3], r[4]]) as usize == r.len() - 5 {
            o.nontrivial = true;
            return o;
        }
    }
    // expected
    let msg_bytes: Vec<u8> = c.msgs.iter().flat_map(|(f, p)| wire::encode_frame(*f, p)).collect();
    let malformed = if c.raw.is_some() {
        Some("cut off inside a frame declaring a huge length")
    } else if let Some(t) = c.truncate {
        // strictly inside a frame?
        let boundaries: Vec<usize> = starts.iter().copied().chain([full_len]).collect();
        if boundaries.contains(&t) { None } else { Some("truncated inside a frame") }
    } else if c.bad_flag.is_some() {
        Some("invalid flag byte at a frame start")
    } else {
        None
    };
    match malformed {
        Some(why) => {
            if got.error.is_none() {
                let key = if c.truncate.is_some() || c.raw.is_some() { "truncated-no-error" } else { "bad-flag-no-error" };
                o.violate(key, format!("{why}: expected an error, got order={} (clean end)", got.order));
            }
            // whatever was yielded before the error must be a prefix of the true message bytes
            if c.raw.is_none() && !msg_bytes.starts_with(&data) {
                o.violate("data-not-a-prefix", format!("yielded data {} is not a prefix of the message frames {}", hex(&data), hex(&msg_bytes)));
            }
        }
        None if c.truncate.is_some() => {
            // cut exactly at a frame boundary: the statement does not say (no trailers frame at
            // all). Only require that yielded data is a prefix of the real data.
            if !msg_bytes.starts_with(&data) {
                o.violate("data-not-a-prefix", format!("yielded data {} is not a prefix of the message frames {}", hex(&data), hex(&msg_bytes)));
            }
        }
        None => {
            if let Some(e) = &got.error {
                o.violate("valid-body-error", format!("well-formed body but error {}", fmt_status(e)));
                return o;
            }
            if data != msg_bytes {
                let key = if msg_bytes.starts_with(&data) { "premature-end-data-missing" } else { "data-mismatch" };
                o.violate(key, format!("data {} != message frames {}", hex(&data), hex(&msg_bytes)));
            }
            if got.trailers.is_empty() {
                o.violate("trailers-dropped", format!("clean end without the trailers (frame order {})", got.order));
            } else {
                if got.trailers.len() != 1 || !got.order.ends_with('T') || got.order[..got.order.len() - 1].contains('T') {
                    o.violate("trailers-frame-count-or-position", format!("frame order {}", got.order));
                }
                let mut all = HeaderMap::new();
                for t in &got.trailers {
                    for (k, v) in t.iter() {
                        all.append(k.clone(), v.clone());
                    }
                }
                let have = multimap(&all);
                let want = canon(&c.trailers);
                if have != want {
                    // classify
                    let mut key = "trailers-mismatch".to_string();
                    for (k, v) in &want {
                        let hv: Vec<&Vec<u8>> = have.iter().filter(|(hk, _)| hk == k).map(|(_, v)| v).collect();
                        let wn = want.iter().filter(|(wk, _)| wk == k).count();
                        if hv.len() < wn && !hv.is_empty() {
                            key = "repeated-trailer-collapsed".into();
                        } else if hv.iter().any(|h| v.starts_with(h) && h.len() < v.len() && v[h.len()] == b':') {
                            key = "trailer-value-cut-at-colon".into();
                        }
                    }
                    o.violate(key, format!("trailers {:?} != sent {:?}", show(&have), show(&want)));
                }
            }
        }
    }
    o
}

fn show(t: &Trailers) -> Vec<String> {
    t.iter().map(|(k, v)| format!("{k}={}", String::from_utf8_lossy(v))).collect()
}

fn trailer_menu() -> Vec<Trailers> {
    let t = |v: &[(&str, &str)]| -> Trailers { v.iter().map(|(k, v)| (k.to_string(), v.as_bytes().to_vec())).collect() };
    vec![
        t(&[("grpc-status", "0")]),
        t(&[("grpc-status", "5"), ("grpc-message", "not found: x")]),
        t(&[("grpc-status", "0"), ("x-r", "a"), ("x-r", "b")]),
        t(&[("grpc-status", "0"), ("x-empty", "")]),
        t(&[("grpc-status", "3"), ("grpc-message", "a:b:c"), ("x-url", "http://h:80/p")]),
        // an ASCII-keyed value holding opaque (obs-text, not UTF-8) bytes
        vec![("grpc-status".to_string(), b"10".to_vec()), ("x-opaque".to_string(), vec![b'c', b'a', b'f', 0xe9, b' ', 0xfa, 0xfb])],
    ]
}

fn cases(tier: Tier) -> Vec<Case> {
    let mut out = vec![];
    let msg_sets: Vec<Vec<(u8, Vec<u8>)>> = vec![vec![], vec![(0, vec![])], vec![(0, vec![7])], vec![(1, vec![1, 2, 3]), (0, vec![])], vec![(0, vec![9, 9, 9]), (0, vec![8])]];
    let free_limit = tier.q(21, 24);
    for msgs in &msg_sets {
        for (ti, tr) in trailer_menu().into_iter().enumerate() {
            for space in [false, true] {
                let base = Case { msgs: msgs.clone(), trailers: tr.clone(), space, truncate: None, bad_flag: None, free: false, drip: false, raw: None, segments: 1, fixed: None };
                let len = encode(&base).0.len();
                out.push(Case { free: len <= free_limit, ..base.clone() });
                out.push(Case { drip: true, ..base.clone() });
                // transports whose DATA buffers are not contiguous: the whole body as one frame of 2 / 3 segments, 7-byte frames of 2
                out.push(Case { segments: 2, ..base.clone() });
                out.push(Case { segments: 3, ..base.clone() });
                out.push(Case { segments: 2, drip: true, ..base.clone() });
                if space && ti > 1 && tier == Tier::Quick {
                    continue;
                }
                // truncation at every byte
                for t in 0..len {
                    out.push(Case { truncate: Some(t), ..base.clone() });
                    if tier == Tier::Thorough || t % 3 == 0 {
                        out.push(Case { truncate: Some(t), drip: true, ..base.clone() });
                    }
                }
                // invalid flag at every frame start
                for k in 0..=msgs.len() {
                    for f in [2u8, 0x7f, 0x81, 0xff] {
                        // 0x81 on the trailers frame position would be "compressed trailers": leave it out
                        if f == 0x81 && k == msgs.len() {
                            continue;
                        }
                        out.push(Case { bad_flag: Some((k, f)), ..base.clone() });
                    }
                }
            }
        }
    }
    // three / four frames of unequal sizes: two chunk ends inside different payloads with whole
    // frames between them (offsets remembered across polls), every pair of cuts and equal blocks
    for msgs in [
        vec![(0u8, vec![1, 2, 3, 4]), (0u8, vec![5, 6]), (0u8, vec![7, 8, 9, 10, 11, 12, 13])],
        vec![(0u8, vec![1; 6]), (1u8, vec![2]), (0u8, vec![]), (0u8, vec![3; 11])],
    ] {
        for tr in trailer_menu().into_iter().take(tier.q(1, 2)) {
            let base = Case { msgs: msgs.clone(), trailers: tr, space: false, truncate: None, bad_flag: None, free: false, drip: false, raw: None, segments: 1, fixed: None };
            out.push(base.clone());
            for block in 2..=tier.q(17usize, 40usize) {
                out.push(Case { fixed: Some(vec![block]), ..base.clone() });
            }
        }
    }
    // a body that ends inside a frame whose prefix declares (almost) 4 GiB, after 0/1 complete frames
    for lead in [false, true] {
        for declared in [0xffff_fff0u32, 0xffff_fffa, 0xffff_fffb, 0xffff_fffc, 0xffff_ffff, 0x8000_0000, 0x7fff_ffff] {
            for flag in [0u8, 0x80] {
                for tail in [0usize, 3] {
                    let mut raw = vec![];
                    if lead {
                        raw.extend(wire::encode_frame(0, &[7]));
                    }
                    raw.push(flag);
                    raw.extend_from_slice(&declared.to_be_bytes());
                    raw.extend(std::iter::repeat(0x41).take(tail));
                    for drip in [false, true] {
                        out.push(Case { msgs: vec![], trailers: trailer_menu()[0].clone(), space: false, truncate: None, bad_flag: None, free: false, drip, raw: Some(raw.clone()), segments: 1, fixed: None });
                    }
                }
            }
        }
    }
    // trailers blocks with stray CR / LF / NUL bytes, empty lines, no colon, nothing at all
    for block in [
        &b"x:1\r\rx:2\r\n"[..], b"\rgrpc-status:0\r\n", b"grpc-status:0\r", b"grpc-status:0\r\r\n", b"\r", b"\n", b"\r\n", b"\r\n\r\n", b"", b"grpc-status", b":", b"grpc-status:0\n\rx:y\r\n", b"grpc-status:0\r\n\0", b"a:b\r\n\rc:d", b"grpc-status: 0\r\nx:\r",
    ] {
        let raw = wire::encode_frame(0x80, block);
        for drip in [false, true] {
            out.push(Case { msgs: vec![], trailers: trailer_menu()[0].clone(), space: false, truncate: None, bad_flag: None, free: false, drip, raw: Some(raw.clone()), segments: 1, fixed: None });
        }
    }
    // messages beyond the layer's 8 KiB buffer, alone and behind small ones, the body cut at one
    // position (before / at / after the 8192nd byte, inside the large frame) or into equal blocks
    let large: Vec<u8> = (0..9000u32).map(|i| (i % 251) as u8).collect();
    for msgs in [vec![(0u8, large.clone())], vec![(0u8, vec![1, 2, 3]), (0u8, large.clone())], vec![(0u8, vec![]), (0u8, vec![5]), (0u8, large.clone()), (0u8, vec![6])]] {
        let base = Case { msgs: msgs.clone(), trailers: trailer_menu()[0].clone(), space: false, truncate: None, bad_flag: None, free: false, drip: false, raw: None, segments: 1, fixed: None };
        let total = encode(&base).0.len();
        let mut cuts: Vec<usize> = vec![1, 4, 5, 8, 13, 100, 4096, 8000, 8191, 8192, 8193, 8200, 8210, 8500, 8974, 9000, 9005, 9010, total - 30, total - 1];
        cuts.retain(|c| *c > 0 && *c < total);
        for cut in cuts {
            // first chunk `cut` bytes, then everything else
            out.push(Case { fixed: Some(vec![cut, usize::MAX / 2]), ..base.clone() });
        }
        for block in [1000usize, 4096, 8192, 8193] {
            out.push(Case { fixed: Some(vec![block]), ..base.clone() });
        }
    }
    out
}

// -------- caller-visible status through a real client::Grpc on top

#[derive(Clone, Debug)]
struct CallCase {
    msgs: Vec<Vec<u8>>,
    status: u8,
    message: &'static str,
}

fn call_body(c: &CallCase, ch: &Chooser) -> Outcome {
    let mut tr: Trailers = vec![("grpc-status".into(), c.status.to_string().into_bytes())];
    if !c.message.is_empty() {
        tr.push(("grpc-message".into(), c.message.as_bytes().to_vec()));
    }
    let case = Case { msgs: c.msgs.iter().map(|m| (0u8, m.clone())).collect(), trailers: tr, space: false, truncate: None, bad_flag: None, free: false, drip: false, raw: None, segments: 1, fixed: None };
    let (bytes, _) = encode(&case);
    let inner = Canned { body: bytes, chunking: Chunking::Choose { free: false, pending: true, empty: false }, segments: 1, ch: ch.clone(), stats: Default::default() };
    let mut client = EchoClient::new(GrpcWebClientService::new(inner));
    let view = match spin_block_on(super::l1::client_call(&mut client, super::l1::Shape::ServerStream, vec![vec![1]], &vec![], false, ch, |_| {}), 100_000) {
        Ok(v) => v,
        Err(_) => {
            let mut o = Outcome::new("STALLED");
            o.violate("stall", "call did not complete");
            return o;
        }
    };
    let mut o = Outcome::new(super::l1::fmt_view(&view));
    o.nontrivial = c.status != 0 || ch.deviations() > 0;
    if view.msgs != c.msgs {
        o.violate("caller-messages", format!("caller received {:?}, server sent {:?}", view.msgs, c.msgs));
    }
    match (&view.error, c.status) {
        (None, 0) => {}
        (Some(e), s) if e.code() as i32 == s as i32 && s != 0 => {
            if e.message() != c.message {
                o.violate("caller-status-message", format!("message {:?} != {:?}", e.message(), c.message));
            }
        }
        (e, s) => o.violate("caller-status-lost", format!("server's grpc-status was {s} but the caller saw {:?}", e.as_ref().map(fmt_status))),
    }
    o
}

pub fn property(tier: Tier) -> Property {
    let a = Section::new(
        "client-body",
        Config { max_bound: tier.q(2, 3), hang_secs: 20, ..Default::default() },
        "cases: grpc-web response bodies built by the independent encoder: 0..2 message frames (flags 0/1, payloads 0..3 bytes; a trailers frame whose block has stray CR / LF / NUL bytes, empty lines or no colon (only termination is judged); 3..4 frames of unequal sizes 0..11 bytes under every pair of cuts and in equal blocks of 2..17 (thorough 40) bytes; and a 9000-byte message, beyond the layer's 8 KiB buffer, alone / behind 1..2 small ones, the body cut once at 20 positions around the prefix and the 8192nd byte or into equal blocks) + one 0x80 trailers frame over a trailer-map menu (values with ':' and spaces, repeated names, empty values, opaque non-UTF-8 bytes; 'k:v' and 'k: v' spellings), plus truncation at every byte, an invalid flag byte at every frame start, and bodies ending inside a frame whose prefix declares 2^31-1 .. 2^32-1 bytes; environment: every chunking (all compositions for bodies <= 21/24 bytes, otherwise <= bound cuts/Pending deviations) plus byte-by-byte drip through GrpcWebClientService over a scripted inner service; oracle: DATA concatenates to exactly the message-frame bytes, then exactly one trailers frame equal as a multimap to what was sent, then None; truncated inside a frame / bad flag => an error and never a clean end; no busy loop. Non-trivial = body delivered in more than one chunk, truncated or corrupted.",
        cases(tier),
        |c: &Case| format!("msgs={:?} trailers={:?} space={} truncate={:?} bad_flag={:?} free={} drip={} raw={:?} segments={} fixed={:?}", c.msgs.iter().map(|(f, p)| if p.len() > 16 { format!("({f}, {} bytes)", p.len()) } else { format!("({f}, {p:?})") }).collect::<Vec<_>>(), show(&c.trailers), c.space, c.truncate, c.bad_flag, c.free, c.drip, c.raw.as_ref().map(|r| hex(r)), c.segments, c.fixed),
        body,
    )
    .mins(1000, 10, 100);
    let mut ccases = vec![];
    for msgs in [vec![], vec![vec![1u8, 2]], vec![vec![], vec![3u8]]] {
        for (status, message) in [(0u8, ""), (5, "nope"), (13, "a: b"), (16, "x")] {
            ccases.push(CallCase { msgs: msgs.clone(), status, message });
        }
    }
    let b = Section::new(
        "caller-status",
        Config { max_bound: tier.q(2, 3), hang_secs: 20, ..Default::default() },
        "cases: a real generated client (server-streaming call) on top of GrpcWebClientService, response = 0..2 messages + trailers frame with grpc-status in {0,5,13,16}; environment: <= bound cuts/Pending; oracle: the caller sees the messages and the server's real status. Non-trivial = non-OK status or a deviation taken.",
        ccases,
        |c: &CallCase| format!("{c:?}"),
        call_body,
    )
    .mins(100, 3, 10);
    Property {
        id: "C17",
        level: "model_checking",
        hang_is_violation: true,
        assumptions: vec![
            "a body cut exactly at a frame boundary (no trailers frame at all) is not judged: the statement speaks of bodies cut inside a frame".into(),
            "trailer values are compared after trimming HTTP/1 optional whitespace".into(),
        ],
        sections: vec![a, b],
        extra: Default::default(),
    }
}
