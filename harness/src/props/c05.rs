//! C05 — compression is used only as negotiated and configured.

use super::codec_common::*;
use super::l1::*;
use crate::env::{collect_body, fmt_headers, fmt_status, hex, spin_block_on, Chunking, Collected, ScriptBody};
use crate::explore::{Chooser, Config, Outcome};
use crate::fixtures::echo::echo_client::EchoClient;
use crate::oracle::comp::{self, Enc};
use crate::oracle::wire;
use crate::report::{Property, Section, Tier};
use http::{HeaderMap, HeaderValue};
use std::future::Future;
use std::pin::Pin;
use std::sync::{Arc, Mutex};
use std::task::{Context, Poll};
use tower_service::Service;

fn ordered_subsets() -> Vec<Vec<Enc>> {
    let all = Enc::ALL;
    let mut out: Vec<Vec<Enc>> = vec![vec![]];
    for a in all {
        out.push(vec![a]);
        for b in all {
            if b != a {
                out.push(vec![a, b]);
                for c in all {
                    if c != a && c != b {
                        out.push(vec![a, b, c]);
                    }
                }
            }
        }
    }
    out
}

fn names(v: &[Enc]) -> String {
    v.iter().map(|e| e.name()).collect::<Vec<_>>().join("+")
}

/// Tokens of a comma separated list, trimmed of optional whitespace, lower-cased (the liberal
/// reading: a stricter tonic never alarms).
fn tokens_liberal(v: &[u8]) -> Vec<String> {
    String::from_utf8_lossy(v).split(',').map(|t| t.trim().to_ascii_lowercase()).filter(|t| !t.is_empty()).collect()
}

#[derive(Clone, Debug)]
struct SrvCase {
    shape: Shape,
    send: Vec<Enc>,
    accept: Vec<Enc>,
    /// raw grpc-accept-encoding header value of the request
    offer: Option<Vec<u8>>,
    /// raw grpc-encoding header value of the request
    req_encoding: Option<Vec<u8>>,
    /// first frame: flag and which compressor produced the payload
    flag: u8,
    payload_comp: Option<Enc>,
    /// the frame carries a zero-length payload (an empty message when flag = 0)
    empty: bool,
    /// the handler's response metadata carries its own grpc-encoding entry (as a proxy forwarding
    /// upstream metadata would): what is announced must still be what the frames are compressed with
    handler_md_encoding: Option<&'static str>,
    /// a second frame, flagged as compressed, follows the (valid, uncompressed) first one
    trailing_flagged: bool,
}

const REQ_MSG: [u8; 6] = [1, 2, 3, 4, 5, 6];
const RESP_MSG: [u8; 9] = [9, 9, 9, 9, 9, 9, 9, 9, 1];

fn srv_body(c: &SrvCase, ch: &Chooser) -> Outcome {
    let initial_md: Md = match c.handler_md_encoding {
        Some(v) => vec![("grpc-encoding".to_string(), MdVal::Ascii(v.to_string()))],
        None => vec![],
    };
    let script = Script { initial_md, msgs: vec![RESP_MSG.to_vec()], end: None, handler_err: false, bidi: BidiMode::ReadAll, disable_compression: false, exact_hint: false };
    let (mut server, log) = new_server(script, ch, false);
    for e in &c.send {
        server = server.send_compressed(tonic_enc(*e));
    }
    for e in &c.accept {
        server = server.accept_compressed(tonic_enc(*e));
    }
    // every other case is served by a clone of the configured server (as the transport does per connection)
    if (c.send.len() + c.accept.len() + c.flag as usize + c.shape as usize) % 2 == 1 {
        server = server.clone();
    }
    let payload = if c.empty {
        vec![]
    } else {
        match c.payload_comp {
            Some(e) => comp::compress(e, &REQ_MSG),
            None => REQ_MSG.to_vec(),
        }
    };
    let mut body = wire::encode_frame(c.flag, &payload);
    if c.trailing_flagged {
        body.extend(wire::encode_frame(1, &[0x1f, 0x8b, 0x08, 0x00]));
    }
    let mut b = http::Request::builder()
        .method(http::Method::POST)
        .uri(c.shape.path())
        .version(http::Version::HTTP_2)
        .header("content-type", "application/grpc")
        .header("te", "trailers");
    if let Some(v) = &c.offer {
        b = b.header("grpc-accept-encoding", HeaderValue::from_bytes(v).unwrap());
    }
    if let Some(v) = &c.req_encoding {
        b = b.header("grpc-encoding", HeaderValue::from_bytes(v).unwrap());
    }
    let req = b.body(ScriptBody::new(body, None, Chunking::Fixed(vec![]), ch)).unwrap();
    let resp = match spin_block_on(server.call(req), 100_000) {
        Ok(Ok(r)) => r,
        _ => {
            let mut o = Outcome::new("STALLED");
            o.violate("stall", "server call did not complete");
            return o;
        }
    };
    let (parts, rbody) = resp.into_parts();
    let rc = collect_body(rbody, 100_000);
    let log = log.lock().unwrap().clone();
    let status_hdr = parts.headers.get("grpc-status").or_else(|| rc.trailers.iter().find_map(|t| t.get("grpc-status"))).map(|v| String::from_utf8_lossy(v.as_bytes()).to_string());
    let mut o = Outcome::new(format!(
        "hdr[{}] body={} trailers={:?} handler_calls={} handler_msgs={:?}",
        fmt_headers(&parts.headers), hex(&rc.bytes()), rc.trailers.iter().map(fmt_headers).collect::<Vec<_>>(), log.calls, log.req_msgs
    ));
    o.nontrivial = !c.send.is_empty() || !c.accept.is_empty() || c.flag == 1 || c.req_encoding.is_some();

    // ---------------- request side reference
    #[derive(Debug, PartialEq)]
    enum Want {
        Unimplemented,
        Internal,
        HandlerSees,
        /// the property leaves it open (e.g. differently-cased name of an enabled encoding,
        /// or a compressed-flagged payload that is not in the negotiated format)
        Open,
    }
    let negotiated: Result<Option<Enc>, ()> = match &c.req_encoding {
        None => Ok(None),
        Some(v) if v == b"identity" => Ok(None),
        Some(v) => match std::str::from_utf8(v).ok().and_then(Enc::from_name) {
            Some(e) if c.accept.contains(&e) => Ok(Some(e)),
            _ => Err(()),
        },
    };
    let want = match &negotiated {
        Err(()) => {
            // names nothing enabled under the exact spelling; under a liberal case-insensitive
            // reading it might still name an enabled encoding -> open
            let lower = c.req_encoding.as_ref().map(|v| String::from_utf8_lossy(v).trim().to_ascii_lowercase()).unwrap_or_default();
            if Enc::from_name(&lower).map(|e| c.accept.contains(&e)).unwrap_or(false) || lower == "identity" {
                Want::Open
            } else {
                Want::Unimplemented
            }
        }
        Ok(neg) => {
            if c.flag == 0 {
                if c.payload_comp.is_none() { Want::HandlerSees } else { Want::Open }
            } else {
                match neg {
                    None => Want::Internal,
                    Some(_) if c.empty => Want::Open, // a zero-byte payload is not a valid compressed stream
                    Some(e) if c.payload_comp == Some(*e) => Want::HandlerSees,
                    Some(_) => Want::Open,
                }
            }
        }
    };
    if c.trailing_flagged {
        // no encoding is negotiated in these cases: the second frame's compressed flag is illegal,
        // wherever in the request it stands
        let ok = if c.shape.streams_requests() {
            log.req_err.as_deref().map(|e| e.contains("code=Internal")).unwrap_or(false)
        } else {
            status_hdr.as_deref() == Some("13")
        };
        if !ok {
            o.violate("compressed-flag-without-encoding", format!("a second request frame with flag=1 and no negotiated encoding must be rejected with INTERNAL; grpc-status={:?}, handler saw {:?} / stream error {:?}", status_hdr, log.req_msgs, log.req_err));
        }
        return o;
    }
    match want {
        Want::Unimplemented => {
            if status_hdr.as_deref() != Some("12") || log.calls != 0 {
                o.violate("unsupported-encoding-not-refused", format!("request grpc-encoding {:?} is not enabled (accept {{{}}}) but grpc-status={:?}, handler calls {}", c.req_encoding.as_ref().map(|v| String::from_utf8_lossy(v).to_string()), names(&c.accept), status_hdr, log.calls));
            } else {
                // grpc-accept-encoding must list precisely the enabled encodings
                let adv = parts.headers.get("grpc-accept-encoding").or_else(|| rc.trailers.iter().find_map(|t| t.get("grpc-accept-encoding")));
                let mut got: Vec<String> = adv.map(|v| tokens_liberal(v.as_bytes())).unwrap_or_default();
                got.retain(|t| t != "identity");
                got.sort();
                got.dedup();
                let mut want: Vec<String> = c.accept.iter().map(|e| e.name().to_string()).collect();
                want.sort();
                if got != want {
                    o.violate("refusal-advertises-wrong-set", format!("UNIMPLEMENTED response advertises grpc-accept-encoding {:?}, enabled for receiving: {{{}}}", adv, names(&c.accept)));
                }
            }
        }
        Want::Internal => {
            // streaming-request shapes hand the error to the handler through its request stream
            // (what the handler then answers is its own business)
            let ok = if c.shape.streams_requests() {
                log.req_msgs.is_empty() && log.req_err.as_deref().map(|e| e.contains("code=Internal")).unwrap_or(false)
            } else {
                status_hdr.as_deref() == Some("13") && log.calls == 0
            };
            if !ok {
                o.violate("compressed-flag-without-encoding", format!("flag=1 with no negotiated encoding must be INTERNAL; grpc-status={:?}, handler saw {:?} / stream error {:?}", status_hdr, log.req_msgs, log.req_err));
            }
        }
        Want::HandlerSees => {
            let want_msg: Vec<u8> = if c.empty { vec![] } else { REQ_MSG.to_vec() };
            if log.calls != 1 || log.req_msgs != vec![want_msg] || status_hdr.as_deref() != Some("0") {
                o.violate("valid-request-refused", format!("request was well-formed for the negotiated encoding but grpc-status={:?}, handler calls={}, msgs={:?} err={:?}", status_hdr, log.calls, log.req_msgs, log.req_err));
            }
        }
        Want::Open => {}
    }

    // ---------------- response side (whenever a gRPC response with messages was produced)
    let announced_raw = parts.headers.get("grpc-encoding").map(|v| v.as_bytes().to_vec());
    let (frames, end) = wire::parse_frames(&rc.bytes(), &[0, 1]);
    if end != wire::ParseEnd::Clean {
        o.violate("response-framing", format!("{end:?}"));
        return o;
    }
    match &announced_raw {
        Some(v) if v != b"identity" => {
            match std::str::from_utf8(v).ok().and_then(Enc::from_name) {
                None => o.violate("response-encoding-unknown", format!("grpc-encoding {:?}", String::from_utf8_lossy(v))),
                Some(e) => {
                    if !c.send.contains(&e) {
                        o.violate("response-encoding-not-configured", format!("response announces {} but the server is configured to send {{{}}}", e.name(), names(&c.send)));
                    }
                    let offered = c.offer.as_ref().map(|v| tokens_liberal(v)).unwrap_or_default();
                    if !offered.iter().any(|t| t == e.name()) {
                        o.violate("response-encoding-not-offered", format!("response announces {} but the request offered {:?}", e.name(), c.offer.as_ref().map(|v| String::from_utf8_lossy(v).to_string())));
                    }
                    for (i, f) in frames.iter().enumerate() {
                        if f.flag == 1 && comp::decompress(e, &f.payload).map(|p| p != RESP_MSG).unwrap_or(true) {
                            o.violate("response-payload-not-in-announced-encoding", format!("frame {i} does not decompress with {} to the handler's message", e.name()));
                        }
                        if f.flag == 0 && f.payload != RESP_MSG {
                            o.violate("response-payload", format!("frame {i} uncompressed payload differs from the handler's message"));
                        }
                    }
                }
            }
        }
        _ => {
            for (i, f) in frames.iter().enumerate() {
                if f.flag != 0 {
                    o.violate("response-flag-without-encoding", format!("frame {i} has flag {} but no grpc-encoding was announced", f.flag));
                } else if f.payload != RESP_MSG {
                    o.violate("response-payload", format!("frame {i} payload differs from the handler's message"));
                }
            }
        }
    }
    o
}

fn offers() -> Vec<Option<Vec<u8>>> {
    let mut out: Vec<Option<Vec<u8>>> = vec![None, Some(b"".to_vec()), Some(b"identity".to_vec()), Some(b"br".to_vec()), Some(b"br,snappy".to_vec()), Some(b"GZIP".to_vec()), Some(b"Gzip, ZSTD".to_vec()), Some(vec![0xe9, b',', b'g', b'z', b'i', b'p']), Some(b"gzipx,xgzip,gz".to_vec()), Some(b"br, zstd ,identity".to_vec())];
    for s in ordered_subsets() {
        if s.is_empty() {
            continue;
        }
        for sep in [",", ", ", " ,"] {
            let v = s.iter().map(|e| e.name()).collect::<Vec<_>>().join(sep);
            out.push(Some(v.clone().into_bytes()));
            if sep == "," {
                out.push(Some(format!("{v},identity").into_bytes()));
                out.push(Some(format!("br,{v}").into_bytes()));
            }
        }
    }
    out
}

fn req_encodings() -> Vec<Option<Vec<u8>>> {
    vec![None, Some(b"identity".to_vec()), Some(b"gzip".to_vec()), Some(b"deflate".to_vec()), Some(b"zstd".to_vec()), Some(b"GZIP".to_vec()), Some(b"br".to_vec()), Some(vec![b'g', 0xfc]), Some(b"".to_vec()), Some(b" gzip".to_vec())]
}

fn srv_cases(tier: Tier) -> Vec<SrvCase> {
    let subsets = ordered_subsets();
    let mut out = vec![];
    let mut n = 0usize;
    // response negotiation: send-set x offer (x shape), request uncompressed
    for send in &subsets {
        for offer in offers() {
            n += 1;
            for (si, shape) in Shape::ALL.iter().enumerate() {
                if tier == Tier::Quick && n % 4 != si {
                    continue;
                }
                // accept set varies too: it must not influence the response encoding
                let accept = subsets[(n + si) % subsets.len()].clone();
                out.push(SrvCase { shape: *shape, send: send.clone(), accept, offer: offer.clone(), req_encoding: None, flag: 0, payload_comp: None, empty: false, handler_md_encoding: None, trailing_flagged: false });
            }
        }
    }
    // handler metadata with a grpc-encoding entry of its own while a response encoding is negotiated
    for send in [vec![Enc::Gzip], vec![Enc::Zstd, Enc::Deflate]] {
        for forged in ["identity", "deflate", "gzip"] {
            for shape in Shape::ALL {
                out.push(SrvCase { shape, send: send.clone(), accept: vec![], offer: Some(b"gzip,deflate,zstd".to_vec()), req_encoding: None, flag: 0, payload_comp: None, empty: false, handler_md_encoding: Some(forged), trailing_flagged: false });
            }
        }
    }
    // a flagged frame behind a valid one, no encoding negotiated
    for accept in [vec![], vec![Enc::Gzip]] {
        for shape in Shape::ALL {
            out.push(SrvCase { shape, send: vec![], accept: accept.clone(), offer: None, req_encoding: None, flag: 0, payload_comp: None, empty: false, handler_md_encoding: None, trailing_flagged: true });
        }
    }
    // request acceptance: accept-set x grpc-encoding x (flag, payload)
    let payloads: Vec<(u8, Option<Enc>, bool)> = vec![(0, None, false), (1, None, false), (1, Some(Enc::Gzip), false), (1, Some(Enc::Deflate), false), (1, Some(Enc::Zstd), false), (0, Some(Enc::Gzip), false), (1, None, true), (0, None, true)];
    for accept in &subsets {
        for re in req_encodings() {
            for (flag, pc, empty) in &payloads {
                n += 1;
                for (si, shape) in Shape::ALL.iter().enumerate() {
                    if tier == Tier::Quick && n % 4 != si {
                        continue;
                    }
                    let send = subsets[(n + si) % subsets.len()].clone();
                    let offer = if n % 3 == 0 { Some(b"gzip,deflate,zstd".to_vec()) } else { None };
                    out.push(SrvCase { shape: *shape, send, accept: accept.clone(), offer, req_encoding: re.clone(), flag: *flag, payload_comp: *pc, empty: *empty, handler_md_encoding: None, trailing_flagged: false });
                }
            }
        }
    }
    out
}

// ---------------------------------------------------------------------------------------------
// the same negotiation when the server sits behind the grpc-web layer

#[derive(Clone, Debug)]
struct WebCase {
    send: Vec<Enc>,
    offer: Option<Vec<u8>>,
    text: bool,
}

fn web_body(c: &WebCase, ch: &Chooser) -> Outcome {
    use tower_layer::Layer;
    let script = Script { initial_md: vec![], msgs: vec![RESP_MSG.to_vec()], end: None, handler_err: false, bidi: BidiMode::ReadAll, disable_compression: false, exact_hint: false };
    let (mut server, log) = new_server(script, ch, false);
    for e in &c.send {
        server = server.send_compressed(tonic_enc(*e));
    }
    let mut svc = tonic_web::GrpcWebLayer::new().layer(server);
    let frame = wire::encode_frame(0, &REQ_MSG);
    let (ct, body) = if c.text { ("application/grpc-web-text", crate::oracle::b64::encode(&frame, true).into_bytes()) } else { ("application/grpc-web+proto", frame) };
    let mut b = http::Request::builder().method(http::Method::POST).uri(Shape::Unary.path()).version(http::Version::HTTP_11).header("content-type", ct).header("accept", ct);
    if let Some(v) = &c.offer {
        b = b.header("grpc-accept-encoding", HeaderValue::from_bytes(v).unwrap());
    }
    let req = b.body(ScriptBody::new(body, None, Chunking::Fixed(vec![]), ch)).unwrap();
    let resp = match spin_block_on(svc.call(req), 100_000) {
        Ok(Ok(r)) => r,
        _ => {
            let mut o = Outcome::new("STALLED");
            o.violate("stall", "grpc-web call did not complete");
            return o;
        }
    };
    let (parts, rbody) = resp.into_parts();
    let rc = collect_body(rbody, 100_000);
    let log = log.lock().unwrap().clone();
    let raw = rc.bytes();
    let bytes = if c.text { crate::oracle::b64::decode_concat(&raw).unwrap_or_default() } else { raw };
    let mut o = Outcome::new(format!("hdr[{}] body={} handler_calls={}", fmt_headers(&parts.headers), hex(&bytes), log.calls));
    o.nontrivial = !c.send.is_empty();
    if log.calls != 1 {
        o.violate("web-handler-calls", format!("{} handler calls", log.calls));
        return o;
    }
    let (frames, _) = wire::parse_frames(&bytes, &[0, 1, 0x80]);
    let announced = parts.headers.get("grpc-encoding").map(|v| v.as_bytes().to_vec());
    match announced {
        Some(v) if v != b"identity" => match std::str::from_utf8(&v).ok().and_then(Enc::from_name) {
            None => o.violate("web-response-encoding-unknown", format!("{:?}", String::from_utf8_lossy(&v))),
            Some(e) => {
                if !c.send.contains(&e) {
                    o.violate("web-response-encoding-not-configured", format!("announces {} with send set {{{}}}", e.name(), names(&c.send)));
                }
                let offered = c.offer.as_ref().map(|v| tokens_liberal(v)).unwrap_or_default();
                if !offered.iter().any(|t| t == e.name()) {
                    o.violate("web-response-encoding-not-offered", format!("a grpc-web request offering {:?} was answered with grpc-encoding {}", c.offer.as_ref().map(|v| String::from_utf8_lossy(v).to_string()), e.name()));
                }
            }
        },
        _ => {
            if frames.iter().any(|f| f.flag == 1) {
                o.violate("web-response-flag-without-encoding", "a compressed-flagged frame without announced encoding");
            }
        }
    }
    o
}

// ---------------------------------------------------------------------------------------------
// client side

#[derive(Clone, Debug)]
struct CliCase {
    shape: Shape,
    send: Option<Enc>,
    accept: Vec<Enc>,
    /// response grpc-encoding header
    resp_encoding: Option<Vec<u8>>,
    resp_flag: u8,
    resp_comp: Option<Enc>,
    /// zero-length payload in the response frame
    resp_empty: bool,
    /// the response is headers-only: this grpc-status travels in the response headers, no body
    headers_only: Option<u8>,
    /// after the first call the client (or a clone of it) enables these encodings as well and
    /// calls again: what it advertises must follow
    then_accept: Vec<Enc>,
    then_via_clone: bool,
    /// before the judged call, the same client makes a call that the peer refuses with
    /// UNIMPLEMENTED and this grpc-accept-encoding value: the client's own configuration must not change
    refused_first: Option<&'static str>,
}

#[derive(Clone)]
struct Canned {
    capture: Arc<Mutex<Capture>>,
    resp_headers: HeaderMap,
    resp_body: Vec<u8>,
    headers_only: bool,
    /// the first request is answered with this headers-only response instead
    first_response: Option<HeaderMap>,
    ch: Chooser,
}

impl Service<http::Request<tonic::body::Body>> for Canned {
    type Response = http::Response<ScriptBody>;
    type Error = std::convert::Infallible;
    type Future = Pin<Box<dyn Future<Output = Result<Self::Response, Self::Error>> + Send>>;
    fn poll_ready(&mut self, _: &mut Context<'_>) -> Poll<Result<(), Self::Error>> {
        Poll::Ready(Ok(()))
    }
    fn call(&mut self, req: http::Request<tonic::body::Body>) -> Self::Future {
        let this = self.clone();
        Box::pin(async move {
            let (parts, body) = req.into_parts();
            let c = collect_body(body, 100_000);
            let nth = {
                let mut cap = this.capture.lock().unwrap();
                cap.calls += 1;
                cap.req_headers = parts.headers.clone();
                cap.req_body = c;
                cap.calls
            };
            if let (1, Some(h)) = (nth, &this.first_response) {
                let mut r = http::Response::new(ScriptBody::new(Vec::<u8>::new(), None, Chunking::Fixed(vec![]), &this.ch).with_exact_size());
                *r.headers_mut() = h.clone();
                return Ok(r);
            }
            let mut t = HeaderMap::new();
            t.insert("grpc-status", HeaderValue::from_static("0"));
            let mut r = if this.headers_only {
                http::Response::new(ScriptBody::new(Vec::<u8>::new(), None, Chunking::Fixed(vec![]), &this.ch).with_exact_size())
            } else {
                http::Response::new(ScriptBody::new(this.resp_body.clone(), Some(t), Chunking::Fixed(vec![]), &this.ch))
            };
            *r.headers_mut() = this.resp_headers.clone();
            Ok(r)
        })
    }
}

fn cli_body(c: &CliCase, ch: &Chooser) -> Outcome {
    let capture = Arc::new(Mutex::new(Capture::default()));
    let mut h = HeaderMap::new();
    h.insert("content-type", HeaderValue::from_static("application/grpc"));
    if let Some(v) = &c.resp_encoding {
        h.insert("grpc-encoding", HeaderValue::from_bytes(v).unwrap());
    }
    let payload = if c.resp_empty {
        vec![]
    } else {
        match c.resp_comp {
            Some(e) => comp::compress(e, &RESP_MSG),
            None => RESP_MSG.to_vec(),
        }
    };
    if let Some(code) = c.headers_only {
        h.insert("grpc-status", HeaderValue::from_str(&code.to_string()).unwrap());
    }
    let svc = Canned { capture: capture.clone(), resp_headers: h, resp_body: wire::encode_frame(c.resp_flag, &payload), headers_only: c.headers_only.is_some(), first_response: c.refused_first.map(|gae| {
        let mut h = HeaderMap::new();
        h.insert("content-type", HeaderValue::from_static("application/grpc"));
        h.insert("grpc-status", HeaderValue::from_static("12"));
        h.insert("grpc-message", HeaderValue::from_static("unsupported%20encoding"));
        if !gae.is_empty() {
            h.insert("grpc-accept-encoding", HeaderValue::from_static(gae));
        }
        h
    }), ch: ch.clone() };
    let mut client = EchoClient::new(svc);
    if let Some(e) = c.send {
        client = client.send_compressed(tonic_enc(e));
    }
    for e in &c.accept {
        client = client.accept_compressed(tonic_enc(*e));
    }
    // every other case makes its calls through a clone of the configured client
    if (c.accept.len() + c.send.is_some() as usize + c.resp_flag as usize + c.shape as usize) % 2 == 1 {
        client = client.clone();
    }
    let req_msgs = if c.shape.streams_requests() { vec![REQ_MSG.to_vec(), vec![]] } else { vec![REQ_MSG.to_vec()] };
    if c.refused_first.is_some() {
        // the refused call; what it returns is the peer's business
        if spin_block_on(client_call(&mut client, c.shape, req_msgs.clone(), &vec![], false, ch, |_| {}), 100_000).is_err() {
            let mut o = Outcome::new("STALLED");
            o.violate("stall", "the refused first call did not complete");
            return o;
        }
    }
    let view = match spin_block_on(client_call(&mut client, c.shape, req_msgs.clone(), &vec![], false, ch, |_| {}), 100_000) {
        Ok(v) => v,
        Err(_) => {
            let mut o = Outcome::new("STALLED");
            o.violate("stall", "client call did not complete");
            return o;
        }
    };
    let cap = capture.lock().unwrap().clone();
    let mut o = Outcome::new(format!("req hdr[{}] body={} | {}", fmt_headers(&cap.req_headers), hex(&cap.req_body.bytes()), fmt_view(&view)));
    o.nontrivial = c.send.is_some() || !c.accept.is_empty() || c.resp_encoding.is_some();
    // request: grpc-encoding == configured, frames flagged and compressed accordingly
    let ge = cap.req_headers.get_all("grpc-encoding").iter().map(|v| v.as_bytes().to_vec()).collect::<Vec<_>>();
    match c.send {
        None => {
            if !(ge.is_empty() || ge == vec![b"identity".to_vec()]) {
                o.violate("client-announces-unconfigured-encoding", format!("grpc-encoding {:?} with no send encoding configured", ge));
            }
        }
        Some(e) => {
            if ge != vec![e.name().as_bytes().to_vec()] {
                o.violate("client-encoding-header", format!("grpc-encoding {:?}, configured {}", ge, e.name()));
            }
        }
    }
    let (frames, end) = wire::parse_frames(&cap.req_body.bytes(), &[0, 1]);
    if end != wire::ParseEnd::Clean || frames.len() != req_msgs.len() {
        o.violate("client-request-framing", format!("{end:?}, {} frames for {} messages", frames.len(), req_msgs.len()));
    } else {
        for (i, (f, m)) in frames.iter().zip(&req_msgs).enumerate() {
            match (c.send, f.flag) {
                (None, 0) => {
                    if f.payload != *m {
                        o.violate("client-request-payload", format!("frame {i}"));
                    }
                }
                (Some(e), 1) => {
                    if comp::decompress(e, &f.payload).map(|p| p != *m).unwrap_or(true) {
                        o.violate("client-request-not-compressed-as-configured", format!("frame {i} does not decompress with {}", e.name()));
                    }
                }
                (cfg, flag) => o.violate("client-request-flag", format!("frame {i}: flag {flag} with configured send encoding {:?}", cfg.map(|e| e.name()))),
            }
        }
    }
    // grpc-accept-encoding: token set == accept set (+identity), absent when empty
    let gae = cap.req_headers.get_all("grpc-accept-encoding").iter().map(|v| v.as_bytes().to_vec()).collect::<Vec<_>>();
    if c.accept.is_empty() {
        let toks: Vec<String> = gae.iter().flat_map(|v| tokens_liberal(v)).filter(|t| t != "identity").collect();
        if !toks.is_empty() {
            o.violate("client-advertises-unaccepted", format!("grpc-accept-encoding {:?} with nothing enabled", gae));
        }
    } else {
        let mut got: Vec<String> = gae.iter().flat_map(|v| tokens_liberal(v)).filter(|t| t != "identity").collect();
        got.sort();
        got.dedup();
        let mut want: Vec<String> = c.accept.iter().map(|e| e.name().to_string()).collect();
        want.sort();
        if got != want {
            o.violate("client-advertises-wrong-set", format!("grpc-accept-encoding {:?}, enabled {{{}}}", gae.iter().map(|v| String::from_utf8_lossy(v).to_string()).collect::<Vec<_>>(), names(&c.accept)));
        }
    }
    // response handling
    let resp_neg: Result<Option<Enc>, ()> = match &c.resp_encoding {
        None => Ok(None),
        Some(v) if v == b"identity" => Ok(None),
        Some(v) => match std::str::from_utf8(v).ok().and_then(Enc::from_name) {
            Some(e) if c.accept.contains(&e) => Ok(Some(e)),
            _ => Err(()),
        },
    };
    let code = view.error.as_ref().map(|e| e.code());
    match resp_neg {
        Err(()) => {
            let lower = c.resp_encoding.as_ref().map(|v| String::from_utf8_lossy(v).trim().to_ascii_lowercase()).unwrap_or_default();
            let open = Enc::from_name(&lower).map(|e| c.accept.contains(&e)).unwrap_or(false) || lower == "identity";
            if !open && code != Some(tonic::Code::Unimplemented) {
                o.violate("client-accepts-unenabled-response-encoding", format!("response grpc-encoding {:?} not enabled (accept {{{}}}) but the call ended {:?}", c.resp_encoding.as_ref().map(|v| String::from_utf8_lossy(v).to_string()), names(&c.accept), view.error.as_ref().map(fmt_status)));
            }
        }
        Ok(_) if c.headers_only.is_some() => {
            // nothing to decode: the status in the headers decides (C02/C04's business)
        }
        Ok(neg) => {
            if c.resp_flag == 1 && neg.is_none() {
                if code != Some(tonic::Code::Internal) {
                    o.violate("client-compressed-flag-without-encoding", format!("flag=1 response without negotiated encoding ended {:?}", view.error.as_ref().map(fmt_status)));
                }
            } else if !c.resp_empty && ((c.resp_flag == 0 && c.resp_comp.is_none()) || (c.resp_flag == 1 && neg == c.resp_comp)) {
                if view.error.is_some() || view.msgs != vec![RESP_MSG.to_vec()] {
                    o.violate("client-refuses-valid-response", format!("well-formed response but caller saw {}", fmt_view(&view)));
                }
            }
        }
    }
    // a second call after the configuration grew
    if !c.then_accept.is_empty() {
        let mut client2 = if c.then_via_clone { client.clone() } else { client };
        for e in &c.then_accept {
            client2 = client2.accept_compressed(tonic_enc(*e));
        }
        if spin_block_on(client_call(&mut client2, c.shape, req_msgs.clone(), &vec![], false, ch, |_| {}), 100_000).is_err() {
            o.violate("stall", "second client call did not complete");
            return o;
        }
        let cap = capture.lock().unwrap().clone();
        let gae = cap.req_headers.get_all("grpc-accept-encoding").iter().map(|v| v.as_bytes().to_vec()).collect::<Vec<_>>();
        let mut got: Vec<String> = gae.iter().flat_map(|v| tokens_liberal(v)).filter(|t| t != "identity").collect();
        got.sort();
        got.dedup();
        let mut want: Vec<String> = c.accept.iter().chain(c.then_accept.iter()).map(|e| e.name().to_string()).collect();
        want.sort();
        want.dedup();
        o.obs.push_str(&format!(" | second call advertises {:?}", got));
        if cap.calls != 2 + c.refused_first.is_some() as u32 {
            o.violate("client-second-call-missing", format!("{} requests were sent for two calls", cap.calls));
        } else if got != want {
            o.violate("client-advertises-wrong-set", format!("after enabling {{{}}} on top of {{{}}} (on {}), the next request carries grpc-accept-encoding {:?}", names(&c.then_accept), names(&c.accept), if c.then_via_clone { "a clone" } else { "the same client" }, gae.iter().map(|v| String::from_utf8_lossy(v).to_string()).collect::<Vec<_>>()));
        }
    }
    o
}

fn cli_cases(_tier: Tier) -> Vec<CliCase> {
    let mut out = vec![];
    let subsets = ordered_subsets();
    let resp: Vec<(Option<Vec<u8>>, u8, Option<Enc>, bool)> = vec![
        (None, 1, None, true),
        (Some(b"identity".to_vec()), 1, None, true),
        (None, 0, None, false),
        (None, 1, Some(Enc::Gzip), false),
        (None, 1, None, false),
        (Some(b"identity".to_vec()), 0, None, false),
        (Some(b"identity".to_vec()), 1, Some(Enc::Gzip), false),
        (Some(b"gzip".to_vec()), 1, Some(Enc::Gzip), false),
        (Some(b"gzip".to_vec()), 0, None, false),
        (Some(b"deflate".to_vec()), 1, Some(Enc::Deflate), false),
        (Some(b"zstd".to_vec()), 1, Some(Enc::Zstd), false),
        (Some(b"GZIP".to_vec()), 1, Some(Enc::Gzip), false),
        (Some(b"br".to_vec()), 0, None, false),
        (Some(vec![0xfc]), 0, None, false),
    ];
    let mut n = 0;
    for send in [None, Some(Enc::Gzip), Some(Enc::Deflate), Some(Enc::Zstd)] {
        for accept in &subsets {
            for (re, flag, comp, empty) in &resp {
                n += 1;
                let shape = Shape::ALL[n % 4];
                out.push(CliCase { shape, send, accept: accept.clone(), resp_encoding: re.clone(), resp_flag: *flag, resp_comp: *comp, resp_empty: *empty, headers_only: None, then_accept: vec![], then_via_clone: false, refused_first: None });
                // the same announcement on a headers-only response (status in the headers, no body)
                if re.is_some() && *flag == 0 {
                    for code in [0u8, 5] {
                        out.push(CliCase { shape, send, accept: accept.clone(), resp_encoding: re.clone(), resp_flag: 0, resp_comp: None, resp_empty: true, headers_only: Some(code), then_accept: vec![], then_via_clone: false, refused_first: None });
                    }
                }
            }
        }
    }
    // a refusal by the peer must not reconfigure the client: the next call is made as configured
    for send in [Some(Enc::Gzip), Some(Enc::Deflate), Some(Enc::Zstd), None] {
        for accept in [vec![], vec![Enc::Gzip], vec![Enc::Zstd, Enc::Deflate]] {
            for gae in ["", "identity", "gzip", "deflate,zstd", "identity,br"] {
                n += 1;
                out.push(CliCase { shape: Shape::ALL[n % 4], send, accept: accept.clone(), resp_encoding: None, resp_flag: 0, resp_comp: None, resp_empty: false, headers_only: None, then_accept: vec![], then_via_clone: false, refused_first: Some(gae) });
            }
        }
    }
    // reconfiguration between two calls
    for accept in &subsets {
        for extra in [vec![Enc::Gzip], vec![Enc::Zstd, Enc::Deflate]] {
            for via_clone in [false, true] {
                n += 1;
                out.push(CliCase { shape: Shape::ALL[n % 4], send: None, accept: accept.clone(), resp_encoding: None, resp_flag: 0, resp_comp: None, resp_empty: false, headers_only: None, then_accept: extra.clone(), then_via_clone: via_clone, refused_first: None });
            }
        }
    }
    out
}

pub fn property(tier: Tier) -> Property {
    let srv = Section::new(
        "server",
        Config::default(),
        "cases: generated server with every ordered subset of {gzip,deflate,zstd} enabled for sending (16) x request grpc-accept-encoding from a menu (absent, empty, identity, unknown tokens, upper-case, obs-text, near-miss tokens, every ordered subset joined with ',' / ', ' / ' ,', with identity / unknown tokens added) x call shape; and every ordered accept subset (16) x request grpc-encoding {absent, identity, gzip, deflate, zstd, GZIP, br, obs-text, empty, ' gzip'} x first frame {flag 0 raw, flag 1 raw, flag 1 compressed with each encoding, flag 0 compressed} x shape (quick: each (set, header) pair with one rotating shape); plus handler response metadata that carries a grpc-encoding entry of its own while an encoding is negotiated; plus a second request frame flagged as compressed behind a valid first one with nothing negotiated. Oracle: announced response encoding must be in the send set and offered (token match modulo space and ASCII case), flag-1 payloads decompress with it, no announcement => all flags 0; request naming nothing enabled => UNIMPLEMENTED + grpc-accept-encoding == enabled set; flag 1 without negotiated encoding => INTERNAL; well-formed => handler sees the message. Non-trivial = any encoding configured/announced or flag 1.",
        srv_cases(tier),
        |c: &SrvCase| format!("{:?} send={{{}}} accept={{{}}} offer={:?} grpc-encoding={:?} flag={} payload_comp={:?} empty={} handler_md_encoding={:?} trailing_flagged={}", c.shape, names(&c.send), names(&c.accept), c.offer.as_ref().map(|v| String::from_utf8_lossy(v).to_string()), c.req_encoding.as_ref().map(|v| String::from_utf8_lossy(v).to_string()), c.flag, c.payload_comp.map(|e| e.name()), c.empty, c.handler_md_encoding, c.trailing_flagged),
        srv_body,
    )
    .mins(1000, 20, 200);
    let cli = Section::new(
        "client",
        Config::default(),
        "cases: generated client with send_compressed in {none, each} x every ordered accept subset (16) (every other case through a clone of the configured client) x scripted response (grpc-encoding absent/identity/gzip/deflate/zstd/GZIP/br/obs-text; flag 0/1; payload compressed or not; also as a headers-only response carrying grpc-status 0 / 5 in its headers) with a rotating call shape, plus two-call sequences in which the client, or a clone of it, enables further encodings between the calls, or in which the peer refuses a first call with UNIMPLEMENTED and a grpc-accept-encoding of its own (the next call must still be made exactly as configured); oracle: request grpc-encoding == configured (absent if none) and frames flagged/compressed accordingly, grpc-accept-encoding token set == accept set (+identity) and absent when empty, a response encoding that is not enabled => UNIMPLEMENTED, flag 1 without encoding => INTERNAL, well-formed responses are delivered. Non-trivial = any encoding configured or announced.",
        cli_cases(tier),
        |c: &CliCase| format!("{:?} send={:?} accept={{{}}} resp-encoding={:?} flag={} comp={:?} headers_only={:?} then_accept={{{}}} via_clone={} refused_first={:?}", c.shape, c.send.map(|e| e.name()), names(&c.accept), c.resp_encoding.as_ref().map(|v| String::from_utf8_lossy(v).to_string()), c.resp_flag, c.resp_comp.map(|e| e.name()), c.headers_only, names(&c.then_accept), c.then_via_clone, c.refused_first),
        cli_body,
    )
    .mins(500, 20, 200);
    let mut wcases = vec![];
    for send in ordered_subsets() {
        for offer in [None, Some(b"identity".to_vec()), Some(b"zstd".to_vec()), Some(b"gzip".to_vec()), Some(b"deflate,gzip".to_vec()), Some(b"br".to_vec())] {
            for text in [false, true] {
                wcases.push(WebCase { send: send.clone(), offer: offer.clone(), text });
            }
        }
    }
    let web = Section::new(
        "server-behind-grpc-web",
        Config::default(),
        "cases: the generated server behind GrpcWebLayer with every ordered send subset (16) x grpc-web (binary / text) unary requests whose grpc-accept-encoding is absent / identity / zstd / gzip / deflate,gzip / br; oracle: an announced response encoding must be in the send set AND offered by the client itself (the layer must not negotiate on its behalf); no flag-1 frame without announcement. Non-trivial = some send encoding configured.",
        wcases,
        |c: &WebCase| format!("send={{{}}} offer={:?} text={}", names(&c.send), c.offer.as_ref().map(|v| String::from_utf8_lossy(v).to_string()), c.text),
        web_body,
    )
    .mins(100, 4, 50);
    Property {
        id: "C05",
        level: "exploration",
        hang_is_violation: false,
        assumptions: vec![
            "token matching uses the liberal reading (optional whitespace, ASCII case-insensitive) so that a stricter implementation never alarms".into(),
            "whether an eligible encoding must be used is left open (the statement only restricts when compression may be used)".into(),
        ],
        sections: vec![srv, cli, web],
        extra: Default::default(),
    }
}
