//! C20 — rich error details round-trip through a status.
//!
//! Three explorations (pure input enumerations):
//!
//! * `set-roundtrip` — every subset of the ten standard kinds built with the `ErrorDetails` API,
//! * `vec-roundtrip` — every short sequence (with repeats) built as `Vec<ErrorDetail>`,
//!   both: `with_error_details[_vec][_and_metadata]` -> `add_header` -> raw
//!   `grpc-status-details-bin` decoded by the hand-written base64 + protobuf readers below ->
//!   `from_header_map` -> all fourteen `StatusExt` getters, compared field-wise with a
//!   reference value (`RD`) that never passed through tonic-types,
//! * `decode` — details blobs tonic did not produce: blobs from the hand-written protobuf
//!   *encoder* (canonical, reordered fields, unknown fields, unknown / misspelt type URLs,
//!   garbage payloads), every truncation and single-byte substitution of valid blobs, every byte
//!   string of length <= 2.
//!
//! The protobuf wire reader/writer and the message layouts are written from
//! google/rpc/status.proto, google/rpc/error_details.proto, google/protobuf/{any,duration}.proto.

use super::c04::{code_name, code_num, CODES};
use crate::env::{fmt_headers, hex};
use crate::explore::{Chooser, Config, Outcome};
use crate::oracle::{b64, pct};
use crate::report::{Property, Section, Tier};
use bytes::Bytes;
use http::HeaderMap;
use std::collections::{BTreeMap, HashMap};
use std::panic::{catch_unwind, AssertUnwindSafe};
use std::time::Duration;
use tonic::metadata::{MetadataMap, MetadataValue};
use tonic::Status;
use tonic_types::{
    BadRequest, DebugInfo, ErrorDetail, ErrorDetails, ErrorInfo, FieldViolation, Help, HelpLink, LocalizedMessage,
    PreconditionFailure, PreconditionViolation, QuotaFailure, QuotaViolation, RequestInfo, ResourceInfo, RetryInfo,
    StatusExt,
};

// ---------------------------------------------------------------------------------------------
// reference values
// ---------------------------------------------------------------------------------------------

const KINDS: [&str; 10] = [
    "RetryInfo", "DebugInfo", "QuotaFailure", "ErrorInfo", "PreconditionFailure", "BadRequest", "RequestInfo",
    "ResourceInfo", "Help", "LocalizedMessage",
];

fn type_url(kind: usize) -> String {
    format!("type.googleapis.com/google.rpc.{}", KINDS[kind])
}

/// Reference detail: plain data, field for field as in error_details.proto.
#[derive(Clone, Debug, PartialEq, Eq)]
enum RD {
    /// retry_delay (seconds, nanos)
    Retry(Option<(u64, u32)>),
    /// stack_entries, detail
    Debug(Vec<String>, String),
    /// violations (subject, description)
    Quota(Vec<(String, String)>),
    /// reason, domain, metadata
    ErrInfo(String, String, BTreeMap<String, String>),
    /// violations (type, subject, description)
    Precond(Vec<(String, String, String)>),
    /// field_violations (field, description)
    BadReq(Vec<(String, String)>),
    /// request_id, serving_data
    ReqInfo(String, String),
    /// resource_type, resource_name, owner, description
    ResInfo(String, String, String, String),
    /// links (description, url)
    Help(Vec<(String, String)>),
    /// locale, message
    Loc(String, String),
}

impl RD {
    fn kind(&self) -> usize {
        match self {
            RD::Retry(..) => 0,
            RD::Debug(..) => 1,
            RD::Quota(..) => 2,
            RD::ErrInfo(..) => 3,
            RD::Precond(..) => 4,
            RD::BadReq(..) => 5,
            RD::ReqInfo(..) => 6,
            RD::ResInfo(..) => 7,
            RD::Help(..) => 8,
            RD::Loc(..) => 9,
        }
    }
}

fn s(x: &str) -> String {
    x.to_string()
}

const NVALS: [usize; 10] = [4, 3, 3, 3, 3, 3, 3, 3, 3, 3];

/// Per kind a small value menu: all-default, ordinary, and awkward (empty strings inside
/// repeated fields, non-ASCII, control characters, strings >= 128 bytes so that length prefixes
/// need two bytes, 0/1/2/3 repeated entries, map with empty key).
fn menu(kind: usize, v: usize) -> RD {
    let long = format!("{}€", "x".repeat(200));
    match (kind, v % NVALS[kind]) {
        (0, 0) => RD::Retry(None),
        (0, 1) => RD::Retry(Some((0, 0))),
        (0, 2) => RD::Retry(Some((0, 1))),
        (0, _) => RD::Retry(Some((315_576_000_000, 999_999_999))),
        (1, 0) => RD::Debug(vec![], s("")),
        (1, 1) => RD::Debug(vec![s("frame a"), s("é\n\0")], s("detail %41 \"q\"")),
        (1, _) => RD::Debug(vec![s("")], long),
        (2, 0) => RD::Quota(vec![]),
        (2, 1) => RD::Quota(vec![(s("clientip:1.2.3.4"), s("limit 10/s"))]),
        (2, _) => RD::Quota(vec![(s(""), s("")), (s("é"), long)]),
        (3, 0) => RD::ErrInfo(s(""), s(""), BTreeMap::new()),
        (3, 1) => RD::ErrInfo(s("API_DISABLED"), s("example.com"), [(s("k1"), s("v1")), (s("é"), s("\n"))].into_iter().collect()),
        (3, _) => RD::ErrInfo(s("r"), s(""), [(s(""), s(""))].into_iter().collect()),
        (4, 0) => RD::Precond(vec![]),
        (4, 1) => RD::Precond(vec![(s("TOS"), s("example.com/tos"), s("not accepted"))]),
        (4, _) => RD::Precond(vec![(s(""), s(""), s("")), (s("t"), s("é"), s(""))]),
        (5, 0) => RD::BadReq(vec![]),
        (5, 1) => RD::BadReq(vec![(s("field_a"), s("must not be empty"))]),
        (5, _) => RD::BadReq(vec![(s("a.b[0]"), s("")), (s(""), s("é")), (s("f"), s("d"))]),
        (6, 0) => RD::ReqInfo(s(""), s("")),
        (6, 1) => RD::ReqInfo(s("req-1"), s("serving data")),
        (6, _) => RD::ReqInfo(s("é"), s("")),
        (7, 0) => RD::ResInfo(s(""), s(""), s(""), s("")),
        (7, 1) => RD::ResInfo(s("type"), s("name"), s("owner"), s("description")),
        (7, _) => RD::ResInfo(s(""), s("n"), s(""), s("é")),
        (8, 0) => RD::Help(vec![]),
        (8, 1) => RD::Help(vec![(s("docs"), s("https://example.com/?a=b&c=%20"))]),
        (8, _) => RD::Help(vec![(s(""), s("")), (s("é"), s("u"))]),
        (9, 0) => RD::Loc(s(""), s("")),
        (9, 1) => RD::Loc(s("en-US"), s("hello")),
        (_, _) => RD::Loc(s("fr"), s("é\u{10ffff}")),
    }
}

const MSGS: [&str; 4] = ["", "bad request", "é %41 100%\n\"q\"", "xxxxxxxxxxxxxxxxxxxxxxxxxxxxxxxxxxxxxxxxxxxxxxxxxxxxxxxxxxxxxxxxxxxxxxxxxxxxxxxxxxxxxxxxxxxxxxxxxxxxxxxxxxxxxxxxxxxxxxxxxxxxxxxxxxxxxxxxxx€"];

// ---------------------------------------------------------------------------------------------
// reference <-> tonic-types values
// ---------------------------------------------------------------------------------------------

fn to_tonic(rd: &RD) -> ErrorDetail {
    match rd {
        RD::Retry(d) => RetryInfo::new(d.map(|(s, n)| Duration::new(s, n))).into(),
        RD::Debug(st, d) => DebugInfo::new(st.clone(), d.clone()).into(),
        RD::Quota(v) => QuotaFailure::new(v.iter().map(|(a, b)| QuotaViolation::new(a.clone(), b.clone())).collect::<Vec<_>>()).into(),
        RD::ErrInfo(r, d, m) => ErrorInfo::new(r.clone(), d.clone(), m.iter().map(|(k, v)| (k.clone(), v.clone())).collect::<HashMap<_, _>>()).into(),
        RD::Precond(v) => {
            PreconditionFailure::new(v.iter().map(|(a, b, c)| PreconditionViolation::new(a.clone(), b.clone(), c.clone())).collect::<Vec<_>>()).into()
        }
        RD::BadReq(v) => BadRequest::new(v.iter().map(|(a, b)| FieldViolation::new(a.clone(), b.clone())).collect::<Vec<_>>()).into(),
        RD::ReqInfo(a, b) => RequestInfo::new(a.clone(), b.clone()).into(),
        RD::ResInfo(a, b, c, d) => ResourceInfo::new(a.clone(), b.clone(), c.clone(), d.clone()).into(),
        RD::Help(v) => Help::new(v.iter().map(|(a, b)| HelpLink::new(a.clone(), b.clone())).collect::<Vec<_>>()).into(),
        RD::Loc(a, b) => LocalizedMessage::new(a.clone(), b.clone()).into(),
    }
}

fn rd_retry(x: &RetryInfo) -> RD {
    RD::Retry(x.retry_delay.map(|d| (d.as_secs(), d.subsec_nanos())))
}
fn rd_debug(x: &DebugInfo) -> RD {
    RD::Debug(x.stack_entries.clone(), x.detail.clone())
}
fn rd_quota(x: &QuotaFailure) -> RD {
    RD::Quota(x.violations.iter().map(|v| (v.subject.clone(), v.description.clone())).collect())
}
fn rd_errinfo(x: &ErrorInfo) -> RD {
    RD::ErrInfo(x.reason.clone(), x.domain.clone(), x.metadata.iter().map(|(k, v)| (k.clone(), v.clone())).collect())
}
fn rd_precond(x: &PreconditionFailure) -> RD {
    RD::Precond(x.violations.iter().map(|v| (v.r#type.clone(), v.subject.clone(), v.description.clone())).collect())
}
fn rd_badreq(x: &BadRequest) -> RD {
    RD::BadReq(x.field_violations.iter().map(|v| (v.field.clone(), v.description.clone())).collect())
}
fn rd_reqinfo(x: &RequestInfo) -> RD {
    RD::ReqInfo(x.request_id.clone(), x.serving_data.clone())
}
fn rd_resinfo(x: &ResourceInfo) -> RD {
    RD::ResInfo(x.resource_type.clone(), x.resource_name.clone(), x.owner.clone(), x.description.clone())
}
fn rd_help(x: &Help) -> RD {
    RD::Help(x.links.iter().map(|l| (l.description.clone(), l.url.clone())).collect())
}
fn rd_loc(x: &LocalizedMessage) -> RD {
    RD::Loc(x.locale.clone(), x.message.clone())
}

fn from_tonic(d: &ErrorDetail) -> RD {
    match d {
        ErrorDetail::RetryInfo(x) => rd_retry(x),
        ErrorDetail::DebugInfo(x) => rd_debug(x),
        ErrorDetail::QuotaFailure(x) => rd_quota(x),
        ErrorDetail::ErrorInfo(x) => rd_errinfo(x),
        ErrorDetail::PreconditionFailure(x) => rd_precond(x),
        ErrorDetail::BadRequest(x) => rd_badreq(x),
        ErrorDetail::RequestInfo(x) => rd_reqinfo(x),
        ErrorDetail::ResourceInfo(x) => rd_resinfo(x),
        ErrorDetail::Help(x) => rd_help(x),
        ErrorDetail::LocalizedMessage(x) => rd_loc(x),
        _ => crate::explore::machinery("ErrorDetail has a variant this check does not know"),
    }
}

/// The set view as a list in kind order.
fn from_set(d: &ErrorDetails) -> Vec<RD> {
    let mut v = vec![];
    if let Some(x) = d.retry_info() {
        v.push(rd_retry(x));
    }
    if let Some(x) = d.debug_info() {
        v.push(rd_debug(x));
    }
    if let Some(x) = d.quota_failure() {
        v.push(rd_quota(x));
    }
    if let Some(x) = d.error_info() {
        v.push(rd_errinfo(x));
    }
    if let Some(x) = d.precondition_failure() {
        v.push(rd_precond(x));
    }
    if let Some(x) = d.bad_request() {
        v.push(rd_badreq(x));
    }
    if let Some(x) = d.request_info() {
        v.push(rd_reqinfo(x));
    }
    if let Some(x) = d.resource_info() {
        v.push(rd_resinfo(x));
    }
    if let Some(x) = d.help() {
        v.push(rd_help(x));
    }
    if let Some(x) = d.localized_message() {
        v.push(rd_loc(x));
    }
    v
}

/// Build an `ErrorDetails` through its public API. `style` 1 uses the `add_*` builders for the
/// list kinds (first entry creates the detail, later ones append).
fn build_set(rds: &[RD], style: u8) -> ErrorDetails {
    let mut d = ErrorDetails::new();
    for rd in rds {
        match rd {
            RD::Retry(x) => {
                d.set_retry_info(x.map(|(s, n)| Duration::new(s, n)));
            }
            RD::Debug(st, de) => {
                d.set_debug_info(st.clone(), de.clone());
            }
            RD::Quota(v) => {
                if style == 1 && !v.is_empty() {
                    for (a, b) in v {
                        d.add_quota_failure_violation(a.clone(), b.clone());
                    }
                } else {
                    d.set_quota_failure(v.iter().map(|(a, b)| QuotaViolation::new(a.clone(), b.clone())).collect::<Vec<_>>());
                }
            }
            RD::ErrInfo(r, dm, m) => {
                d.set_error_info(r.clone(), dm.clone(), m.iter().map(|(k, v)| (k.clone(), v.clone())).collect::<HashMap<_, _>>());
            }
            RD::Precond(v) => {
                if style == 1 && !v.is_empty() {
                    for (a, b, c) in v {
                        d.add_precondition_failure_violation(a.clone(), b.clone(), c.clone());
                    }
                } else {
                    d.set_precondition_failure(v.iter().map(|(a, b, c)| PreconditionViolation::new(a.clone(), b.clone(), c.clone())).collect::<Vec<_>>());
                }
            }
            RD::BadReq(v) => {
                if style == 1 && !v.is_empty() {
                    for (a, b) in v {
                        d.add_bad_request_violation(a.clone(), b.clone());
                    }
                } else {
                    d.set_bad_request(v.iter().map(|(a, b)| FieldViolation::new(a.clone(), b.clone())).collect::<Vec<_>>());
                }
            }
            RD::ReqInfo(a, b) => {
                d.set_request_info(a.clone(), b.clone());
            }
            RD::ResInfo(a, b, c, e) => {
                d.set_resource_info(a.clone(), b.clone(), c.clone(), e.clone());
            }
            RD::Help(v) => {
                if style == 1 && !v.is_empty() {
                    for (a, b) in v {
                        d.add_help_link(a.clone(), b.clone());
                    }
                } else {
                    d.set_help(v.iter().map(|(a, b)| HelpLink::new(a.clone(), b.clone())).collect::<Vec<_>>());
                }
            }
            RD::Loc(a, b) => {
                d.set_localized_message(a.clone(), b.clone());
            }
        }
    }
    d
}

// ---------------------------------------------------------------------------------------------
// protobuf wire format, by hand (encoding.md): reader and writer
// ---------------------------------------------------------------------------------------------

fn put_varint(mut v: u64, out: &mut Vec<u8>) {
    loop {
        let b = (v & 0x7f) as u8;
        v >>= 7;
        if v == 0 {
            out.push(b);
            return;
        }
        out.push(b | 0x80);
    }
}

fn put_len(field: u32, payload: &[u8], out: &mut Vec<u8>) {
    put_varint(((field as u64) << 3) | 2, out);
    put_varint(payload.len() as u64, out);
    out.extend_from_slice(payload);
}

/// proto3 scalar string: omitted when empty.
fn put_str(field: u32, v: &str, out: &mut Vec<u8>) {
    if !v.is_empty() {
        put_len(field, v.as_bytes(), out);
    }
}

fn put_int(field: u32, v: u64, out: &mut Vec<u8>) {
    if v != 0 {
        put_varint((field as u64) << 3, out);
        put_varint(v, out);
    }
}

#[derive(Debug, Clone, PartialEq)]
enum W<'a> {
    Varint(u64),
    Len(&'a [u8]),
    Fixed(usize),
}

#[derive(Debug, Clone, PartialEq)]
enum Bad {
    /// Not a protobuf message under any reading: truncated, length past the end, wire type 6/7,
    /// field number 0, varint longer than ten bytes.
    Malformed(String),
    /// Constructs on which decoders legitimately differ (groups, wrong wire type for a known
    /// field, invalid UTF-8, negative durations, ...): this oracle gives no opinion.
    Unsure(String),
}

fn get_varint(buf: &[u8], pos: &mut usize) -> Result<u64, Bad> {
    let mut v: u64 = 0;
    for i in 0..10 {
        let Some(b) = buf.get(*pos) else { return Err(Bad::Malformed("truncated varint".into())) };
        *pos += 1;
        if i == 9 && *b > 1 {
            return Err(Bad::Unsure("varint overflows 64 bits".into()));
        }
        v |= ((*b & 0x7f) as u64) << (7 * i);
        if *b & 0x80 == 0 {
            return Ok(v);
        }
    }
    Err(Bad::Malformed("varint longer than 10 bytes".into()))
}

fn parse(buf: &[u8]) -> Result<Vec<(u32, W<'_>)>, Bad> {
    let mut pos = 0;
    let mut out = vec![];
    while pos < buf.len() {
        let key = get_varint(buf, &mut pos)?;
        if key > u32::MAX as u64 {
            return Err(Bad::Unsure("tag wider than 32 bits".into()));
        }
        let field = (key >> 3) as u32;
        if field == 0 {
            return Err(Bad::Malformed("field number 0".into()));
        }
        match key & 7 {
            0 => out.push((field, W::Varint(get_varint(buf, &mut pos)?))),
            1 => {
                if buf.len() - pos < 8 {
                    return Err(Bad::Malformed("truncated fixed64".into()));
                }
                pos += 8;
                out.push((field, W::Fixed(8)));
            }
            2 => {
                let len = get_varint(buf, &mut pos)?;
                if len > (buf.len() - pos) as u64 {
                    return Err(Bad::Malformed("length-delimited field runs past the end".into()));
                }
                out.push((field, W::Len(&buf[pos..pos + len as usize])));
                pos += len as usize;
            }
            5 => {
                if buf.len() - pos < 4 {
                    return Err(Bad::Malformed("truncated fixed32".into()));
                }
                pos += 4;
                out.push((field, W::Fixed(4)));
            }
            3 | 4 => return Err(Bad::Unsure("group".into())),
            _ => return Err(Bad::Malformed("wire type 6/7".into())),
        }
    }
    Ok(out)
}

fn as_str(w: &W<'_>, what: &str) -> Result<String, Bad> {
    match w {
        W::Len(b) => String::from_utf8(b.to_vec()).map_err(|_| Bad::Unsure(format!("{what}: invalid UTF-8"))),
        _ => Err(Bad::Unsure(format!("{what}: wrong wire type"))),
    }
}

fn as_msg<'a>(w: &W<'a>, what: &str) -> Result<&'a [u8], Bad> {
    match w {
        W::Len(b) => Ok(b),
        _ => Err(Bad::Unsure(format!("{what}: wrong wire type"))),
    }
}

fn as_int(w: &W<'_>, what: &str) -> Result<u64, Bad> {
    match w {
        W::Varint(v) => Ok(*v),
        _ => Err(Bad::Unsure(format!("{what}: wrong wire type"))),
    }
}

/// A nested message that is itself malformed makes the whole thing undecodable for a decoder
/// that knows the schema.
fn parse_nested<'a>(b: &'a [u8]) -> Result<Vec<(u32, W<'a>)>, Bad> {
    parse(b)
}

/// Message with only string fields 1..=n (later occurrence of a field wins).
fn strings_n(b: &[u8], n: u32, what: &str) -> Result<Vec<String>, Bad> {
    let mut v = vec![String::new(); n as usize];
    for (f, w) in parse_nested(b)? {
        if (1..=n).contains(&f) {
            v[(f - 1) as usize] = as_str(&w, what)?;
        }
    }
    Ok(v)
}

fn decode_rd(kind: usize, b: &[u8]) -> Result<RD, Bad> {
    let fields = parse(b)?;
    Ok(match kind {
        0 => {
            // RetryInfo { google.protobuf.Duration retry_delay = 1 { int64 seconds = 1; int32 nanos = 2 } }
            let mut d: Option<(i64, i32)> = None;
            for (f, w) in fields {
                if f == 1 {
                    let (mut sec, mut nanos) = d.unwrap_or((0, 0));
                    for (g, x) in parse_nested(as_msg(&w, "retry_delay")?)? {
                        match g {
                            1 => sec = as_int(&x, "seconds")? as i64,
                            2 => nanos = as_int(&x, "nanos")? as i64 as i32,
                            _ => {}
                        }
                    }
                    d = Some((sec, nanos));
                }
            }
            match d {
                None => RD::Retry(None),
                Some((sec, n)) if sec >= 0 && (0..1_000_000_000).contains(&n) => RD::Retry(Some((sec as u64, n as u32))),
                Some(_) => return Err(Bad::Unsure("negative or denormal duration".into())),
            }
        }
        1 => {
            let (mut st, mut de) = (vec![], String::new());
            for (f, w) in fields {
                match f {
                    1 => st.push(as_str(&w, "stack_entries")?),
                    2 => de = as_str(&w, "detail")?,
                    _ => {}
                }
            }
            RD::Debug(st, de)
        }
        2 => {
            let mut v = vec![];
            for (f, w) in fields {
                if f == 1 {
                    let s = strings_n(as_msg(&w, "violations")?, 2, "QuotaFailure.Violation")?;
                    v.push((s[0].clone(), s[1].clone()));
                }
            }
            RD::Quota(v)
        }
        3 => {
            let (mut r, mut d, mut m) = (String::new(), String::new(), BTreeMap::new());
            for (f, w) in fields {
                match f {
                    1 => r = as_str(&w, "reason")?,
                    2 => d = as_str(&w, "domain")?,
                    3 => {
                        let s = strings_n(as_msg(&w, "metadata")?, 2, "ErrorInfo.MetadataEntry")?;
                        m.insert(s[0].clone(), s[1].clone());
                    }
                    _ => {}
                }
            }
            RD::ErrInfo(r, d, m)
        }
        4 => {
            let mut v = vec![];
            for (f, w) in fields {
                if f == 1 {
                    let s = strings_n(as_msg(&w, "violations")?, 3, "PreconditionFailure.Violation")?;
                    v.push((s[0].clone(), s[1].clone(), s[2].clone()));
                }
            }
            RD::Precond(v)
        }
        5 => {
            let mut v = vec![];
            for (f, w) in fields {
                if f == 1 {
                    let s = strings_n(as_msg(&w, "field_violations")?, 2, "BadRequest.FieldViolation")?;
                    v.push((s[0].clone(), s[1].clone()));
                }
            }
            RD::BadReq(v)
        }
        6 => {
            let s = strings_n(b, 2, "RequestInfo")?;
            RD::ReqInfo(s[0].clone(), s[1].clone())
        }
        7 => {
            let s = strings_n(b, 4, "ResourceInfo")?;
            RD::ResInfo(s[0].clone(), s[1].clone(), s[2].clone(), s[3].clone())
        }
        8 => {
            let mut v = vec![];
            for (f, w) in fields {
                if f == 1 {
                    let s = strings_n(as_msg(&w, "links")?, 2, "Help.Link")?;
                    v.push((s[0].clone(), s[1].clone()));
                }
            }
            RD::Help(v)
        }
        _ => {
            let s = strings_n(b, 2, "LocalizedMessage")?;
            RD::Loc(s[0].clone(), s[1].clone())
        }
    })
}

fn encode_rd(rd: &RD) -> Vec<u8> {
    let mut o = vec![];
    match rd {
        RD::Retry(d) => {
            if let Some((sec, n)) = d {
                let mut du = vec![];
                put_int(1, *sec, &mut du);
                put_int(2, *n as u64, &mut du);
                put_len(1, &du, &mut o);
            }
        }
        RD::Debug(st, de) => {
            for x in st {
                put_len(1, x.as_bytes(), &mut o);
            }
            put_str(2, de, &mut o);
        }
        RD::Quota(v) | RD::BadReq(v) | RD::Help(v) => {
            for (a, b) in v {
                let mut m = vec![];
                put_str(1, a, &mut m);
                put_str(2, b, &mut m);
                put_len(1, &m, &mut o);
            }
        }
        RD::ErrInfo(r, d, m) => {
            put_str(1, r, &mut o);
            put_str(2, d, &mut o);
            for (k, v) in m {
                let mut en = vec![];
                put_str(1, k, &mut en);
                put_str(2, v, &mut en);
                put_len(3, &en, &mut o);
            }
        }
        RD::Precond(v) => {
            for (a, b, c) in v {
                let mut m = vec![];
                put_str(1, a, &mut m);
                put_str(2, b, &mut m);
                put_str(3, c, &mut m);
                put_len(1, &m, &mut o);
            }
        }
        RD::ReqInfo(a, b) | RD::Loc(a, b) => {
            put_str(1, a, &mut o);
            put_str(2, b, &mut o);
        }
        RD::ResInfo(a, b, c, d) => {
            put_str(1, a, &mut o);
            put_str(2, b, &mut o);
            put_str(3, c, &mut o);
            put_str(4, d, &mut o);
        }
    }
    o
}

fn encode_any(url: &str, value: &[u8]) -> Vec<u8> {
    let mut a = vec![];
    put_str(1, url, &mut a);
    if !value.is_empty() {
        put_len(2, value, &mut a);
    }
    a
}

/// google.rpc.Status { int32 code = 1; string message = 2; repeated google.protobuf.Any details = 3 }
fn encode_status(code: i32, msg: &str, anys: &[Vec<u8>]) -> Vec<u8> {
    let mut o = vec![];
    put_int(1, code as u64, &mut o);
    put_str(2, msg, &mut o);
    for a in anys {
        put_len(3, a, &mut o);
    }
    o
}

struct RpcStatus {
    code: i32,
    message: String,
    /// (type_url, value)
    details: Vec<(String, Vec<u8>)>,
}

fn decode_status(b: &[u8]) -> Result<RpcStatus, Bad> {
    let mut st = RpcStatus { code: 0, message: String::new(), details: vec![] };
    for (f, w) in parse(b)? {
        match f {
            1 => st.code = as_int(&w, "code")? as i64 as i32,
            2 => st.message = as_str(&w, "message")?,
            3 => {
                let (mut url, mut val) = (String::new(), vec![]);
                for (g, x) in parse_nested(as_msg(&w, "details")?)? {
                    match g {
                        1 => url = as_str(&x, "type_url")?,
                        2 => val = as_msg(&x, "value")?.to_vec(),
                        _ => {}
                    }
                }
                st.details.push((url, val));
            }
            _ => {}
        }
    }
    Ok(st)
}

fn kind_of_url(url: &str) -> Option<usize> {
    (0..10).find(|k| type_url(*k) == url)
}

// ---------------------------------------------------------------------------------------------
// judging
// ---------------------------------------------------------------------------------------------

fn show(v: &[RD]) -> String {
    crate::explore::truncate(&format!("{v:?}"), 500)
}

/// Classify the difference between an expected and an observed detail list.
fn diff(api: &str, want: &[RD], got: &[RD]) -> Option<(String, String)> {
    if want == got {
        return None;
    }
    let key = if want.len() != got.len() {
        format!("{api}:count")
    } else if want.iter().map(RD::kind).ne(got.iter().map(RD::kind)) {
        format!("{api}:kinds-or-order")
    } else {
        let i = want.iter().zip(got).position(|(a, b)| a != b).unwrap_or(0);
        format!("{api}:value:{}", KINDS[want[i].kind()])
    };
    Some((key, format!("{api}: expected {} got {}", show(want), show(got))))
}

fn call<T>(o: &mut Outcome, name: &str, f: impl FnOnce() -> T) -> Option<T> {
    match catch_unwind(AssertUnwindSafe(f)) {
        Ok(v) => Some(v),
        Err(_) => {
            o.violate(format!("getter-panic:{name}"), format!("{name} panicked"));
            None
        }
    }
}

/// The ten `get_details_*` getters, as (kind, result).
fn single_getters(o: &mut Outcome, st: &Status) -> Vec<(usize, Option<RD>)> {
    let mut v = vec![];
    if let Some(x) = call(o, "get_details_retry_info", || st.get_details_retry_info()) {
        v.push((0, x.as_ref().map(rd_retry)));
    }
    if let Some(x) = call(o, "get_details_debug_info", || st.get_details_debug_info()) {
        v.push((1, x.as_ref().map(rd_debug)));
    }
    if let Some(x) = call(o, "get_details_quota_failure", || st.get_details_quota_failure()) {
        v.push((2, x.as_ref().map(rd_quota)));
    }
    if let Some(x) = call(o, "get_details_error_info", || st.get_details_error_info()) {
        v.push((3, x.as_ref().map(rd_errinfo)));
    }
    if let Some(x) = call(o, "get_details_precondition_failure", || st.get_details_precondition_failure()) {
        v.push((4, x.as_ref().map(rd_precond)));
    }
    if let Some(x) = call(o, "get_details_bad_request", || st.get_details_bad_request()) {
        v.push((5, x.as_ref().map(rd_badreq)));
    }
    if let Some(x) = call(o, "get_details_request_info", || st.get_details_request_info()) {
        v.push((6, x.as_ref().map(rd_reqinfo)));
    }
    if let Some(x) = call(o, "get_details_resource_info", || st.get_details_resource_info()) {
        v.push((7, x.as_ref().map(rd_resinfo)));
    }
    if let Some(x) = call(o, "get_details_help", || st.get_details_help()) {
        v.push((8, x.as_ref().map(rd_help)));
    }
    if let Some(x) = call(o, "get_details_localized_message", || st.get_details_localized_message()) {
        v.push((9, x.as_ref().map(rd_loc)));
    }
    v
}

/// An error type of somebody else's that has a tonic status as its source.
#[derive(Debug)]
struct LayerError(Box<Status>);
impl std::fmt::Display for LayerError {
    fn fmt(&self, f: &mut std::fmt::Formatter<'_>) -> std::fmt::Result {
        write!(f, "layer error")
    }
}
impl std::error::Error for LayerError {
    fn source(&self) -> Option<&(dyn std::error::Error + 'static)> {
        Some(&*self.0)
    }
}
fn clone_status(s: &Status) -> Status {
    Status::with_details_and_metadata(s.code(), s.message(), Bytes::copy_from_slice(s.details()), s.metadata().clone())
}

/// Write `status` to headers, judge the raw details blob independently, read it back.
/// `want` = the details in the order attached; `ordered` = whether the wire order is part of the
/// expectation (list API) or not (set API).
fn through_headers(o: &mut Outcome, obs: &mut String, status: &Status, code: i32, msg: &str, want: &[RD], ordered: bool) -> Option<Status> {
    let mut h = HeaderMap::new();
    if let Err(e) = status.add_header(&mut h) {
        o.violate("add-header-err", format!("add_header refused the status: {e:?}"));
        return None;
    }
    // the outer status as an independent reader sees it
    let outer_code = h.get("grpc-status").and_then(|v| std::str::from_utf8(v.as_bytes()).ok()).and_then(|s| s.parse::<i32>().ok());
    let outer_msg = match h.get("grpc-message") {
        None => Some(String::new()),
        Some(v) => pct::decode_strict(v.as_bytes()).ok(),
    };
    if outer_code != Some(code) || outer_msg.as_deref() != Some(msg) {
        o.violate("outer-status-changed", format!("outer status on the wire is code {outer_code:?} message {outer_msg:?}, attached {code} {msg:?}"));
    }
    // an absent header is an empty blob (code OK, empty message, no details encodes to zero
    // bytes); whether that is what was attached is decided by the comparison below
    let raw = h.get("grpc-status-details-bin").map(|v| v.as_bytes().to_vec()).unwrap_or_default();
    match b64::decode(&raw) {
        Err(e) => o.violate("wire:details-not-base64", format!("grpc-status-details-bin is not base64: {e}")),
        Ok(blob) => match decode_status(&blob) {
            Err(e) => o.violate("wire:details-not-protobuf", format!("details blob {} is not a google.rpc.Status: {e:?}", hex(&blob))),
            Ok(st) => {
                obs.push_str(&format!(" wire={{code={} msg={:?} urls={:?}}}", st.code, crate::explore::truncate(&st.message, 40), st.details.iter().map(|(u, _)| u.rsplit('.').next().unwrap_or("").to_string()).collect::<Vec<_>>()));
                if st.code != code {
                    o.violate("embedded-code-mismatch", format!("embedded google.rpc.Status.code = {}, outer status code = {} ({})", st.code, code, code_name(code)));
                }
                if st.message != msg {
                    o.violate("embedded-message-mismatch", format!("embedded google.rpc.Status.message = {:?}, outer message = {:?}", st.message, msg));
                }
                let mut got = vec![];
                for (url, val) in &st.details {
                    match kind_of_url(url) {
                        None => o.violate("wire:type-url", format!("detail with type_url {url:?}, which is none of the ten standard type URLs")),
                        Some(k) => match decode_rd(k, val) {
                            Ok(rd) => got.push(rd),
                            Err(e) => o.violate(format!("wire:payload:{}", KINDS[k]), format!("{} payload {} does not parse: {e:?}", KINDS[k], hex(val))),
                        },
                    }
                }
                let mut w = want.to_vec();
                if !ordered {
                    w.sort_by_key(RD::kind);
                    got.sort_by_key(RD::kind);
                }
                if let Some((k, d)) = diff("wire", &w, &got) {
                    o.violate(k, d);
                }
            }
        },
    }
    match Status::from_header_map(&h) {
        None => {
            o.violate("readback-none", format!("from_header_map returned None for [{}]", fmt_headers(&h)));
            None
        }
        Some(b) => {
            if code_num(b.code()) != code || b.message() != msg {
                o.violate("outer-status-changed", format!("read back as {:?} {:?}, attached {} {msg:?}", b.code(), b.message(), code_name(code)));
            }
            Some(b)
        }
    }
}

/// Judge all fourteen getters of `back` against the attached details.
fn judge_getters(o: &mut Outcome, obs: &mut String, back: &Status, want: &[RD], ordered: bool) {
    // list view
    let lists = [
        ("check_error_details_vec", call(o, "check_error_details_vec", || back.check_error_details_vec().map_err(|e| e.to_string()))),
        ("get_error_details_vec", call(o, "get_error_details_vec", || Ok(back.get_error_details_vec()))),
    ];
    for (name, r) in lists {
        match r {
            None => {}
            Some(Err(e)) => o.violate(format!("{name}:err"), format!("{name} failed on a status produced by tonic-types itself: {e}")),
            Some(Ok(v)) => {
                let mut got: Vec<RD> = v.iter().map(from_tonic).collect();
                let mut w = want.to_vec();
                if !ordered {
                    w.sort_by_key(RD::kind);
                    got.sort_by_key(RD::kind);
                }
                if name == "check_error_details_vec" {
                    obs.push_str(&format!(" vec={}", got.iter().map(|r| KINDS[r.kind()]).collect::<Vec<_>>().join(",")));
                }
                if let Some((k, d)) = diff(name, &w, &got) {
                    o.violate(k, d);
                }
            }
        }
    }
    // set view: a kind is present iff it was attached; its value is (one of) the attached one(s)
    let sets = [
        ("check_error_details", call(o, "check_error_details", || back.check_error_details().map_err(|e| e.to_string()))),
        ("get_error_details", call(o, "get_error_details", || Ok(back.get_error_details()))),
    ];
    for (name, r) in sets {
        match r {
            None => {}
            Some(Err(e)) => o.violate(format!("{name}:err"), format!("{name} failed on a status produced by tonic-types itself: {e}")),
            Some(Ok(d)) => {
                let got = from_set(&d);
                if name == "check_error_details" {
                    obs.push_str(&format!(" set={}", got.iter().map(|r| KINDS[r.kind()]).collect::<Vec<_>>().join(",")));
                }
                for k in 0..10 {
                    let cands: Vec<&RD> = want.iter().filter(|r| r.kind() == k).collect();
                    let g = got.iter().find(|r| r.kind() == k);
                    match (cands.is_empty(), g) {
                        (true, None) => {}
                        (true, Some(x)) => o.violate(format!("{name}:invented:{}", KINDS[k]), format!("{name}: {} present although never attached: {x:?}", KINDS[k])),
                        (false, None) => o.violate(format!("{name}:lost:{}", KINDS[k]), format!("{name}: attached {} is missing", KINDS[k])),
                        (false, Some(x)) => {
                            if !cands.contains(&x) {
                                o.violate(format!("{name}:value:{}", KINDS[k]), format!("{name}: {} came back as {x:?}, attached {cands:?}", KINDS[k]));
                            }
                        }
                    }
                }
            }
        }
    }
    // single getters
    let singles = single_getters(o, back);
    let mut present = String::new();
    for (k, g) in singles {
        let cands: Vec<&RD> = want.iter().filter(|r| r.kind() == k).collect();
        let name = format!("get_details:{}", KINDS[k]);
        present.push(if g.is_some() { '1' } else { '0' });
        match (cands.is_empty(), g) {
            (true, None) => {}
            (true, Some(x)) => o.violate(format!("{name}:invented"), format!("{name} returned {x:?} although none was attached")),
            (false, None) => o.violate(format!("{name}:lost"), format!("{name} returned None, attached {cands:?}")),
            (false, Some(x)) => {
                if !cands.contains(&&x) {
                    o.violate(format!("{name}:value"), format!("{name} returned {x:?}, attached {cands:?}"));
                }
            }
        }
    }
    obs.push_str(&format!(" singles={present}"));
}

fn test_metadata() -> MetadataMap {
    let mut md = MetadataMap::new();
    md.insert("a", MetadataValue::from_static("v"));
    md.insert_bin("a-bin", MetadataValue::from_bytes(&[0x00, 0xff]));
    md
}

fn judge_metadata(o: &mut Outcome, back: &Status, with_md: bool) {
    let a = back.metadata().get("a").map(|v| v.as_bytes().to_vec());
    let b = back.metadata().get_bin("a-bin").map(|v| b64::decode(v.as_encoded_bytes()));
    let ok = if with_md { a.as_deref() == Some(b"v") && b == Some(Ok(vec![0x00, 0xff])) && back.metadata().len() == 2 } else { back.metadata().is_empty() };
    if !ok {
        o.violate("metadata-changed", format!("status metadata after the round trip: {:?} (attached: {})", back.metadata(), if with_md { "a=v, a-bin=00ff" } else { "none" }));
    }
}

// ---------------------------------------------------------------------------------------------
// section 1: ErrorDetails (set API)
// ---------------------------------------------------------------------------------------------

#[derive(Clone, Debug)]
struct SetCase {
    mask: u16,
    /// 0..=2: that value index for every kind; 3: kind-dependent mix
    var: u8,
    code: u8,
    msg: u8,
    md: bool,
    style: u8,
}

fn set_details(c: &SetCase) -> Vec<RD> {
    (0..10).filter(|k| c.mask & (1 << k) != 0).map(|k| menu(k, if c.var == 3 { k + 1 + (c.mask as usize % 3) } else { c.var as usize })).collect()
}

fn set_cases(tier: Tier) -> Vec<SetCase> {
    let mut out = vec![];
    let mut i = 0usize;
    for mask in 0..1024u16 {
        for var in 0..4u8 {
            for md in [false, true] {
                for style in [0u8, 1] {
                    if tier == Tier::Thorough {
                        for code in 0..17u8 {
                            for msg in 0..MSGS.len() as u8 {
                                out.push(SetCase { mask, var, code, msg, md, style });
                            }
                        }
                    } else {
                        out.push(SetCase { mask, var, code: (i % 17) as u8, msg: ((i / 17) % MSGS.len()) as u8, md, style });
                        i += 1;
                    }
                }
            }
        }
    }
    out
}

fn set_body(c: &SetCase, _ch: &Chooser) -> Outcome {
    let want = set_details(c);
    let code = CODES[c.code as usize].0;
    let msg = MSGS[c.msg as usize];
    let details = build_set(&want, c.style);
    let status = if c.md {
        Status::with_error_details_and_metadata(code, msg, details, test_metadata())
    } else {
        Status::with_error_details(code, msg, details)
    };
    let mut o = Outcome::new("");
    o.nontrivial = !want.is_empty();
    let mut obs = String::new();
    if let Some(back) = through_headers(&mut o, &mut obs, &status, c.code as i32, msg, &want, false) {
        judge_getters(&mut o, &mut obs, &back, &want, false);
        // the same status reaching tonic as the source of another error (a tower layer's error type)
        {
            let wrapped: Box<dyn std::error::Error + Send + Sync> = Box::new(LayerError(Box::new(clone_status(&status))));
            let seen = Status::from_error(wrapped);
            let before = o.violations.len();
            judge_getters(&mut o, &mut obs, &seen, &want, false);
            for v in o.violations.iter_mut().skip(before) {
                v.0 = format!("wrapped-in-layer-error:{}", v.0);
            }
        }
        //  the same headers as a peer that PADS its base64 would send them (receivers must accept both)
        {
            let mut h = HeaderMap::new();
            if status.add_header(&mut h).is_ok() {
                if let Some(v) = h.get("grpc-status-details-bin").cloned() {
                    let mut padded = v.as_bytes().to_vec();
                    while padded.len() % 4 != 0 {
                        padded.push(b'=');
                    }
                    h.insert("grpc-status-details-bin", http::HeaderValue::from_bytes(&padded).unwrap());
                    match Status::from_header_map(&h) {
                        None => o.violate("padded-peer:readback-none", "from_header_map returned None"),
                        Some(seen) => {
                            let before = o.violations.len();
                            judge_getters(&mut o, &mut obs, &seen, &want, false);
                            for v in o.violations.iter_mut().skip(before) {
                                v.0 = format!("padded-peer:{}", v.0);
                            }
                        }
                    }
                }
            }
        }
        // the same status as a unary caller receives it when the peer had already sent its response
        // headers (status in the trailers): the details must come out of the getters just the same
        if c.code != 0 {
            match super::c04::unary_error_after_headers(status.clone()) {
                Err(why) => o.violate("unary-caller:status-lost", why),
                Ok(seen) => {
                    let before = o.violations.len();
                    judge_getters(&mut o, &mut obs, &seen, &want, false);
                    for v in o.violations.iter_mut().skip(before) {
                        v.0 = format!("unary-caller:{}", v.0);
                    }
                }
            }
        }
        judge_metadata(&mut o, &back, c.md);
    }
    o.obs = obs;
    o
}

// ---------------------------------------------------------------------------------------------
// section 2: Vec<ErrorDetail> (list API)
// ---------------------------------------------------------------------------------------------

#[derive(Clone, Debug)]
struct VecCase {
    items: Vec<(u8, u8)>,
    code: u8,
    msg: u8,
    md: bool,
}

fn vec_cases(tier: Tier) -> Vec<VecCase> {
    let nv = tier.q(2usize, 3);
    let symbols: Vec<(u8, u8)> = (0..10u8).flat_map(|k| (1..=nv as u8).map(move |v| (k, v))).collect();
    let mut seqs: Vec<Vec<(u8, u8)>> = vec![vec![]];
    let mut frontier: Vec<Vec<(u8, u8)>> = vec![vec![]];
    for _ in 0..3 {
        let mut next = vec![];
        for s in &frontier {
            for sym in &symbols {
                let mut t = s.clone();
                t.push(*sym);
                next.push(t);
            }
        }
        seqs.extend(next.iter().cloned());
        frontier = next;
    }
    // a few longer ones: all ten kinds forward, backward, each kind four times
    seqs.push((0..10u8).map(|k| (k, 1)).collect());
    seqs.push((0..10u8).rev().map(|k| (k, 2)).collect());
    seqs.push((0..10u8).map(|k| (k, 0)).collect());
    for k in 0..10u8 {
        seqs.push(vec![(k, 0), (k, 1), (k, 2), (k, 1)]);
    }
    if tier == Tier::Thorough {
        // every sequence of length 4 over the kinds (one value each, rotating)
        for a in 0..10u8 {
            for b in 0..10u8 {
                for c in 0..10u8 {
                    for d in 0..10u8 {
                        seqs.push(vec![(a, 1), (b, 2), (c, 0), (d, 1)]);
                    }
                }
            }
        }
    }
    let mut out = vec![];
    for (i, s) in seqs.into_iter().enumerate() {
        out.push(VecCase { items: s.clone(), code: (i % 17) as u8, msg: ((i / 17) % MSGS.len()) as u8, md: i % 2 == 1 });
        if tier == Tier::Thorough {
            out.push(VecCase { items: s, code: ((i + 5) % 17) as u8, msg: ((i / 17 + 1) % MSGS.len()) as u8, md: i % 2 == 0 });
        }
    }
    out
}

fn vec_body(c: &VecCase, _ch: &Chooser) -> Outcome {
    let want: Vec<RD> = c.items.iter().map(|(k, v)| menu(*k as usize, *v as usize)).collect();
    let code = CODES[c.code as usize].0;
    let msg = MSGS[c.msg as usize];
    let list: Vec<ErrorDetail> = want.iter().map(to_tonic).collect();
    let status = if c.md {
        Status::with_error_details_vec_and_metadata(code, msg, list, test_metadata())
    } else {
        Status::with_error_details_vec(code, msg, list)
    };
    let mut o = Outcome::new("");
    let mut kinds: Vec<usize> = want.iter().map(RD::kind).collect();
    kinds.sort();
    let sorted = want.iter().map(RD::kind).collect::<Vec<_>>() == kinds;
    kinds.dedup();
    // order or multiplicity matters
    o.nontrivial = !sorted || kinds.len() != want.len();
    let mut obs = String::new();
    if let Some(back) = through_headers(&mut o, &mut obs, &status, c.code as i32, msg, &want, true) {
        judge_getters(&mut o, &mut obs, &back, &want, true);
        // the same status reaching tonic as the source of another error (a tower layer's error type)
        {
            let wrapped: Box<dyn std::error::Error + Send + Sync> = Box::new(LayerError(Box::new(clone_status(&status))));
            let seen = Status::from_error(wrapped);
            let before = o.violations.len();
            judge_getters(&mut o, &mut obs, &seen, &want, true);
            for v in o.violations.iter_mut().skip(before) {
                v.0 = format!("wrapped-in-layer-error:{}", v.0);
            }
        }
        //  the same headers as a peer that PADS its base64 would send them (receivers must accept both)
        {
            let mut h = HeaderMap::new();
            if status.add_header(&mut h).is_ok() {
                if let Some(v) = h.get("grpc-status-details-bin").cloned() {
                    let mut padded = v.as_bytes().to_vec();
                    while padded.len() % 4 != 0 {
                        padded.push(b'=');
                    }
                    h.insert("grpc-status-details-bin", http::HeaderValue::from_bytes(&padded).unwrap());
                    match Status::from_header_map(&h) {
                        None => o.violate("padded-peer:readback-none", "from_header_map returned None"),
                        Some(seen) => {
                            let before = o.violations.len();
                            judge_getters(&mut o, &mut obs, &seen, &want, true);
                            for v in o.violations.iter_mut().skip(before) {
                                v.0 = format!("padded-peer:{}", v.0);
                            }
                        }
                    }
                }
            }
        }
        // the same status as a unary caller receives it when the peer had already sent its response
        // headers (status in the trailers): the details must come out of the getters just the same
        if c.code != 0 {
            match super::c04::unary_error_after_headers(status.clone()) {
                Err(why) => o.violate("unary-caller:status-lost", why),
                Ok(seen) => {
                    let before = o.violations.len();
                    judge_getters(&mut o, &mut obs, &seen, &want, true);
                    for v in o.violations.iter_mut().skip(before) {
                        v.0 = format!("unary-caller:{}", v.0);
                    }
                }
            }
        }
        judge_metadata(&mut o, &back, c.md);
    }
    o.obs = obs;
    o
}

// ---------------------------------------------------------------------------------------------
// section 3: decode side
// ---------------------------------------------------------------------------------------------

#[derive(Clone, Debug)]
enum DecExpect {
    /// blob written by the independent encoder: these details, in this order, must come out
    Exactly(Vec<RD>),
    /// like `Exactly`, but the listed kinds carry an undecodable payload: they must not come out
    /// of any getter; everything else is error-or-empty
    Garbage(Vec<usize>),
    /// arbitrary bytes: no panic, error-or-empty when not a protobuf message, getters consistent
    Arbitrary,
}

#[derive(Clone, Debug)]
struct DecCase {
    origin: &'static str,
    blob: Vec<u8>,
    expect: DecExpect,
}

fn any_of(rd: &RD) -> Vec<u8> {
    encode_any(&type_url(rd.kind()), &encode_rd(rd))
}

fn dec_cases(tier: Tier) -> Vec<DecCase> {
    let mut out = vec![];
    // (a) foreign encoder, canonical layout: every (kind, value) alone, all ten, repeats
    let mut lists: Vec<Vec<RD>> = vec![vec![]];
    for k in 0..10 {
        for v in 0..NVALS[k] {
            lists.push(vec![menu(k, v)]);
        }
    }
    for v in 0..3 {
        lists.push((0..10).map(|k| menu(k, v)).collect());
        lists.push((0..10).rev().map(|k| menu(k, v + 1)).collect());
    }
    lists.push(vec![menu(5, 1), menu(0, 3), menu(5, 2), menu(8, 2), menu(5, 1)]);
    for (i, l) in lists.iter().enumerate() {
        let anys: Vec<Vec<u8>> = l.iter().map(any_of).collect();
        let code = (i % 17) as i32;
        out.push(DecCase { origin: "foreign-canonical", blob: encode_status(code, MSGS[i % 4], &anys), expect: DecExpect::Exactly(l.clone()) });
        // fields in another order, unknown fields of every skippable wire type in between
        let mut b = vec![];
        for a in &anys {
            put_len(3, a, &mut b);
            put_varint((15 << 3) | 0, &mut b);
            put_varint(300, &mut b);
        }
        put_len(2, MSGS[i % 4].as_bytes(), &mut b);
        put_varint((1000 << 3) | 5, &mut b);
        b.extend_from_slice(&[1, 2, 3, 4]);
        put_varint((16 << 3) | 1, &mut b);
        b.extend_from_slice(&[1, 2, 3, 4, 5, 6, 7, 8]);
        put_len(17, b"unknown", &mut b);
        put_varint(1 << 3, &mut b);
        put_varint(code as u64, &mut b);
        out.push(DecCase { origin: "foreign-reordered-unknown-fields", blob: b, expect: DecExpect::Exactly(l.clone()) });
        // a detail of a type this library does not know, and misspelt type URLs, in between
        let mut anys2 = vec![encode_any("type.googleapis.com/google.rpc.Nope", &[0xff, 0xff, 0xff])];
        for a in &anys {
            anys2.push(a.clone());
            anys2.push(encode_any("type.googleapis.com/google.rpc.retryinfo", &[0x0a]));
            anys2.push(encode_any("google.rpc.BadRequest", &[0x0a]));
            anys2.push(encode_any("", &[]));
            anys2.push(encode_any("type.googleapis.com/google.rpc.Help ", &[0x0a]));
        }
        out.push(DecCase { origin: "foreign-unknown-type-urls", blob: encode_status(code, "m", &anys2), expect: DecExpect::Exactly(l.clone()) });
    }
    // (b) a standard type URL carrying a payload that is not a protobuf message
    for k in 0..10 {
        for junk in [&[0xffu8][..], &[0x0a, 0x05, 0x01], &[0x0a], &[0x07], &[0x00, 0x00]] {
            let good = menu((k + 1) % 10, 1);
            for pos in 0..2 {
                let bad = encode_any(&type_url(k), junk);
                let anys = if pos == 0 { vec![bad, any_of(&good)] } else { vec![any_of(&good), bad] };
                out.push(DecCase { origin: "garbage-payload", blob: encode_status(3, "m", &anys), expect: DecExpect::Garbage(vec![k]) });
            }
        }
    }
    // (c) every truncation and single-byte substitution of valid blobs
    let mut bases: Vec<Vec<u8>> = vec![
        encode_status(3, "bad", &(0..10).map(|k| any_of(&menu(k, 1))).collect::<Vec<_>>()),
        encode_status(14, "", &[any_of(&menu(0, 3)), any_of(&menu(5, 2)), any_of(&menu(5, 1)), any_of(&menu(8, 2))]),
        encode_status(0, "only a message", &[]),
    ];
    if tier == Tier::Thorough {
        for k in 0..10 {
            bases.push(encode_status(5, "m", &[any_of(&menu(k, 2))]));
        }
    }
    let subs: [u8; 6] = [0x00, 0x01, 0x0a, 0x7f, 0x80, 0xff];
    for base in &bases {
        for p in 0..base.len() {
            out.push(DecCase { origin: "truncate", blob: base[..p].to_vec(), expect: DecExpect::Arbitrary });
            for sub in subs {
                if base[p] != sub {
                    let mut m = base.clone();
                    m[p] = sub;
                    out.push(DecCase { origin: "substitute", blob: m, expect: DecExpect::Arbitrary });
                }
            }
            if tier == Tier::Thorough {
                let mut m = base.clone();
                m.remove(p);
                out.push(DecCase { origin: "delete", blob: m, expect: DecExpect::Arbitrary });
                let mut m = base.clone();
                m.insert(p, base[p]);
                out.push(DecCase { origin: "duplicate", blob: m, expect: DecExpect::Arbitrary });
            }
        }
    }
    // (d) every byte string of length <= 2 (thorough: and length 3 over a 12-value menu)
    out.push(DecCase { origin: "short", blob: vec![], expect: DecExpect::Arbitrary });
    for a in 0..=255u8 {
        out.push(DecCase { origin: "short", blob: vec![a], expect: DecExpect::Arbitrary });
    }
    for a in 0..=255u8 {
        for b in 0..=255u8 {
            out.push(DecCase { origin: "short", blob: vec![a, b], expect: DecExpect::Arbitrary });
        }
    }
    if tier == Tier::Thorough {
        let m: [u8; 12] = [0x00, 0x01, 0x02, 0x08, 0x0a, 0x12, 0x1a, 0x1b, 0x1c, 0x7f, 0x80, 0xff];
        for a in m {
            for b in m {
                for c in m {
                    for d in m {
                        out.push(DecCase { origin: "short", blob: vec![a, b, c, d], expect: DecExpect::Arbitrary });
                    }
                    out.push(DecCase { origin: "short", blob: vec![a, b, c], expect: DecExpect::Arbitrary });
                }
            }
        }
    }
    out
}

fn dec_body(c: &DecCase, _ch: &Chooser) -> Outcome {
    let mut o = Outcome::new("");
    let mut obs = String::new();
    // the blob travels through the header encoding like any other details
    let status = Status::with_details(tonic::Code::InvalidArgument, "m", Bytes::from(c.blob.clone()));
    let mut h = HeaderMap::new();
    let back = match status.add_header(&mut h) {
        Err(e) => {
            o.violate("add-header-err", format!("add_header refused the status: {e:?}"));
            None
        }
        Ok(()) => match catch_unwind(AssertUnwindSafe(|| Status::from_header_map(&h))) {
            Err(_) => {
                o.violate("from-header-map-panic", "from_header_map panicked");
                None
            }
            Ok(None) => {
                o.violate("readback-none", "from_header_map returned None");
                None
            }
            Ok(Some(b)) => {
                if b.details() != &c.blob[..] {
                    o.violate("details-changed", format!("details {} came back as {}", hex(&c.blob), hex(b.details())));
                }
                Some(b)
            }
        },
    };
    let Some(back) = back else {
        o.obs = "no status".into();
        return o;
    };
    // independent opinion on the blob
    let verdict = decode_status(&c.blob);
    let outer_malformed = matches!(verdict, Err(Bad::Malformed(_)));
    obs.push_str(&match &verdict {
        Ok(st) => format!("oracle=parsed({} details)", st.details.len()),
        Err(Bad::Malformed(w)) => format!("oracle=malformed({w})"),
        Err(Bad::Unsure(w)) => format!("oracle=unsure({w})"),
    });
    o.nontrivial = !matches!(c.expect, DecExpect::Exactly(_)) && (verdict.is_err() || matches!(c.expect, DecExpect::Garbage(_)))
        || matches!(&c.expect, DecExpect::Exactly(l) if !l.is_empty());

    let chk_vec = call(&mut o, "check_error_details_vec", || back.check_error_details_vec().map(|v| v.iter().map(from_tonic).collect::<Vec<_>>()).map_err(|e| e.to_string()));
    let get_vec = call(&mut o, "get_error_details_vec", || back.get_error_details_vec().iter().map(from_tonic).collect::<Vec<_>>());
    let chk_set = call(&mut o, "check_error_details", || back.check_error_details().map(|d| from_set(&d)).map_err(|e| e.to_string()));
    let get_set = call(&mut o, "get_error_details", || from_set(&back.get_error_details()));
    let singles = single_getters(&mut o, &back);
    let fmt_kinds = |v: &[RD]| v.iter().map(|r| KINDS[r.kind()]).collect::<Vec<_>>().join(",");
    obs.push_str(&format!(
        " check_vec={} get_vec=[{}] check_set={} get_set=[{}] singles={}",
        match &chk_vec {
            Some(Ok(v)) => format!("Ok[{}]", fmt_kinds(v)),
            Some(Err(_)) => "Err".into(),
            None => "PANIC".into(),
        },
        get_vec.as_deref().map(fmt_kinds).unwrap_or_else(|| "PANIC".into()),
        match &chk_set {
            Some(Ok(v)) => format!("Ok[{}]", fmt_kinds(v)),
            Some(Err(_)) => "Err".into(),
            None => "PANIC".into(),
        },
        get_set.as_deref().map(fmt_kinds).unwrap_or_else(|| "PANIC".into()),
        singles.iter().map(|(_, g)| if g.is_some() { '1' } else { '0' }).collect::<String>(),
    ));

    // 1. get_* is check_* with errors turned into "empty"
    if let (Some(chk), Some(get)) = (&chk_vec, &get_vec) {
        let want = chk.clone().unwrap_or_default();
        if &want != get {
            o.violate("get-vec-inconsistent", format!("check_error_details_vec = {:?} but get_error_details_vec = {}", chk.as_ref().map(|v| show(v)), show(get)));
        }
    }
    if let (Some(chk), Some(get)) = (&chk_set, &get_set) {
        let want = chk.clone().unwrap_or_default();
        if &want != get {
            o.violate("get-set-inconsistent", format!("check_error_details = {:?} but get_error_details = {}", chk.as_ref().map(|v| show(v)), show(get)));
        }
    }
    // 2. bytes that are not a protobuf message: an error or an empty result from every getter
    if outer_malformed {
        if let Some(Ok(v)) = &chk_vec {
            if !v.is_empty() {
                o.violate("undecodable-yields-details:check_error_details_vec", format!("blob {} is not a protobuf message but check_error_details_vec returned {}", hex(&c.blob), show(v)));
            }
        }
        if let Some(Ok(v)) = &chk_set {
            if !v.is_empty() {
                o.violate("undecodable-yields-details:check_error_details", format!("blob {} is not a protobuf message but check_error_details returned {}", hex(&c.blob), show(v)));
            }
        }
        for (k, g) in &singles {
            if let Some(x) = g {
                o.violate(format!("undecodable-yields-details:get_details:{}", KINDS[*k]), format!("blob {} is not a protobuf message but the getter returned {x:?}", hex(&c.blob)));
            }
        }
    }
    match &c.expect {
        DecExpect::Arbitrary => {}
        DecExpect::Garbage(bad_kinds) => {
            // the ordered list cannot be produced (one of its elements is undecodable): an error or an
            // empty result, not a shorter list that silently leaves the undecodable detail out
            if let Some(Ok(v)) = &chk_vec {
                if !v.is_empty() {
                    o.violate("undecodable-detail-silently-dropped:check_error_details_vec", format!("one detail's payload is not a protobuf message, yet check_error_details_vec returned Ok with {} detail(s) [{}]", v.len(), fmt_kinds(v)));
                }
            }
            if let Some(v) = &get_vec {
                if !v.is_empty() {
                    o.violate("undecodable-detail-silently-dropped:get_error_details_vec", format!("one detail's payload is not a protobuf message, yet get_error_details_vec returned {} detail(s) [{}]", v.len(), fmt_kinds(v)));
                }
            }
            for k in bad_kinds {
                let in_vec = matches!(&chk_vec, Some(Ok(v)) if v.iter().any(|r| r.kind() == *k));
                let in_set = matches!(&chk_set, Some(Ok(v)) if v.iter().any(|r| r.kind() == *k));
                let in_single = singles.iter().any(|(kk, g)| kk == k && g.is_some());
                if in_vec || in_set || in_single {
                    o.violate(format!("garbage-payload-decoded:{}", KINDS[*k]), format!("the {} payload is not a protobuf message but a getter returned a {} (vec {in_vec}, set {in_set}, single {in_single})", KINDS[*k], KINDS[*k]));
                }
            }
        }
        DecExpect::Exactly(want) => {
            match &chk_vec {
                Some(Ok(got)) => {
                    if let Some((k, d)) = diff("foreign:check_error_details_vec", want, got) {
                        o.violate(k, d);
                    }
                }
                Some(Err(e)) => o.violate("foreign:check_error_details_vec:err", format!("valid blob from an independent encoder rejected: {e}")),
                None => {}
            }
            match &chk_set {
                Some(Ok(got)) => {
                    for k in 0..10 {
                        let cands: Vec<&RD> = want.iter().filter(|r| r.kind() == k).collect();
                        let g = got.iter().find(|r| r.kind() == k);
                        let ok = match g {
                            None => cands.is_empty(),
                            Some(x) => cands.contains(&x),
                        };
                        if !ok {
                            o.violate(format!("foreign:check_error_details:{}", KINDS[k]), format!("set view of {}: got {g:?}, attached {cands:?}", KINDS[k]));
                        }
                    }
                }
                Some(Err(e)) => o.violate("foreign:check_error_details:err", format!("valid blob from an independent encoder rejected: {e}")),
                None => {}
            }
            for (k, g) in &singles {
                let cands: Vec<&RD> = want.iter().filter(|r| r.kind() == *k).collect();
                let ok = match g {
                    None => cands.is_empty(),
                    Some(x) => cands.contains(&x),
                };
                if !ok {
                    o.violate(format!("foreign:get_details:{}", KINDS[*k]), format!("single getter of {}: got {g:?}, attached {cands:?}", KINDS[*k]));
                }
            }
        }
    }
    o.obs = obs;
    o
}

// ---------------------------------------------------------------------------------------------

/// The hand-written encoder and decoder must at least agree with each other on the menu,
/// otherwise the oracle itself is broken (machinery error, not a verdict).
fn self_check() {
    for k in 0..10 {
        for v in 0..NVALS[k] {
            let rd = menu(k, v);
            match decode_rd(k, &encode_rd(&rd)) {
                Ok(back) if back == rd => {}
                other => crate::explore::machinery_exit(&format!("C20 oracle self-check failed for {rd:?}: {other:?}")),
            }
        }
    }
}

// ---- RetryInfo delays around every boundary of the protobuf Duration range ---------------------

fn retry_body(d: &(u64, u32), _ch: &Chooser) -> Outcome {
    use tonic_types::{ErrorDetail, ErrorDetails, RetryInfo, StatusExt};
    let delay = Duration::new(d.0, d.1);
    let mut o = Outcome::new("");
    let mut seen = vec![];
    for via_vec in [false, true] {
        let st = if via_vec {
            tonic::Status::with_error_details_vec(tonic::Code::Unavailable, "retry", vec![RetryInfo::new(Some(delay)).into()])
        } else {
            tonic::Status::with_error_details(tonic::Code::Unavailable, "retry", ErrorDetails::with_retry_info(Some(delay)))
        };
        let mut h = http::HeaderMap::new();
        if st.add_header(&mut h).is_err() {
            o.violate("retry-add-header", "add_header failed");
            continue;
        }
        let Some(back) = tonic::Status::from_header_map(&h) else {
            o.violate("retry-from-header-map", "no status read back");
            continue;
        };
        let got = if via_vec {
            back.get_error_details_vec().into_iter().find_map(|e| match e {
                ErrorDetail::RetryInfo(r) => Some(r.retry_delay),
                _ => None,
            })
        } else {
            back.get_details_retry_info().map(|r| r.retry_delay)
        };
        seen.push(format!("{got:?}"));
        if got != Some(Some(delay)) {
            o.violate(
                if via_vec { "retry-delay-changed:vec" } else { "retry-delay-changed:set" },
                format!("RetryInfo delay {delay:?} came back as {got:?} after the header round trip"),
            );
        }
    }
    o.obs = format!("{delay:?} -> {seen:?}");
    o.nontrivial = d.0 > 0 || d.1 > 0;
    o
}

fn retry_cases() -> Vec<(u64, u32)> {
    let mut out = vec![];
    // the protobuf Duration range ends at 315 576 000 000 s (+ 999 999 999 ns)
    for s in [0u64, 1, 59, 60, 3600, u32::MAX as u64, u32::MAX as u64 + 1, 315_575_999_999, 315_576_000_000] {
        for n in [0u32, 1, 999, 1_000, 500_000_000, 999_999_998, 999_999_999] {
            out.push((s, n));
        }
    }
    out
}

pub fn property(tier: Tier) -> Property {
    self_check();
    let cfg = Config { max_bound: 0, panic_key: "panic", hang_secs: 60, ..Default::default() };
    let set = Section::new(
        "set-roundtrip",
        cfg.clone(),
        "cases: every subset of the ten standard kinds (1024) x value variant {all-default, ordinary, awkward, mixed} (RetryInfo in {None, 0, 1 ns, 315 576 000 000.999999999 s}; 0..3 violations/links; empty/non-ASCII/control/200+-byte strings; ErrorInfo.metadata with 0/1/2 entries incl. empty key) x with/without metadata x {set_*, add_*} builders; code and message rotate over 17 codes x 4 messages [thorough: full product]. Path: with_error_details[_and_metadata] -> add_header -> hand-written base64+protobuf reader of grpc-status-details-bin (embedded code/message == outer, type URLs, field values) -> from_header_map -> check_/get_error_details, check_/get_error_details_vec, ten get_details_*; the getters are judged again on the status found by Status::from_error behind a foreign error type's source(), on the status read from the same headers with the details value base64-PADDED (a peer that pads), and on the status a unary caller receives when the peer sends it in trailers after response headers. Non-trivial = at least one detail attached",
        set_cases(tier),
        |c: &SetCase| format!("kinds={:?} var={} code={} msg={:?} md={} style={}", (0..10).filter(|k| c.mask & (1 << k) != 0).map(|k| KINDS[k]).collect::<Vec<_>>(), c.var, code_name(c.code as i32), crate::explore::truncate(MSGS[c.msg as usize], 30), c.md, c.style),
        set_body,
    )
    .mins(tier.q(16_000, 1_000_000), 1000, 1000);

    let vecs = Section::new(
        "vec-roundtrip",
        cfg.clone(),
        "cases: every sequence of length <= 3 over 10 kinds x 2 [thorough 3] non-default values incl. repeats, plus all ten kinds forward/backward, each kind four times in a row [thorough: every length-4 sequence of kinds]; code, message, metadata rotate. Path: with_error_details_vec[_and_metadata] -> add_header -> independent reader -> from_header_map -> all fourteen getters. Oracle: same kinds, same order, field-wise equal values (list view); set view and single getters: present iff attached and equal to one of the attached values of that kind. Non-trivial = the sequence is not sorted by kind or repeats a kind",
        vec_cases(tier),
        |c: &VecCase| format!("seq={:?} code={} msg={:?} md={}", c.items.iter().map(|(k, v)| format!("{}#{v}", KINDS[*k as usize])).collect::<Vec<_>>(), code_name(c.code as i32), crate::explore::truncate(MSGS[c.msg as usize], 30), c.md),
        vec_body,
    )
    .mins(8000, 1000, 1000);

    let retry = Section::new(
        "retry-delay",
        Config::default(),
        "cases: RetryInfo delays at every boundary of the protobuf Duration range: seconds in {0,1,59,60,3600,2^32-1,2^32,315575999999,315576000000} x nanos in {0,1,999,1000,5e8,999999998,999999999}, attached through the set API and the list API, through add_header/from_header_map; the recovered delay must be equal. Non-trivial = non-zero delay.",
        retry_cases(),
        |d: &(u64, u32)| format!("{}s+{}ns", d.0, d.1),
        retry_body,
    )
    .mins(50, 20, 50);
    let dec = Section::new(
        "decode",
        cfg,
        "cases: details blobs not produced by tonic-types, carried through add_header/from_header_map: (a) blobs from the hand-written protobuf encoder — canonical, with reordered fields and unknown fields of wire types 0/1/2/5, with unknown and misspelt type URLs interleaved — which must decode to exactly the encoded details; (b) standard type URL with a payload that is not a protobuf message, before/after a good detail: that kind must not come out of any getter, and the list getters give an error / an empty list, not a shorter list; (c) every truncation and every single-byte substitution over {00,01,0a,7f,80,ff} of three valid blobs [thorough: thirteen, plus deletions/duplications]; (d) every byte string of length <= 2 [thorough: and lengths 3-4 over a 12-value menu]. Oracle for (c)/(d): no panic; get_* == check_*.unwrap_or_default(); when the hand-written reader finds the bytes are not a protobuf message at all, every getter returns an error or nothing. Non-trivial = blob not parseable by the independent reader, or a garbage payload, or a non-empty foreign blob",
        dec_cases(tier),
        |c: &DecCase| format!("{} blob={} expect={}", c.origin, crate::explore::truncate(&hex(&c.blob), 300), match &c.expect { DecExpect::Exactly(l) => format!("exactly {}", show(l)), DecExpect::Garbage(k) => format!("garbage kinds {k:?}"), DecExpect::Arbitrary => "arbitrary".into() }),
        dec_body,
    )
    .mins(60_000, 20, 1000);

    Property {
        id: "C20",
        level: "exploration",
        hang_is_violation: false,
        assumptions: vec![
            "field values outside the per-kind menus are not covered; durations are within the protobuf range as the property states".into(),
            "wire order of details attached through the set API is not constrained (compared as a set)".into(),
            "with repeated kinds in a list, the set view and the single getters may return any of the attached values of that kind".into(),
            "for mutated blobs that are still well-formed protobuf the decoded values are recorded, not judged".into(),
            "prost is the decoder under test; the reference reader/writer is written by hand from the .proto files".into(),
        ],
        sections: vec![set, vecs, dec, retry],
        extra: Default::default(),
    }
}
