//! C07 — hostile or truncated input ends a stream with one error, never a hang or panic.

use super::codec_common::*;
use crate::env::{fmt_status, hex, BodyEnd, Chunking, ScriptBody};
use crate::explore::{Chooser, Config, Outcome};
use crate::oracle::comp::{self, Enc};
use crate::oracle::wire::{self, ParseEnd};
use crate::report::{Property, Section, Tier};
use bytes::Bytes;
use http::{HeaderMap, HeaderValue, StatusCode};
use std::pin::Pin;
use std::task::{Context, Poll, Waker};
use tokio_stream::Stream;
use tonic::codec::{BufferSettings, Codec, ProstCodec, Streaming};
use tonic::Status;

#[derive(Clone, Copy, Debug, PartialEq, Eq)]
enum Dir {
    Request,
    Resp200,
    Resp400,
}

#[derive(Clone, Copy, Debug, PartialEq, Eq)]
enum Trl {
    None,
    Ok,
    NotFound,
    BadCode,
    BadDetails,
}

#[derive(Clone, Copy, Debug, PartialEq, Eq)]
enum Mode {
    /// deviation-bounded choice of every chunk (whole delivery is the 0-deviation run)
    Choose,
    Drip,
    /// the whole body as one DATA frame
    Whole,
    /// large fixed blocks
    Blocks,
}

#[derive(Clone, Debug)]
struct Case {
    input: Vec<u8>,
    prost: bool,
    enc: Option<Enc>,
    dir: Dir,
    trl: Trl,
    /// inject a body error after this many bytes
    err_at: Option<(usize, bool)>, // (offset, cancelled?)
    mode: Mode,
    origin: &'static str,
    /// receiver's message size limit (None = the 4 MiB default)
    limit: Option<usize>,
}

fn trailers(t: Trl) -> Option<HeaderMap> {
    let mut h = HeaderMap::new();
    match t {
        Trl::None => return None,
        Trl::Ok => {
            h.insert("grpc-status", HeaderValue::from_static("0"));
        }
        Trl::NotFound => {
            h.insert("grpc-status", HeaderValue::from_static("5"));
            h.insert("grpc-message", HeaderValue::from_static("nope%20"));
        }
        Trl::BadCode => {
            h.insert("grpc-status", HeaderValue::from_static("abc"));
        }
        Trl::BadDetails => {
            h.insert("grpc-status", HeaderValue::from_static("3"));
            h.insert("grpc-status-details-bin", HeaderValue::from_static("!!!*"));
        }
    }
    Some(h)
}

/// Independent reference: the longest prefix of correctly framed, decodable messages.
fn valid_prefix(c: &Case) -> (Vec<Vec<u8>>, bool) {
    let upto = c.err_at.map(|(o, _)| o.min(c.input.len())).unwrap_or(c.input.len());
    let (frames, end) = wire::parse_frames(&c.input[..upto], &[0, 1]);
    let mut out = vec![];
    let mut clean = end == ParseEnd::Clean;
    for f in frames {
        if f.payload.len() > c.limit.unwrap_or(4 * 1024 * 1024) {
            clean = false;
            break;
        }
        let payload = if f.flag == 1 {
            match c.enc {
                None => {
                    clean = false;
                    break;
                }
                Some(e) => match comp::decompress(e, &f.payload) {
                    Ok(p) => p,
                    Err(_) => {
                        clean = false;
                        break;
                    }
                },
            }
        } else {
            f.payload
        };
        if c.prost {
            use prost::Message;
            match PMsg::decode(&payload[..]) {
                Ok(m) => out.push(pmsg_wire(&m)),
                Err(_) => {
                    clean = false;
                    break;
                }
            }
        } else {
            out.push(payload);
        }
    }
    (out, clean)
}

#[derive(Debug)]
enum Ev {
    Msg(Vec<u8>),
    Err(String),
    End,
}

fn drive<T>(mut s: Streaming<T>, ser: impl Fn(&T) -> Vec<u8>) -> (Vec<Ev>, bool) {
    let (waker, wakes) = crate::env::counting_waker();
    let mut cx = Context::from_waker(&waker);
    let mut evs = vec![];
    let mut after_terminal = 0;
    let mut polls = 0;
    loop {
        polls += 1;
        if polls > 200_000 {
            return (evs, true);
        }
        let before = wakes.0.load(std::sync::atomic::Ordering::SeqCst);
        match Pin::new(&mut s).poll_next(&mut cx) {
            // `Pending` without a wake-up: a caller awaiting the stream would sleep forever (every
            // scripted body wakes its caller before it answers `Pending`)
            Poll::Pending if wakes.0.load(std::sync::atomic::Ordering::SeqCst) == before => return (evs, true),
            Poll::Pending => continue,
            Poll::Ready(Some(Ok(m))) => evs.push(Ev::Msg(ser(&m))),
            Poll::Ready(Some(Err(e))) => evs.push(Ev::Err(fmt_status(&e))),
            Poll::Ready(None) => evs.push(Ev::End),
        }
        let terminal_seen = evs.iter().any(|e| matches!(e, Ev::Err(_) | Ev::End));
        if terminal_seen {
            after_terminal += 1;
            if after_terminal > 5 {
                return (evs, false);
            }
        }
    }
}

fn body(c: &Case, ch: &Chooser) -> Outcome {
    let chunking = match c.mode {
        Mode::Choose => Chunking::Choose { free: false, pending: true, empty: true },
        Mode::Drip => Chunking::Fixed(vec![1]),
        Mode::Whole => Chunking::Fixed(vec![]),
        Mode::Blocks => Chunking::Fixed(vec![16384, 3, 40000]),
    };
    let mut sb = ScriptBody::new(c.input.clone(), trailers(c.trl), chunking, ch);
    if let Some((at, cancelled)) = c.err_at {
        let status = if cancelled { Status::cancelled("peer went away") } else { Status::aborted("boom") };
        sb = sb.with_end(BodyEnd::Error { at, status });
    }
    let stats = sb.stats();
    let enc = c.enc.map(tonic_enc);
    let settings = BufferSettings::new(8, 16);
    let (evs, stalled) = if c.prost {
        let dec = ProstCodec::<PMsg, PMsg>::raw_decoder(settings);
        let s = match c.dir {
            Dir::Request => Streaming::new_request(dec, sb, enc, c.limit),
            Dir::Resp200 => Streaming::new_response(dec, sb, StatusCode::OK, enc, c.limit),
            Dir::Resp400 => Streaming::new_response(dec, sb, StatusCode::BAD_REQUEST, enc, c.limit),
        };
        drive(s, pmsg_wire)
    } else {
        let dec = RawCodec::new(settings).decoder();
        let s = match c.dir {
            Dir::Request => Streaming::new_request(dec, sb, enc, c.limit),
            Dir::Resp200 => Streaming::new_response(dec, sb, StatusCode::OK, enc, c.limit),
            Dir::Resp400 => Streaming::new_response(dec, sb, StatusCode::BAD_REQUEST, enc, c.limit),
        };
        drive(s, |m: &Vec<u8>| m.clone())
    };

    let mut obs = String::new();
    for e in &evs {
        match e {
            Ev::Msg(m) => obs.push_str(&format!("M({})", hex(m))),
            Ev::Err(s) => obs.push_str(&format!("E({s})")),
            Ev::End => obs.push_str("END"),
        }
        obs.push(' ');
    }
    let mut o = Outcome::new(obs);
    let (valid, clean) = valid_prefix(c);
    o.nontrivial = !clean || c.err_at.is_some() || c.trl != Trl::None && c.trl != Trl::Ok;
    if stalled {
        o.violate("stall", "the stream kept answering Pending/never terminated although its body was ready");
    }
    // 1. every message yielded is, in order, a message of the longest valid prefix
    let mut n = 0;
    for e in &evs {
        if let Ev::Msg(m) = e {
            if n >= valid.len() || valid[n] != *m {
                o.violate(
                    "bogus-message",
                    format!("yielded message #{n} {} which is not message #{n} of the longest valid prefix ({} valid messages)", hex(m), valid.len()),
                );
                break;
            }
            n += 1;
        }
    }
    // 2. the first error is final: afterwards every poll is Ready(None).
    //    (What a stream does when polled again after a clean `None` is not constrained by the
    //    statement — a draining caller has already stopped — so it is recorded, not judged.)
    if let Some(i) = evs.iter().position(|e| matches!(e, Ev::Err(_))) {
        for (j, e) in evs.iter().enumerate().skip(i + 1) {
            if !matches!(e, Ev::End) {
                let what = if matches!(e, Ev::Err(_)) { "error-then-error" } else { "error-then-message" };
                o.violate(
                    format!("not-final:{what}"),
                    format!("event #{i} was an error ({:?}) but poll #{j} afterwards yielded {:?}", evs[i], e),
                );
                break;
            }
        }
    }
    // 3. truncated input ends the stream with an error: a body that stops inside a length prefix or
    //    inside a payload (nothing injected, whatever the trailers say) must not look like a stream
    //    that ended normally — the cut-off message would be lost without a trace.
    if c.err_at.is_none() {
        if let (_, ParseEnd::Truncated { frame_start }) = wire::parse_frames(&c.input, &[0, 1]) {
            if !evs.iter().any(|e| matches!(e, Ev::Err(_))) {
                o.violate(
                    "truncated-input-accepted",
                    format!("the body stops inside the frame that starts at offset {frame_start} ({} of its bytes present) but the stream ended without any error", c.input.len() - frame_start),
                );
            }
        }
    }
    let pae = stats.polls_after_end.load(std::sync::atomic::Ordering::Relaxed);
    if pae > 8 {
        o.violate("body-overpolled", format!("body polled {pae} times after it ended"));
    }
    o
}

fn seeds() -> Vec<Vec<u8>> {
    vec![vec![], vec![7], vec![1, 2, 3], payload(9, 0)]
}

fn valid_stream(msgs: &[Vec<u8>], enc: Option<Enc>, prost: bool) -> Vec<u8> {
    let mut v = vec![];
    for m in msgs {
        let ser = if prost { pmsg_wire(&PMsg::from_seed(m)) } else { m.clone() };
        match enc {
            None => v.extend(wire::encode_frame(0, &ser)),
            Some(e) => v.extend(wire::encode_frame(1, &comp::compress(e, &ser))),
        }
    }
    v
}

fn cases(tier: Tier) -> Vec<Case> {
    let mut out = vec![];
    let dirs = [Dir::Request, Dir::Resp200, Dir::Resp400];
    let trls = [Trl::None, Trl::Ok, Trl::NotFound, Trl::BadCode, Trl::BadDetails];
    // (a) every byte string up to a length over a small alphabet
    let alpha: [u8; 6] = [0, 1, 2, 5, 0x80, 0xff];
    let maxlen = tier.q(5, 7);
    let mut strings: Vec<Vec<u8>> = vec![vec![]];
    let mut frontier: Vec<Vec<u8>> = vec![vec![]];
    for _ in 0..maxlen {
        let mut next = vec![];
        for s in &frontier {
            for a in alpha {
                let mut t = s.clone();
                t.push(a);
                next.push(t);
            }
        }
        strings.extend(next.iter().cloned());
        frontier = next;
    }
    for (i, s) in strings.iter().enumerate() {
        // rotate through direction/trailer combinations so that every pair occurs many times
        let combos: Vec<(Dir, Trl)> = if tier == Tier::Thorough || s.len() <= 3 {
            dirs.iter().flat_map(|d| trls.iter().map(move |t| (*d, *t))).collect()
        } else {
            vec![(dirs[i % 3], trls[(i / 3) % 5])]
        };
        for (dir, trl) in combos {
            for mode in [Mode::Choose, Mode::Drip] {
                out.push(Case {
                    input: s.clone(),
                    prost: i % 2 == 1,
                    enc: if s.first() == Some(&1) { Some(Enc::Gzip) } else { None },
                    dir,
                    trl,
                    err_at: None,
                    mode,
                    origin: "raw",
                    limit: None,
                });
            }
        }
    }
    // (b) mutations of valid streams
    let sd = seeds();
    let mut bases: Vec<(Vec<u8>, Option<Enc>, bool)> = vec![];
    for enc in ENC_OPTS {
        for prost in [false, true] {
            bases.push((valid_stream(&[sd[2].clone()], enc, prost), enc, prost));
            bases.push((valid_stream(&[sd[1].clone(), sd[0].clone(), sd[3].clone()], enc, prost), enc, prost));
            if tier == Tier::Thorough {
                bases.push((valid_stream(&[sd[0].clone(), sd[2].clone()], enc, prost), enc, prost));
            }
        }
    }
    let menu: [u8; 8] = [0x00, 0x01, 0x02, 0x05, 0x7f, 0x80, 0xfe, 0xff];
    for (bi, (base, enc, prost)) in bases.iter().enumerate() {
        let mut muts: Vec<(Vec<u8>, &'static str)> = vec![(base.clone(), "valid")];
        for p in 0..base.len() {
            muts.push((base[..p].to_vec(), "truncate"));
            let mut d = base.clone();
            d.remove(p);
            muts.push((d, "delete"));
            let mut d = base.clone();
            d.insert(p, base[p]);
            muts.push((d, "duplicate"));
            for m in menu {
                if base[p] != m {
                    let mut d = base.clone();
                    d[p] = m;
                    muts.push((d, "substitute"));
                }
            }
        }
        for (mi, (m, origin)) in muts.iter().enumerate() {
            let combos: Vec<(Dir, Trl)> = if tier == Tier::Thorough {
                dirs.iter().flat_map(|d| trls.iter().map(move |t| (*d, *t))).collect()
            } else {
                vec![(dirs[(mi + bi) % 3], trls[(mi / 3 + bi) % 5])]
            };
            for (dir, trl) in combos {
                let modes: &[Mode] = if tier == Tier::Thorough || mi % 4 == 0 { &[Mode::Choose, Mode::Drip] } else { &[Mode::Choose] };
                for mode in modes {
                    out.push(Case {
                        input: m.clone(),
                        prost: *prost,
                        enc: *enc,
                        dir,
                        trl,
                        err_at: None,
                        mode: *mode,
                        origin,
                        limit: None,
                    });
                }
            }
        }
        // (c) a body error injected before/after every frame and inside the first one
        let (frames, _) = wire::parse_frames(base, &[0, 1]);
        let mut offs = vec![0usize, 2, 6.min(base.len())];
        let mut p = 0;
        for f in &frames {
            p += 5 + f.payload.len();
            offs.push(p);
        }
        offs.sort();
        offs.dedup();
        for at in offs {
            for cancelled in [false, true] {
                for dir in dirs {
                    for trl in [Trl::None, Trl::NotFound] {
                        for mode in [Mode::Choose, Mode::Drip] {
                            out.push(Case {
                                input: base.clone(),
                                prost: *prost,
                                enc: *enc,
                                dir,
                                trl,
                                err_at: Some((at, cancelled)),
                                mode,
                                origin: "body-error",
                                limit: None,
                            });
                        }
                    }
                }
            }
        }
    }
    // (d) a size limit on the receiver, between the on-the-wire and the decompressed length of a
    // well compressible message (the limit applies to the former: the message is delivered whole),
    // below both, and above both
    for enc in [Some(Enc::Gzip), Some(Enc::Deflate), Some(Enc::Zstd), None] {
        for prost in [false, true] {
            let big = vec![0u8; 300];
            let stream = valid_stream(&[vec![7], big.clone(), vec![1, 2, 3]], enc, prost);
            let (frames, _) = wire::parse_frames(&stream, &[0, 1]);
            let wire_len = frames[1].payload.len();
            for limit in [wire_len - 1, wire_len, wire_len + 40, 100_000] {
                for dir in [Dir::Request, Dir::Resp200] {
                    out.push(Case { input: stream.clone(), prost, enc, dir, trl: Trl::Ok, err_at: None, mode: Mode::Choose, origin: "limited", limit: Some(limit) });
                }
            }
        }
    }
    // (d') one 400-byte message arriving byte by byte (more than 256 DATA frames for one message),
    // complete and cut short
    for prost in [false, true] {
        let stream = valid_stream(&[vec![0x61u8; 400], vec![2]], None, prost);
        for dir in [Dir::Request, Dir::Resp200] {
            out.push(Case { input: stream.clone(), prost, enc: None, dir, trl: Trl::Ok, err_at: None, mode: Mode::Drip, origin: "long-drip", limit: None });
            out.push(Case { input: stream[..300].to_vec(), prost, enc: None, dir, trl: Trl::Ok, err_at: None, mode: Mode::Drip, origin: "long-drip-truncated", limit: None });
        }
    }
    // (e) small messages around one of 70 000 bytes (receive buffers beyond 64 KiB), the small ones
    // shaped like frame prefixes so that a misaligned reader would yield them as messages
    for prost in [false, true] {
        let looks_like_frame = vec![0u8, 0, 0, 0, 2, 0x61, 0x62];
        let stream = valid_stream(&[looks_like_frame.clone(), payload(70_000, 1), vec![9], looks_like_frame.clone()], None, prost);
        for dir in [Dir::Request, Dir::Resp200] {
            for mode in [Mode::Whole, Mode::Blocks] {
                out.push(Case { input: stream.clone(), prost, enc: None, dir, trl: Trl::Ok, err_at: None, mode, origin: "large-buffer", limit: None });
                out.push(Case { input: stream[..stream.len() - 3].to_vec(), prost, enc: None, dir, trl: Trl::Ok, err_at: None, mode, origin: "large-buffer-truncated", limit: None });
            }
        }
    }
    out
}

// ---------------------------------------------------------------------------------------------
// long runs of empty DATA frames, each run decoded in a process of its own: the failure they
// provoke when mishandled (unbounded recursion) does not unwind, it kills the process
// ---------------------------------------------------------------------------------------------

struct FrameList {
    frames: std::collections::VecDeque<Bytes>,
    trailers: Option<HeaderMap>,
}

impl http_body::Body for FrameList {
    type Data = Bytes;
    type Error = Status;
    fn poll_frame(mut self: Pin<&mut Self>, _cx: &mut Context<'_>) -> Poll<Option<Result<http_body::Frame<Bytes>, Status>>> {
        if let Some(f) = self.frames.pop_front() {
            return Poll::Ready(Some(Ok(http_body::Frame::data(f))));
        }
        match self.trailers.take() {
            Some(t) => Poll::Ready(Some(Ok(http_body::Frame::trailers(t)))),
            None => Poll::Ready(None),
        }
    }
}

/// Child-process entry: decode [7] [1,2,3] with `n` empty DATA frames at position `at`
/// (0 = in front, 1 = inside the first prefix, 2 = between the messages, 3 = before the trailers).
/// Exit code 0 = the two messages and a clean end; 3 = anything else.
pub fn isolated_empty_run(n: usize, at: usize) -> i32 {
    let stream = valid_stream(&[vec![7], vec![1, 2, 3]], None, false);
    let cut = [0usize, 3, 6, stream.len()][at.min(3)];
    let mut frames = std::collections::VecDeque::new();
    if cut > 0 {
        frames.push_back(Bytes::copy_from_slice(&stream[..cut]));
    }
    for _ in 0..n {
        frames.push_back(Bytes::new());
    }
    if cut < stream.len() {
        frames.push_back(Bytes::copy_from_slice(&stream[cut..]));
    }
    let body = FrameList { frames, trailers: trailers(Trl::Ok) };
    let s = Streaming::new_response(RawCodec::new(BufferSettings::new(8, 16)).decoder(), body, StatusCode::OK, None, None);
    let (evs, stalled) = drive(s, |m: &Vec<u8>| m.clone());
    let msgs: Vec<&Vec<u8>> = evs.iter().filter_map(|e| if let Ev::Msg(m) = e { Some(m) } else { None }).collect();
    let clean = !stalled && msgs == vec![&vec![7u8], &vec![1u8, 2, 3]] && !evs.iter().any(|e| matches!(e, Ev::Err(_)));
    if clean {
        0
    } else {
        eprintln!("events: {evs:?} stalled={stalled}");
        3
    }
}

#[derive(Clone, Debug)]
struct RunCase {
    empties: usize,
    at: usize,
}

fn run_body(c: &RunCase, _ch: &Chooser) -> Outcome {
    let exe = std::env::current_exe().unwrap_or_else(|e| crate::explore::machinery(format!("current_exe: {e}")));
    let out = std::process::Command::new(exe)
        .args(["--isolated", "c07-empty-run", &c.empties.to_string(), &c.at.to_string()])
        .stdin(std::process::Stdio::null())
        .stdout(std::process::Stdio::null())
        .stderr(std::process::Stdio::piped())
        .output()
        .unwrap_or_else(|e| crate::explore::machinery(format!("cannot start the isolated execution: {e}")));
    let mut o = Outcome::new(format!("exit={:?}", out.status.code()));
    o.nontrivial = true;
    match out.status.code() {
        Some(0) => {}
        Some(3) => o.violate("empty-frames-disturb-decoding", format!("{} empty DATA frames at position {}: {}", c.empties, c.at, String::from_utf8_lossy(&out.stderr).lines().last().unwrap_or(""))),
        other => o.violate(
            "process-killed-by-empty-frames",
            format!("decoding a valid stream with {} empty DATA frames at position {} ended the process abnormally (exit {:?}; {}): a poll that never completes", c.empties, c.at, other, String::from_utf8_lossy(&out.stderr).lines().last().unwrap_or("no message")),
        ),
    }
    o
}

pub fn property(tier: Tier) -> Property {
    let rule = "cases: every byte string of length <= N over {00,01,02,05,80,ff} and every truncation/substitution/deletion/duplication of valid 1-3 message streams (identity/gzip/deflate/zstd; raw and prost decoders), x direction x trailers x injected body errors, plus valid streams read under a receiver size limit placed below / at / between / above the on-the-wire and the decompressed length of a well compressible message, plus a 400-byte message dripped byte by byte (complete and truncated), plus small frame-shaped messages around a 70 000-byte one delivered whole / in large blocks (complete and truncated); environment: every chunking with <= bound cuts/Pending/empty-frame deviations plus byte-by-byte drip; polled 5 more times after the first terminal event. Non-trivial = input is not a clean valid stream (malformed, truncated, body error, or non-OK trailers); distinct = distinct (case, choice vector)";
    let describe = |c: &Case| {
        format!(
            "{} input={} prost={} enc={} dir={:?} trailers={:?} err_at={:?} mode={:?} limit={:?}",
            c.origin, crate::explore::truncate(&hex(&c.input), 160), c.prost, enc_name(c.enc), c.dir, c.trl, c.err_at, c.mode, c.limit
        )
    };
    let all = cases(tier);
    // a second, deeper pass (one more deviation) over a thinner slice of the same alphabet:
    // quick = the quick alphabet's short inputs, thorough = the quick alphabet in full
    let deep: Vec<Case> = match tier {
        Tier::Quick => cases(Tier::Quick).into_iter().filter(|c| c.mode == Mode::Choose && c.input.len() <= 12).collect(),
        Tier::Thorough => cases(Tier::Quick).into_iter().filter(|c| c.mode == Mode::Choose).collect(),
    };
    let sec = Section::new(
        "decode-hostile",
        Config { max_bound: 1, panic_key: "panic", hang_secs: 30, ..Default::default() },
        &format!("{rule} [bound 1; quick: strings <= 5 and one rotating direction/trailers combination per input, thorough: strings <= 7 and all 15 combinations]"),
        all,
        describe,
        body,
    )
    .mins(1000, 10, 100);
    let sec2 = Section::new(
        "decode-hostile-deep",
        Config { max_bound: 2, panic_key: "panic", hang_secs: 30, ..Default::default() },
        &format!("{rule} [bound 2 over a thinner slice: quick = inputs of <= 12 bytes of the quick alphabet, thorough = the whole quick alphabet]"),
        deep,
        describe,
        body,
    )
    .mins(1000, 10, 100);
    let mut rcases = vec![];
    for empties in tier.q(vec![50usize, 5_000, 100_000], vec![50, 5_000, 100_000, 1_000_000]) {
        for at in 0..4 {
            rcases.push(RunCase { empties, at });
        }
    }
    let runs = Section::new(
        "empty-frame-runs",
        Config { hang_secs: 120, ..Default::default() },
        "cases: a valid two-message response stream with a run of 50 / 5 000 / 100 000 (thorough also 10^6) empty DATA frames in front of it, inside the first prefix, between the messages or before the trailers, all immediately ready; each case is decoded by the real Streaming in a child process of its own (mc --isolated), because the way such a run goes wrong — recursion per frame — ends in a stack overflow that no unwinding catches. Oracle: the child decodes both messages and a clean end (exit 0); any abnormal end of the process is a poll that never completed. All cases count as non-trivial.",
        rcases,
        |c: &RunCase| format!("{c:?}"),
        run_body,
    )
    .mins(12, 1, 12);
    Property {
        id: "C07",
        level: "model_checking",
        hang_is_violation: true,
        assumptions: vec![
            "payload values outside the stated alphabets/mutation menus are not covered".into(),
            "flate2/zstd/prost are trusted as reference decoders".into(),
        ],
        sections: vec![sec, sec2, runs],
        extra: Default::default(),
    }
}
