//! C11 — generated clients and servers agree with each other and with the checked-in code.
//!
//! Program space (DESIGN.md §3 "C11"): service definitions over package x service name x 1..=3
//! methods (names incl. snake_case, digits, Rust keywords) x the four streaming kinds x builder
//! options, pushed through every front end of the *real* `tonic_build` linked from /repo:
//!   * `codegen`   : `manual::Service` -> `CodeGenBuilder::{generate_client,generate_server}` (token streams)
//!   * `manual`    : `manual::Service` -> `manual::Builder::compile` (file in a temp out dir)
//!   * `prost`     : `.proto` text -> `protox` (in-memory resolver, no protoc) -> `FileDescriptorSet`
//!                   -> `tonic_build::configure()…compile_fds` (prost-build name mangling included)
//! The generated Rust is parsed with `syn`; what the client *sends* and what the server *dispatches on*
//! is extracted structurally and compared with a reference computed from the descriptor alone
//! (nothing below calls a tonic-build naming helper).
//!
//! Plus: the committed `src/generated` trees of tonic-health / tonic-reflection / tonic-types are
//! (a) put through the same extractor/oracle against descriptors compiled from their `.proto` files,
//! (b) byte-compared with what the real `codegen` crate regenerates from /repo's current tree.

use crate::explore::{fnv_hex, machinery, truncate, Chooser, Config, Outcome};
use crate::report::{Property, Section, Tier};
use quote::ToTokens;
use serde_json::json;
use std::collections::{BTreeMap, BTreeSet};
use std::panic::{catch_unwind, AssertUnwindSafe};
use std::path::{Path, PathBuf};
use std::sync::atomic::{AtomicU64, Ordering};
use std::sync::OnceLock;
use std::time::Instant;
use syn::visit::{self, Visit};

// ---------------------------------------------------------------------------------------------
// locations
// ---------------------------------------------------------------------------------------------

fn repo_root() -> PathBuf {
    PathBuf::from(std::env::var("VERIF_REPO").unwrap_or_else(|_| "/repo".into()))
}

/// Persistent scratch root of the regeneration step: `<root>/src` is refreshed from the repo on
/// every run and removed afterwards, `<root>/target` (cargo target dir) is kept so that later runs
/// only rebuild what changed.
fn scratch_root() -> PathBuf {
    PathBuf::from(std::env::var("VERIF_SCRATCH").unwrap_or_else(|_| "/verif/target/regen".into()))
}

/// Crates whose `src/generated` tree is written by the repo's codegen crate (codegen/src/main.rs).
const GENERATED_CRATES: [&str; 3] = ["tonic-health", "tonic-reflection", "tonic-types"];
const GENERATED_SUBDIR: &str = "src/generated";

// ---------------------------------------------------------------------------------------------
// the program space
// ---------------------------------------------------------------------------------------------

#[derive(Clone, Copy, Debug, PartialEq, Eq, PartialOrd, Ord, Hash)]
enum Shape {
    Unary,
    ServerStreaming,
    ClientStreaming,
    Streaming,
}

impl Shape {
    const ALL: [Shape; 4] = [Shape::Unary, Shape::ServerStreaming, Shape::ClientStreaming, Shape::Streaming];
    fn of(cs: bool, ss: bool) -> Shape {
        match (cs, ss) {
            (false, false) => Shape::Unary,
            (false, true) => Shape::ServerStreaming,
            (true, false) => Shape::ClientStreaming,
            (true, true) => Shape::Streaming,
        }
    }
    fn cs(self) -> bool {
        matches!(self, Shape::ClientStreaming | Shape::Streaming)
    }
    fn ss(self) -> bool {
        matches!(self, Shape::ServerStreaming | Shape::Streaming)
    }
    /// name of the `tonic::client::Grpc` / `tonic::server::Grpc` method for this shape
    /// (transcribed from tonic/src/{client,server}/grpc.rs — the runtime API, not the generator)
    fn from_call(s: &str) -> Option<Shape> {
        Some(match s {
            "unary" => Shape::Unary,
            "server_streaming" => Shape::ServerStreaming,
            "client_streaming" => Shape::ClientStreaming,
            "streaming" => Shape::Streaming,
            _ => return None,
        })
    }
    /// `tonic::server::*Service` trait for this shape (tonic/src/server/service.rs)
    fn from_service_trait(s: &str) -> Option<Shape> {
        Some(match s {
            "UnaryService" => Shape::Unary,
            "ServerStreamingService" => Shape::ServerStreaming,
            "ClientStreamingService" => Shape::ClientStreaming,
            "StreamingService" => Shape::Streaming,
            _ => return None,
        })
    }
    fn short(self) -> &'static str {
        match self {
            Shape::Unary => "unary",
            Shape::ServerStreaming => "server_streaming",
            Shape::ClientStreaming => "client_streaming",
            Shape::Streaming => "streaming",
        }
    }
}

#[derive(Clone, Copy, Debug, PartialEq, Eq)]
enum Front {
    /// manual::Service -> CodeGenBuilder token streams
    CodeGen,
    /// manual::Service -> manual::Builder::compile
    ManualCompile,
    /// .proto -> protox -> tonic_build::configure().compile_fds
    Prost,
}

#[derive(Clone, Copy, Debug, PartialEq, Eq)]
enum Sides {
    Both,
    ClientOnly,
    ServerOnly,
}

#[derive(Clone, Copy, Debug, PartialEq, Eq)]
struct Opts {
    emit_package: bool,
    arc_self: bool,
    default_stubs: bool,
    transport: bool,
    sides: Sides,
}

impl Opts {
    const DEFAULT: Opts = Opts { emit_package: true, arc_self: false, default_stubs: false, transport: true, sides: Sides::Both };
    fn all() -> Vec<Opts> {
        let mut v = vec![];
        for emit_package in [true, false] {
            for arc_self in [false, true] {
                for default_stubs in [false, true] {
                    for transport in [true, false] {
                        for sides in [Sides::Both, Sides::ClientOnly, Sides::ServerOnly] {
                            v.push(Opts { emit_package, arc_self, default_stubs, transport, sides });
                        }
                    }
                }
            }
        }
        v
    }
}

/// Message-type menu. `proto` is how an rpc names it, `prost_rust` is the Rust path the prost front
/// end must use (hand-transcribed from prost's documented naming: UpperCamel type names, nested
/// messages in a snake_case module, `google.protobuf.Empty` = `()`, everything relative to `super`),
/// `manual_rust` is the arbitrary path *we* hand to the manual front end for that slot.
struct Ty {
    proto: &'static str,
    prost_rust: &'static str,
    manual_rust: &'static str,
}

const TYPES: [Ty; 5] = [
    Ty { proto: "Req", prost_rust: "super::Req", manual_rust: "crate::m::Req" },
    Ty { proto: "Rsp", prost_rust: "super::Rsp", manual_rust: "crate::m::Rsp" },
    Ty { proto: "snake_msg", prost_rust: "super::SnakeMsg", manual_rust: "m::snake_msg" },
    Ty { proto: "Outer.Inner", prost_rust: "super::outer::Inner", manual_rust: "super::outer::Inner" },
    Ty { proto: "google.protobuf.Empty", prost_rust: "()", manual_rust: "::std::vec::Vec<u8>" },
];

const MANUAL_CODEC: &str = "crate::codec::MyCodec";
const PROST_CODEC: &str = "tonic::codec::ProstCodec";

const PKGS: [&str; 3] = ["", "p", "p.q"];
const SVCS: [&str; 3] = ["S", "My_Svc", "svc2"];
const METHODS: [&str; 6] = ["Get", "get_it", "M2", "Type", "Move", "Self"];

#[derive(Clone, Debug)]
struct MethodDef {
    proto: &'static str,
    shape: Shape,
    input: usize,
    output: usize,
}

#[derive(Clone, Debug)]
struct Program {
    front: Front,
    package: &'static str,
    service: &'static str,
    methods: Vec<MethodDef>,
    opts: Opts,
}

fn describe(p: &Program) -> String {
    let ms: Vec<String> = p
        .methods
        .iter()
        .map(|m| {
            format!(
                "rpc {}({}{}) returns ({}{})",
                m.proto,
                if m.shape.cs() { "stream " } else { "" },
                TYPES[m.input].proto,
                if m.shape.ss() { "stream " } else { "" },
                TYPES[m.output].proto
            )
        })
        .collect();
    format!(
        "front={:?} package={:?} service {} {{ {} }} emit_package={} use_arc_self={} default_stubs={} build_transport={} sides={:?}",
        p.front,
        p.package,
        p.service,
        ms.join("; "),
        p.opts.emit_package,
        p.opts.arc_self,
        p.opts.default_stubs,
        p.opts.transport,
        p.opts.sides
    )
}

/// Types of the i-th method of a list: input != output always, and the pair rotates with `k` so
/// that every menu entry occurs in every position over the enumeration.
fn mdef(proto: &'static str, shape: Shape, i: usize, k: usize) -> MethodDef {
    let input = (k + i) % TYPES.len();
    let output = (k + i + 1 + i % 3) % TYPES.len();
    MethodDef { proto, shape, input, output }
}

const NAME_PAIRS: [[&str; 2]; 6] =
    [["Get", "get_it"], ["M2", "Type"], ["Move", "Self"], ["Self", "Get"], ["Type", "Move"], ["get_it", "M2"]];
const NAME_TRIPLES: [[&str; 3]; 4] =
    [["Get", "get_it", "M2"], ["Type", "Move", "Self"], ["Self", "Get", "Type"], ["M2", "Move", "get_it"]];

/// Every method list of the tier's grammar.
fn method_lists(n_pairs: usize, n_triples: usize) -> Vec<Vec<MethodDef>> {
    let mut out = vec![];
    let mut k = 0usize;
    for name in METHODS {
        for sh in Shape::ALL {
            out.push(vec![mdef(name, sh, 0, k)]);
            k += 1;
        }
    }
    for names in NAME_PAIRS.iter().take(n_pairs) {
        for a in Shape::ALL {
            for b in Shape::ALL {
                out.push(vec![mdef(names[0], a, 0, k), mdef(names[1], b, 1, k)]);
                k += 1;
            }
        }
    }
    for names in NAME_TRIPLES.iter().take(n_triples) {
        for a in Shape::ALL {
            for b in Shape::ALL {
                for c in Shape::ALL {
                    out.push(vec![mdef(names[0], a, 0, k), mdef(names[1], b, 1, k), mdef(names[2], c, 2, k)]);
                    k += 1;
                }
            }
        }
    }
    out
}

/// Programs of one front end.
///
/// thorough: the full product package x service x all 48 option vectors x every method list
///           (24 singles + 16 shape pairs x 3 name pairs + 64 shape triples x 2 name triples).
/// quick:    three complete sub-products of it —
///           (A) package x service x all option vectors x every single-method list (name x shape);
///           (B) every option vector x package x a 3-method list (the 128 triples rotate);
///           (C) every 2- and 3-method list (16 x 3 + 64 x 2) with package/service/options rotating.
/// (`manual::Builder::compile` only has the client/server/transport switches: 6 option vectors.)
fn programs(front: Front, tier: Tier) -> Vec<Program> {
    let mut out = vec![];
    let lists = method_lists(3, 2);
    let all_opts: Vec<Opts> = Opts::all()
        .into_iter()
        .filter(|o| {
            // manual::Builder has no emit_package / use_arc_self / default-stubs switches
            front != Front::ManualCompile || (o.emit_package && !o.arc_self && !o.default_stubs)
        })
        .collect();
    match tier {
        Tier::Thorough => {
            for package in PKGS {
                for service in SVCS {
                    for opts in &all_opts {
                        for l in &lists {
                            out.push(Program { front, package, service, methods: l.clone(), opts: *opts });
                        }
                    }
                }
            }
        }
        Tier::Quick => {
            let singles = &lists[..24];
            let multi = &lists[24..];
            let triples = &lists[24 + 48..];
            // (A)
            for package in PKGS {
                for service in SVCS {
                    for opts in &all_opts {
                        for l in singles {
                            out.push(Program { front, package, service, methods: l.clone(), opts: *opts });
                        }
                    }
                }
            }
            // (B)
            let mut k = 0;
            for opts in &all_opts {
                for package in PKGS {
                    let l = &triples[(k * 7) % triples.len()];
                    out.push(Program { front, package, service: SVCS[k % 3], methods: l.clone(), opts: *opts });
                    k += 1;
                }
            }
            // (C)
            for (i, l) in multi.iter().enumerate() {
                let opts = all_opts[(i * 5) % all_opts.len()];
                out.push(Program { front, package: PKGS[i % 3], service: SVCS[(i / 3) % 3], methods: l.clone(), opts });
            }
        }
    }
    // a program reachable through two sub-products is validated once
    let mut seen = BTreeSet::new();
    out.retain(|p| seen.insert(describe(p)));
    out
}

// ---------------------------------------------------------------------------------------------
// the independent reference (computed from the descriptor only)
// ---------------------------------------------------------------------------------------------

#[derive(Clone, Debug)]
struct RefMethod {
    proto: String,
    path: String,
    shape: Shape,
    req: String,
    resp: String,
}

#[derive(Clone, Debug)]
struct Reference {
    /// `[package.]Service`
    service_name: String,
    methods: Vec<RefMethod>,
    expect_client: bool,
    expect_server: bool,
    codec: String,
}

fn full_service_name(package: &str, service: &str, emit_package: bool) -> String {
    if emit_package && !package.is_empty() {
        format!("{package}.{service}")
    } else {
        service.to_string()
    }
}

fn reference(p: &Program) -> Reference {
    let service_name = full_service_name(p.package, p.service, p.opts.emit_package);
    let methods = p
        .methods
        .iter()
        .map(|m| {
            let (req, resp) = match p.front {
                Front::Prost => (TYPES[m.input].prost_rust, TYPES[m.output].prost_rust),
                _ => (TYPES[m.input].manual_rust, TYPES[m.output].manual_rust),
            };
            RefMethod {
                proto: m.proto.to_string(),
                path: format!("/{}/{}", service_name, m.proto),
                shape: m.shape,
                req: squash(req),
                resp: squash(resp),
            }
        })
        .collect();
    Reference {
        service_name,
        methods,
        expect_client: p.opts.sides != Sides::ServerOnly,
        expect_server: p.opts.sides != Sides::ClientOnly,
        codec: if p.front == Front::Prost { PROST_CODEC.into() } else { MANUAL_CODEC.into() },
    }
}

/// Number of oracle comparisons `judge` evaluates for a reference (see `judge`): per method
/// 8 client + 12 server + 5 client-vs-server, per program 1 client + 3 server + 1 cross + 2 side
/// selection. `judge` counts what it really evaluates and a violation-free run that disagrees
/// with this formula is a machinery error, so the number in the evidence is a verified one.
fn comparisons(r: &Reference) -> u64 {
    let n = r.methods.len() as u64;
    let c = r.expect_client as u64;
    let s = r.expect_server as u64;
    let cs = c * s;
    n * (8 * c + 12 * s + 5 * cs) + (c + 3 * s + cs) + 2
}

// ---------------------------------------------------------------------------------------------
// driving the real generator
// ---------------------------------------------------------------------------------------------

static TMP_SEQ: AtomicU64 = AtomicU64::new(0);

/// Per-thread parent directory for the per-case output dirs (16 workers creating and removing
/// entries in one shared directory would serialise on it).
struct TmpBase(PathBuf);
impl Drop for TmpBase {
    fn drop(&mut self) {
        let _ = std::fs::remove_dir_all(&self.0);
    }
}
thread_local! {
    static TMP_BASE: TmpBase = TmpBase(std::env::temp_dir().join(format!(
        "mc-c11-{}-w{}",
        std::process::id(),
        TMP_SEQ.fetch_add(1, Ordering::Relaxed)
    )));
}

/// A fresh output directory for one generator run, removed when dropped.
struct TmpDir(PathBuf);
impl TmpDir {
    fn new() -> TmpDir {
        let p = TMP_BASE.with(|b| b.0.join(format!("{}", TMP_SEQ.fetch_add(1, Ordering::Relaxed))));
        if let Err(e) = std::fs::create_dir_all(&p) {
            machinery(format!("cannot create temp dir {}: {e}", p.display()));
        }
        TmpDir(p)
    }
}
impl Drop for TmpDir {
    fn drop(&mut self) {
        let _ = std::fs::remove_dir_all(&self.0);
    }
}

/// Rust method name *we* give the manual front end (the user's job there): lower_snake of the route
/// name, raw identifier for keywords, `self_` where a raw identifier is impossible.
fn manual_rust_name(proto: &str) -> String {
    let mut s = String::new();
    let cs: Vec<char> = proto.chars().collect();
    for (i, c) in cs.iter().enumerate() {
        if c.is_uppercase() && i > 0 && (cs[i - 1].is_lowercase() || cs[i - 1].is_ascii_digit()) {
            s.push('_');
        }
        s.extend(c.to_lowercase());
    }
    match s.as_str() {
        "self" => "self_".into(),
        "type" | "move" => format!("r#{s}"),
        _ => s,
    }
}

fn manual_service(p: &Program) -> tonic_build::manual::Service {
    use tonic_build::manual::{Method, Service};
    let mut b = Service::builder().name(p.service).package(p.package);
    for m in &p.methods {
        let mut mb = Method::builder()
            .name(manual_rust_name(m.proto))
            .route_name(m.proto)
            .input_type(TYPES[m.input].manual_rust)
            .output_type(TYPES[m.output].manual_rust)
            .codec_path(MANUAL_CODEC);
        if m.shape.cs() {
            mb = mb.client_streaming();
        }
        if m.shape.ss() {
            mb = mb.server_streaming();
        }
        b = b.method(mb.build());
    }
    b.build()
}

fn proto_text(p: &Program) -> String {
    let mut s = String::from("syntax = \"proto3\";\n");
    if !p.package.is_empty() {
        s.push_str(&format!("package {};\n", p.package));
    }
    s.push_str("import \"google/protobuf/empty.proto\";\n");
    s.push_str("message Req { string a = 1; }\nmessage Rsp { int32 b = 1; }\nmessage snake_msg { bool c = 1; }\nmessage Outer { message Inner { bool d = 1; } }\n");
    s.push_str(&format!("service {} {{\n", p.service));
    for m in &p.methods {
        s.push_str(&format!(
            "  rpc {} ({}{}) returns ({}{});\n",
            m.proto,
            if m.shape.cs() { "stream " } else { "" },
            TYPES[m.input].proto,
            if m.shape.ss() { "stream " } else { "" },
            TYPES[m.output].proto
        ));
    }
    s.push_str("}\n");
    s
}

struct MemResolver {
    name: String,
    source: String,
}
impl protox::file::FileResolver for MemResolver {
    fn open_file(&self, name: &str) -> Result<protox::file::File, protox::Error> {
        if name == self.name {
            protox::file::File::from_source(name, &self.source)
        } else {
            Err(protox::Error::file_not_found(name))
        }
    }
}

/// Compile one in-memory `.proto` (imports of google/protobuf/* resolved from protox's bundled copies).
fn compile_proto(name: &str, source: &str) -> Result<prost_types::FileDescriptorSet, String> {
    let mut chain = protox::file::ChainFileResolver::new();
    chain.add(MemResolver { name: name.to_string(), source: source.to_string() });
    chain.add(protox::file::GoogleFileResolver::new());
    let mut c = protox::Compiler::with_file_resolver(chain);
    c.include_imports(true).include_source_info(true);
    c.open_file(name).map_err(|e| format!("{e}"))?;
    Ok(c.file_descriptor_set())
}

enum GenFail {
    /// tonic_build (or prost-build under it) panicked
    Panic(String),
    /// tonic_build returned an error
    Error(String),
    /// the output is not Rust
    Unparsable(String),
}

fn panic_text(p: Box<dyn std::any::Any + Send>) -> String {
    if let Some(s) = p.downcast_ref::<&str>() {
        s.to_string()
    } else if let Some(s) = p.downcast_ref::<String>() {
        s.clone()
    } else {
        "<non-string panic>".into()
    }
}

fn parse_rust(text: &str) -> Result<syn::File, GenFail> {
    syn::parse_file(text).map_err(|e| GenFail::Unparsable(format!("{e}: {}", truncate(text, 300))))
}

/// Run the real generator for one program; the result is the parsed generated Rust.
/// A small file of another package with one service, for multi-package generator runs.
fn neighbour_file(name: &str, package: &str, service: &str) -> prost_types::FileDescriptorProto {
    use prost_types::{DescriptorProto, FieldDescriptorProto, FileDescriptorProto, MethodDescriptorProto, ServiceDescriptorProto};
    let msg = |n: &str| DescriptorProto {
        name: Some(n.to_string()),
        field: vec![FieldDescriptorProto { name: Some("x".into()), number: Some(1), label: Some(1), r#type: Some(5), json_name: Some("x".into()), ..Default::default() }],
        ..Default::default()
    };
    FileDescriptorProto {
        name: Some(name.to_string()),
        package: Some(package.to_string()),
        message_type: vec![msg("Ping"), msg("Pong")],
        service: vec![ServiceDescriptorProto {
            name: Some(service.to_string()),
            method: vec![
                MethodDescriptorProto { name: Some("Hit".into()), input_type: Some(format!(".{package}.Ping")), output_type: Some(format!(".{package}.Pong")), ..Default::default() },
                MethodDescriptorProto { name: Some("Flow".into()), input_type: Some(format!(".{package}.Ping")), output_type: Some(format!(".{package}.Pong")), server_streaming: Some(true), ..Default::default() },
            ],
            options: None,
        }],
        syntax: Some("proto3".into()),
        ..Default::default()
    }
}

fn generate(p: &Program) -> Result<syn::File, GenFail> {
    let want_client = p.opts.sides != Sides::ServerOnly;
    let want_server = p.opts.sides != Sides::ClientOnly;
    match p.front {
        Front::CodeGen => {
            let svc = manual_service(p);
            let r = catch_unwind(AssertUnwindSafe(|| {
                let mut b = tonic_build::CodeGenBuilder::new();
                b.emit_package(p.opts.emit_package)
                    .use_arc_self(p.opts.arc_self)
                    .generate_default_stubs(p.opts.default_stubs)
                    .build_transport(p.opts.transport);
                let mut ts = proc_macro2::TokenStream::new();
                if want_client {
                    ts.extend(b.generate_client(&svc, ""));
                }
                if want_server {
                    ts.extend(b.generate_server(&svc, ""));
                }
                ts
            }));
            let ts = r.map_err(|e| GenFail::Panic(panic_text(e)))?;
            let text = ts.to_string();
            syn::parse2::<syn::File>(ts).map_err(|e| GenFail::Unparsable(format!("{e}: {}", truncate(&text, 300))))
        }
        Front::ManualCompile => {
            let svc = manual_service(p);
            let tmp = TmpDir::new();
            let r = catch_unwind(AssertUnwindSafe(|| {
                tonic_build::manual::Builder::new()
                    .build_client(want_client)
                    .build_server(want_server)
                    .build_transport(p.opts.transport)
                    .out_dir(&tmp.0)
                    .compile(&[svc]);
            }));
            r.map_err(|e| GenFail::Panic(panic_text(e)))?;
            // documented file name: `<package_name>.<service_name>.rs`
            let f = tmp.0.join(format!("{}.{}.rs", p.package, p.service));
            let text = std::fs::read_to_string(&f)
                .map_err(|e| GenFail::Error(format!("expected output file {} missing: {e}", f.display())))?;
            parse_rust(&text)
        }
        Front::Prost => {
            let fds = match compile_proto("c11.proto", &proto_text(p)) {
                Ok(f) => f,
                Err(e) => machinery(format!("protox rejected a program of the grammar ({}): {e}", describe(p))),
            };
            check_descriptor(p, &fds);
            // the generator run also sees services of OTHER packages, in front of and behind ours
            // (one build script usually compiles several packages at once)
            let mut fds = fds;
            fds.file.insert(0, neighbour_file("aaa_first.proto", "zz.first", "First"));
            fds.file.push(neighbour_file("zzz_last.proto", "zz.last", "Last"));
            let tmp = TmpDir::new();
            let r = catch_unwind(AssertUnwindSafe(|| {
                let mut b = tonic_build::configure()
                    .build_client(want_client)
                    .build_server(want_server)
                    .build_transport(p.opts.transport)
                    .use_arc_self(p.opts.arc_self)
                    .generate_default_stubs(p.opts.default_stubs)
                    .emit_rerun_if_changed(false)
                    .out_dir(&tmp.0);
                if !p.opts.emit_package {
                    b = b.disable_package_emission();
                }
                b.compile_fds(fds)
            }));
            match r {
                Err(e) => return Err(GenFail::Panic(panic_text(e))),
                Ok(Err(e)) => return Err(GenFail::Error(format!("compile_fds: {e}"))),
                Ok(Ok(())) => {}
            }
            // prost-build's documented file name: `<package>.rs`, `_.rs` for the empty package
            let fname = if p.package.is_empty() { "_.rs".to_string() } else { format!("{}.rs", p.package) };
            let f = tmp.0.join(&fname);
            let text = std::fs::read_to_string(&f)
                .map_err(|e| GenFail::Error(format!("expected output file {fname} missing: {e}")))?;
            parse_rust(&text)
        }
    }
}

/// The descriptor protox produced must be the program we meant (guards the harness's own
/// `.proto` printer; a mismatch is a machinery error, not a verdict).
fn check_descriptor(p: &Program, fds: &prost_types::FileDescriptorSet) {
    let Some(fd) = fds.file.iter().find(|f| f.name() == "c11.proto") else {
        machinery("protox output lacks c11.proto");
    };
    let ok = fd.package() == p.package
        && fd.service.len() == 1
        && fd.service[0].name() == p.service
        && fd.service[0].method.len() == p.methods.len()
        && fd.service[0].method.iter().zip(&p.methods).all(|(d, m)| {
            let pkg_dot = if p.package.is_empty() { ".".to_string() } else { format!(".{}.", p.package) };
            let fq = |t: &str| if t.starts_with("google.") { format!(".{t}") } else { format!("{pkg_dot}{t}") };
            d.name() == m.proto
                && d.client_streaming() == m.shape.cs()
                && d.server_streaming() == m.shape.ss()
                && d.input_type() == fq(TYPES[m.input].proto)
                && d.output_type() == fq(TYPES[m.output].proto)
        });
    if !ok {
        machinery(format!("descriptor compiled by protox differs from the intended program: {}", describe(p)));
    }
}

// ---------------------------------------------------------------------------------------------
// extraction (syn)
// ---------------------------------------------------------------------------------------------

/// Token text without any whitespace — the canonical form in which types/paths are compared.
fn squash_tokens(t: &impl ToTokens) -> String {
    squash(&t.to_token_stream().to_string())
}
fn squash(s: &str) -> String {
    s.split_whitespace().collect()
}

fn lit_str(e: &syn::Expr) -> Option<String> {
    match e {
        syn::Expr::Lit(syn::ExprLit { lit: syn::Lit::Str(s), .. }) => Some(s.value()),
        syn::Expr::Group(g) => lit_str(&g.expr),
        syn::Expr::Paren(g) => lit_str(&g.expr),
        _ => None,
    }
}

/// `Outer<Inner>` -> Inner when the (whitespace-free) path before `<` equals one of `outer`.
fn unwrap_generic<'a>(ty: &'a syn::Type, outer: &[&str]) -> Option<&'a syn::Type> {
    let syn::Type::Path(tp) = ty else { return None };
    if tp.qself.is_some() {
        return None;
    }
    let last = tp.path.segments.last()?;
    let syn::PathArguments::AngleBracketed(ab) = &last.arguments else { return None };
    let mut head = String::new();
    if tp.path.leading_colon.is_some() {
        head.push_str("::");
    }
    let n = tp.path.segments.len();
    for (i, s) in tp.path.segments.iter().enumerate() {
        head.push_str(&s.ident.to_string());
        if i + 1 < n {
            head.push_str("::");
        }
    }
    if !outer.contains(&head.as_str()) {
        return None;
    }
    ab.args.iter().find_map(|a| match a {
        syn::GenericArgument::Type(t) => Some(t),
        _ => None,
    })
}

#[derive(Debug, Default, Clone)]
struct ClientMethod {
    ident: String,
    paths: Vec<String>,
    grpc_methods: Vec<(String, String)>,
    calls: Vec<String>,
    codecs: Vec<String>,
    /// from the signature: Some(true) = `impl IntoStreamingRequest<Message = T>`, Some(false) = `impl IntoRequest<T>`
    sig_cs: Option<bool>,
    sig_ss: Option<bool>,
    req: String,
    resp: String,
}

struct BodyScan {
    paths: Vec<String>,
    grpc_methods: Vec<(String, String)>,
    inner_calls: Vec<String>,
    grpc_calls: Vec<String>,
    trait_calls: Vec<String>,
    codecs: Vec<String>,
}

impl BodyScan {
    fn new() -> Self {
        BodyScan { paths: vec![], grpc_methods: vec![], inner_calls: vec![], grpc_calls: vec![], trait_calls: vec![], codecs: vec![] }
    }
}

impl<'ast> Visit<'ast> for BodyScan {
    fn visit_expr_call(&mut self, c: &'ast syn::ExprCall) {
        if let syn::Expr::Path(ep) = &*c.func {
            let f = squash_tokens(&ep.path);
            if ep.qself.is_some() {
                // `<T as Trait>::method(..)`
                if let Some(l) = ep.path.segments.last() {
                    self.trait_calls.push(l.ident.to_string());
                }
            } else if f.ends_with("PathAndQuery::from_static") {
                match c.args.first().and_then(lit_str) {
                    Some(s) => self.paths.push(s),
                    None => self.paths.push("<non-literal>".into()),
                }
            } else if f.ends_with("GrpcMethod::new") {
                let a = c.args.iter().map(|a| lit_str(a).unwrap_or_else(|| "<non-literal>".into())).collect::<Vec<_>>();
                self.grpc_methods.push((a.first().cloned().unwrap_or_default(), a.get(1).cloned().unwrap_or_default()));
            }
        }
        visit::visit_expr_call(self, c);
    }
    fn visit_expr_method_call(&mut self, m: &'ast syn::ExprMethodCall) {
        let name = m.method.to_string();
        if Shape::from_call(&name).is_some() {
            let recv = squash_tokens(&m.receiver);
            if recv == "self.inner" {
                self.inner_calls.push(name.clone());
            } else if recv == "grpc" {
                self.grpc_calls.push(name.clone());
            }
        }
        visit::visit_expr_method_call(self, m);
    }
    fn visit_local(&mut self, l: &'ast syn::Local) {
        if let syn::Pat::Ident(pi) = &l.pat {
            if pi.ident == "codec" {
                if let Some(init) = &l.init {
                    if let syn::Expr::Call(c) = &*init.expr {
                        let f = squash_tokens(&c.func);
                        if let Some(p) = f.strip_suffix("::default") {
                            self.codecs.push(p.to_string());
                        }
                    }
                }
            }
        }
        visit::visit_local(self, l);
    }
}

fn result_response_inner(ret: &syn::ReturnType) -> Option<&syn::Type> {
    let syn::ReturnType::Type(_, t) = ret else { return None };
    let r = unwrap_generic(t, &["std::result::Result", "Result", "::std::result::Result", "core::result::Result"])?;
    unwrap_generic(r, &["tonic::Response"])
}

fn client_method(f: &syn::ImplItemFn) -> Option<ClientMethod> {
    let mut scan = BodyScan::new();
    scan.visit_block(&f.block);
    if scan.paths.is_empty() && scan.inner_calls.is_empty() {
        return None; // constructor / configuration method
    }
    let mut cm = ClientMethod {
        ident: f.sig.ident.to_string(),
        paths: scan.paths,
        grpc_methods: scan.grpc_methods,
        calls: scan.inner_calls,
        codecs: scan.codecs,
        ..Default::default()
    };
    // request: `impl tonic::IntoRequest<T>` | `impl tonic::IntoStreamingRequest<Message = T>`
    for arg in &f.sig.inputs {
        let syn::FnArg::Typed(pt) = arg else { continue };
        let syn::Type::ImplTrait(it) = &*pt.ty else { continue };
        for b in &it.bounds {
            let syn::TypeParamBound::Trait(tb) = b else { continue };
            let Some(last) = tb.path.segments.last() else { continue };
            let syn::PathArguments::AngleBracketed(ab) = &last.arguments else { continue };
            match last.ident.to_string().as_str() {
                "IntoRequest" => {
                    if let Some(syn::GenericArgument::Type(t)) = ab.args.first() {
                        cm.sig_cs = Some(false);
                        cm.req = squash_tokens(t);
                    }
                }
                "IntoStreamingRequest" => {
                    if let Some(syn::GenericArgument::AssocType(a)) = ab.args.first() {
                        if a.ident == "Message" {
                            cm.sig_cs = Some(true);
                            cm.req = squash_tokens(&a.ty);
                        }
                    }
                }
                _ => {}
            }
        }
    }
    // response: Result<tonic::Response<R>, _>, R = tonic::codec::Streaming<T> | T
    if let Some(r) = result_response_inner(&f.sig.output) {
        if let Some(inner) = unwrap_generic(r, &["tonic::codec::Streaming", "tonic::Streaming"]) {
            cm.sig_ss = Some(true);
            cm.resp = squash_tokens(inner);
        } else {
            cm.sig_ss = Some(false);
            cm.resp = squash_tokens(r);
        }
    }
    Some(cm)
}

#[derive(Debug, Clone)]
enum RetKind {
    Plain(String),
    BoxStream(String),
    Assoc(String),
    Unknown(String),
}

#[derive(Debug, Clone)]
struct TraitMethod {
    cs: Option<bool>,
    req: String,
    ret: RetKind,
}

#[derive(Debug, Default, Clone)]
struct Arm {
    lit: String,
    /// (service trait kind, its generic argument)
    svc_traits: Vec<(String, String)>,
    response: Vec<String>,
    response_stream: Vec<String>,
    /// does `call` take `tonic::Request<tonic::Streaming<_>>`
    call_cs: Vec<bool>,
    grpc_calls: Vec<String>,
    trait_calls: Vec<String>,
    codecs: Vec<String>,
}

#[derive(Debug, Default, Clone)]
struct Extracted {
    client_mods: Vec<String>,
    server_mods: Vec<String>,
    client: Vec<ClientMethod>,
    connect: bool,
    service_name_consts: Vec<String>,
    /// what `NamedService::NAME` is set to: `SERVICE_NAME` or a literal
    named_impl: Vec<String>,
    traits: usize,
    trait_methods: BTreeMap<String, TraitMethod>,
    /// associated stream type -> its `Item = Result<T, _>` T
    assoc_streams: BTreeMap<String, String>,
    matches: usize,
    arms: Vec<Arm>,
    nonliteral_arms: Vec<String>,
    wildcard: bool,
}

fn request_arg(sig: &syn::Signature) -> Option<(bool, String)> {
    // the `request: tonic::Request<X>` argument; X = tonic::Streaming<T> | T
    for a in &sig.inputs {
        let syn::FnArg::Typed(pt) = a else { continue };
        if let Some(x) = unwrap_generic(&pt.ty, &["tonic::Request"]) {
            if let Some(t) = unwrap_generic(x, &["tonic::Streaming", "tonic::codec::Streaming"]) {
                return Some((true, squash_tokens(t)));
            }
            return Some((false, squash_tokens(x)));
        }
    }
    None
}

struct ArmScan {
    arm: Arm,
}

impl<'ast> Visit<'ast> for ArmScan {
    fn visit_item_impl(&mut self, i: &'ast syn::ItemImpl) {
        if let Some((_, path, _)) = &i.trait_ {
            if let Some(last) = path.segments.last() {
                let kind = last.ident.to_string();
                if Shape::from_service_trait(&kind).is_some() {
                    let arg = match &last.arguments {
                        syn::PathArguments::AngleBracketed(ab) => ab
                            .args
                            .iter()
                            .find_map(|a| if let syn::GenericArgument::Type(t) = a { Some(squash_tokens(t)) } else { None })
                            .unwrap_or_default(),
                        _ => String::new(),
                    };
                    self.arm.svc_traits.push((kind, arg));
                    for it in &i.items {
                        match it {
                            syn::ImplItem::Type(t) if t.ident == "Response" => self.arm.response.push(squash_tokens(&t.ty)),
                            syn::ImplItem::Type(t) if t.ident == "ResponseStream" => {
                                self.arm.response_stream.push(squash_tokens(&t.ty))
                            }
                            syn::ImplItem::Fn(f) if f.sig.ident == "call" => {
                                if let Some((cs, _)) = request_arg(&f.sig) {
                                    self.arm.call_cs.push(cs);
                                }
                            }
                            _ => {}
                        }
                    }
                }
            }
        }
        visit::visit_item_impl(self, i);
    }
}

struct ServerScan<'a> {
    ex: &'a mut Extracted,
}

impl<'a, 'ast> Visit<'ast> for ServerScan<'a> {
    fn visit_item_const(&mut self, c: &'ast syn::ItemConst) {
        if c.ident == "SERVICE_NAME" {
            self.ex.service_name_consts.push(lit_str(&c.expr).unwrap_or_else(|| "<non-literal>".into()));
        }
        visit::visit_item_const(self, c);
    }
    fn visit_item_impl(&mut self, i: &'ast syn::ItemImpl) {
        if let Some((_, path, _)) = &i.trait_ {
            if path.segments.last().map(|s| s.ident == "NamedService").unwrap_or(false) {
                for it in &i.items {
                    if let syn::ImplItem::Const(c) = it {
                        if c.ident == "NAME" {
                            self.ex.named_impl.push(lit_str(&c.expr).map(|s| format!("{s:?}")).unwrap_or_else(|| squash_tokens(&c.expr)));
                        }
                    }
                }
            }
        }
        visit::visit_item_impl(self, i);
    }
    fn visit_item_trait(&mut self, t: &'ast syn::ItemTrait) {
        self.ex.traits += 1;
        for it in &t.items {
            match it {
                syn::TraitItem::Fn(f) => {
                    let (cs, req) = match request_arg(&f.sig) {
                        Some((cs, r)) => (Some(cs), r),
                        None => (None, String::new()),
                    };
                    let ret = match result_response_inner(&f.sig.output) {
                        None => RetKind::Unknown(squash_tokens(&f.sig.output)),
                        Some(r) => {
                            let s = squash_tokens(r);
                            if let Some(a) = s.strip_prefix("Self::") {
                                RetKind::Assoc(a.to_string())
                            } else if let Some(inner) = unwrap_generic(r, &["BoxStream", "tonic::codegen::BoxStream"]) {
                                RetKind::BoxStream(squash_tokens(inner))
                            } else {
                                RetKind::Plain(s)
                            }
                        }
                    };
                    self.ex.trait_methods.insert(f.sig.ident.to_string(), TraitMethod { cs, req, ret });
                }
                syn::TraitItem::Type(ty) => {
                    // `type XStream: …Stream<Item = std::result::Result<T, tonic::Status>> + Send + 'static`
                    for b in &ty.bounds {
                        let syn::TypeParamBound::Trait(tb) = b else { continue };
                        let Some(last) = tb.path.segments.last() else { continue };
                        if last.ident != "Stream" {
                            continue;
                        }
                        let syn::PathArguments::AngleBracketed(ab) = &last.arguments else { continue };
                        for a in &ab.args {
                            if let syn::GenericArgument::AssocType(at) = a {
                                if at.ident == "Item" {
                                    if let Some(t) =
                                        unwrap_generic(&at.ty, &["std::result::Result", "Result", "::std::result::Result"])
                                    {
                                        self.ex.assoc_streams.insert(ty.ident.to_string(), squash_tokens(t));
                                    }
                                }
                            }
                        }
                    }
                }
                _ => {}
            }
        }
        visit::visit_item_trait(self, t);
    }
    fn visit_expr_match(&mut self, m: &'ast syn::ExprMatch) {
        if squash_tokens(&m.expr) == "req.uri().path()" {
            self.ex.matches += 1;
            for arm in &m.arms {
                let lit = match &arm.pat {
                    syn::Pat::Lit(l) => match &l.lit {
                        syn::Lit::Str(s) if arm.guard.is_none() => Some(s.value()),
                        _ => None,
                    },
                    syn::Pat::Wild(_) if arm.guard.is_none() => {
                        self.ex.wildcard = true;
                        continue;
                    }
                    _ => None,
                };
                match lit {
                    None => self.ex.nonliteral_arms.push(squash_tokens(&arm.pat)),
                    Some(lit) => {
                        let mut scan = ArmScan { arm: Arm { lit, ..Default::default() } };
                        scan.visit_expr(&arm.body);
                        let mut b = BodyScan::new();
                        b.visit_expr(&arm.body);
                        scan.arm.grpc_calls = b.grpc_calls;
                        scan.arm.trait_calls = b.trait_calls;
                        scan.arm.codecs = b.codecs;
                        self.ex.arms.push(scan.arm);
                    }
                }
            }
            return; // arms are scanned above; nothing dispatches below them
        }
        visit::visit_expr_match(self, m);
    }
}

/// Find the generated `*_client` / `*_server` modules (at any depth) and extract what they send /
/// dispatch on.
fn extract(file: &syn::File) -> Extracted {
    fn walk(items: &[syn::Item], ex: &mut Extracted) {
        for it in items {
            let syn::Item::Mod(m) = it else { continue };
            let Some((_, inner)) = &m.content else { continue };
            let name = m.ident.to_string();
            if name.ends_with("_client") {
                ex.client_mods.push(name);
                for ci in inner {
                    let syn::Item::Impl(imp) = ci else { continue };
                    if imp.trait_.is_some() {
                        continue;
                    }
                    for ii in &imp.items {
                        let syn::ImplItem::Fn(f) = ii else { continue };
                        if f.sig.ident == "connect" {
                            ex.connect = true;
                        }
                        if let Some(cm) = client_method(f) {
                            ex.client.push(cm);
                        }
                    }
                }
            } else if name.ends_with("_server") {
                ex.server_mods.push(name);
                let mut s = ServerScan { ex: &mut *ex };
                for si in inner {
                    s.visit_item(si);
                }
            } else {
                walk(inner, ex);
            }
        }
    }
    let mut ex = Extracted::default();
    walk(&file.items, &mut ex);
    ex
}

fn render(ex: &Extracted) -> String {
    let mut s = String::new();
    s.push_str(&format!(
        "mods client={:?} server={:?} connect={} SERVICE_NAME={:?} NAME={:?} wildcard_arm={}\n",
        ex.client_mods, ex.server_mods, ex.connect, ex.service_name_consts, ex.named_impl, ex.wildcard
    ));
    for c in &ex.client {
        s.push_str(&format!(
            "C fn {} -> {:?} inner.{:?} sig(cs={:?},ss={:?}) ({} -> {}) GrpcMethod{:?} codec={:?}\n",
            c.ident, c.paths, c.calls, c.sig_cs, c.sig_ss, c.req, c.resp, c.grpc_methods, c.codecs
        ));
    }
    for a in &ex.arms {
        s.push_str(&format!(
            "S {:?} => grpc.{:?} {:?} Response={:?} ResponseStream={:?} call(cs={:?}) via {:?} codec={:?}\n",
            a.lit, a.grpc_calls, a.svc_traits, a.response, a.response_stream, a.call_cs, a.trait_calls, a.codecs
        ));
    }
    for (n, t) in &ex.trait_methods {
        s.push_str(&format!("T fn {n}(cs={:?}, {}) -> {:?}\n", t.cs, t.req, t.ret));
    }
    for (n, t) in &ex.assoc_streams {
        s.push_str(&format!("T type {n}: Stream<Item=Result<{t},_>>\n"));
    }
    for a in &ex.nonliteral_arms {
        s.push_str(&format!("S non-literal arm {a}\n"));
    }
    s
}

// ---------------------------------------------------------------------------------------------
// the oracle
// ---------------------------------------------------------------------------------------------

struct Judge<'a> {
    o: &'a mut Outcome,
    n: u64,
}

impl Judge<'_> {
    fn check(&mut self, ok: bool, key: &str, desc: impl FnOnce() -> String) -> bool {
        self.n += 1;
        if !ok {
            self.o.violate(key, desc());
        }
        ok
    }
    /// comparisons that cannot be evaluated because the item they are about is missing (the
    /// missing item itself has just been reported)
    fn skip(&mut self, k: u64) {
        self.n += k;
    }
}

fn last_segment(path: &str) -> &str {
    path.rsplit('/').next().unwrap_or("")
}

fn one<T: Clone>(v: &[T]) -> Option<T> {
    if v.len() == 1 {
        Some(v[0].clone())
    } else {
        None
    }
}

/// Compare what was extracted with the reference. Returns the number of comparisons evaluated.
fn judge(r: &Reference, ex: &Extracted, o: &mut Outcome) -> u64 {
    let mut j = Judge { o, n: 0 };
    let have_client = !ex.client_mods.is_empty();
    let have_server = !ex.server_mods.is_empty();
    // side selection (2)
    j.check(have_client == r.expect_client && ex.client_mods.len() <= 1, "side-selection", || {
        format!("client module expected={} but generated modules are {:?}", r.expect_client, ex.client_mods)
    });
    j.check(have_server == r.expect_server && ex.server_mods.len() <= 1, "side-selection", || {
        format!("server module expected={} but generated modules are {:?}", r.expect_server, ex.server_mods)
    });
    let ref_paths: BTreeSet<String> = r.methods.iter().map(|m| m.path.clone()).collect();
    let client_paths: BTreeSet<String> = ex.client.iter().flat_map(|c| c.paths.iter().cloned()).collect();
    let arm_paths: BTreeSet<String> = ex.arms.iter().map(|a| a.lit.clone()).collect();
    let service_name = one(&ex.service_name_consts);

    // per program, client (1)
    if r.expect_client {
        j.check(client_paths == ref_paths && ex.client.len() == r.methods.len(), "client-path-set", || {
            format!("client sends to {:?} ({} call methods) but the descriptor defines {:?}", client_paths, ex.client.len(), ref_paths)
        });
    }
    // per program, server (3)
    if r.expect_server {
        if have_server && (ex.matches != 1 || ex.traits != 1) {
            machinery(format!(
                "generated server no longer has the shape the extractor understands: {} `match req.uri().path()` and {} traits (expected 1 and 1)\n{}",
                ex.matches,
                ex.traits,
                render(ex)
            ));
        }
        j.check(
            arm_paths == ref_paths && ex.arms.len() == r.methods.len() && ex.nonliteral_arms.is_empty(),
            "server-arm-set",
            || {
                format!(
                    "server dispatches on {:?} ({} literal arms, non-literal arms {:?}) but the descriptor defines {:?}",
                    arm_paths,
                    ex.arms.len(),
                    ex.nonliteral_arms,
                    ref_paths
                )
            },
        );
        j.check(service_name.as_deref() == Some(r.service_name.as_str()), "service-name", || {
            format!("SERVICE_NAME is {:?}, expected {:?}", ex.service_name_consts, r.service_name)
        });
        let lit = format!("{:?}", r.service_name);
        j.check(
            ex.named_impl.len() == 1 && (ex.named_impl[0] == "SERVICE_NAME" || ex.named_impl[0] == lit),
            "service-name",
            || format!("NamedService::NAME is {:?}, expected SERVICE_NAME (= {:?})", ex.named_impl, r.service_name),
        );
    }
    // per program, cross (1)
    if r.expect_client && r.expect_server {
        j.check(client_paths == arm_paths, "client-server-path-mismatch", || {
            let only_c: Vec<_> = client_paths.difference(&arm_paths).collect();
            let only_s: Vec<_> = arm_paths.difference(&client_paths).collect();
            format!("paths only the client sends: {only_c:?}; paths only the server dispatches on: {only_s:?}")
        });
    }

    for m in &r.methods {
        // a generated item belongs to a descriptor method when its path ends in `/<proto method name>`
        let cm = ex.client.iter().find(|c| c.paths.iter().any(|p| last_segment(p) == m.proto));
        let arm = ex.arms.iter().find(|a| last_segment(&a.lit) == m.proto);
        let mut c_shape = None;
        if r.expect_client {
            // client (8)
            if !j.check(cm.is_some(), "client-path", || {
                format!("no client method sends to a path ending in /{}; client paths: {:?}", m.proto, client_paths)
            }) {
                j.skip(7);
            } else {
                let c = cm.unwrap();
                j.check(one(&c.paths).as_deref() == Some(m.path.as_str()), "client-path", || {
                    format!("client fn {} sends to {:?}, expected {:?}", c.ident, c.paths, m.path)
                });
                let gm = one(&c.grpc_methods);
                j.check(gm.as_ref().map(|g| g.0.as_str()) == Some(r.service_name.as_str()), "client-grpc-method", || {
                    format!("client fn {} records GrpcMethod {:?}, expected service {:?}", c.ident, c.grpc_methods, r.service_name)
                });
                j.check(gm.as_ref().map(|g| g.1.as_str()) == Some(m.proto.as_str()), "client-grpc-method", || {
                    format!("client fn {} records GrpcMethod {:?}, expected method {:?}", c.ident, c.grpc_methods, m.proto)
                });
                c_shape = one(&c.calls).and_then(|s| Shape::from_call(&s));
                j.check(c_shape == Some(m.shape), "client-shape", || {
                    format!("client fn {} calls self.inner.{:?} for {} which the descriptor declares {}", c.ident, c.calls, m.path, m.shape.short())
                });
                j.check(c.sig_cs == Some(m.shape.cs()) && c.sig_ss == Some(m.shape.ss()), "client-shape", || {
                    format!(
                        "client fn {} signature has client_streaming={:?} server_streaming={:?}, descriptor declares {}",
                        c.ident,
                        c.sig_cs,
                        c.sig_ss,
                        m.shape.short()
                    )
                });
                j.check(c.req == m.req, "client-types", || {
                    format!("client fn {} request type {} but descriptor input maps to {}", c.ident, c.req, m.req)
                });
                j.check(c.resp == m.resp, "client-types", || {
                    format!("client fn {} response type {} but descriptor output maps to {}", c.ident, c.resp, m.resp)
                });
            }
        }
        let mut s_shape = None;
        if r.expect_server {
            // server (12)
            if !j.check(arm.is_some(), "server-path", || {
                format!("no server arm dispatches on a path ending in /{}; arms: {:?}", m.proto, arm_paths)
            }) {
                j.skip(11);
            } else {
                let a = arm.unwrap();
                j.check(a.lit == m.path, "server-path", || format!("server arm {:?}, expected {:?}", a.lit, m.path));
                s_shape = one(&a.grpc_calls).and_then(|s| Shape::from_call(&s));
                j.check(s_shape == Some(m.shape), "server-shape", || {
                    format!("server arm {:?} calls grpc.{:?}, descriptor declares {}", a.lit, a.grpc_calls, m.shape.short())
                });
                let st = one(&a.svc_traits);
                j.check(st.as_ref().and_then(|s| Shape::from_service_trait(&s.0)) == Some(m.shape), "server-shape", || {
                    format!("server arm {:?} implements {:?}, descriptor declares {}", a.lit, a.svc_traits, m.shape.short())
                });
                j.check(one(&a.call_cs) == Some(m.shape.cs()), "server-shape", || {
                    format!("server arm {:?}: call() takes a streaming request = {:?}, descriptor declares {}", a.lit, a.call_cs, m.shape.short())
                });
                j.check(st.as_ref().map(|s| s.1.as_str()) == Some(m.req.as_str()), "server-types", || {
                    format!("server arm {:?} decodes {:?}, descriptor input maps to {}", a.lit, a.svc_traits, m.req)
                });
                j.check(one(&a.response).as_deref() == Some(m.resp.as_str()), "server-types", || {
                    format!("server arm {:?} has Response={:?}, descriptor output maps to {}", a.lit, a.response, m.resp)
                });
                let tm = one(&a.trait_calls).and_then(|n| ex.trait_methods.get(&n).map(|t| (n, t)));
                if !j.check(tm.is_some(), "server-trait-method", || {
                    format!("server arm {:?} calls trait method(s) {:?}; the trait has {:?}", a.lit, a.trait_calls, ex.trait_methods.keys().collect::<Vec<_>>())
                }) {
                    j.skip(3);
                } else {
                    let (n, t) = tm.unwrap();
                    let (t_ss, t_resp) = match &t.ret {
                        RetKind::Plain(x) => (Some(false), Some(x.clone())),
                        RetKind::BoxStream(x) => (Some(true), Some(x.clone())),
                        RetKind::Assoc(name) => (Some(true), ex.assoc_streams.get(name).cloned()),
                        RetKind::Unknown(_) => (None, None),
                    };
                    j.check(t.cs == Some(m.shape.cs()) && t_ss == Some(m.shape.ss()), "server-shape", || {
                        format!("trait fn {n} has client_streaming={:?} server_streaming={:?} ({:?}), descriptor declares {}", t.cs, t_ss, t.ret, m.shape.short())
                    });
                    j.check(t.req == m.req, "server-types", || format!("trait fn {n} takes {}, descriptor input maps to {}", t.req, m.req));
                    j.check(t_resp.as_deref() == Some(m.resp.as_str()), "server-types", || {
                        format!("trait fn {n} returns {:?} (item {:?}), descriptor output maps to {}", t.ret, t_resp, m.resp)
                    });
                }
                j.check(
                    service_name.as_ref().map(|s| a.lit.starts_with(&format!("/{s}/"))).unwrap_or(false),
                    "service-name-prefix",
                    || format!("server arm {:?} is not under \"/\" + SERVICE_NAME + \"/\" with SERVICE_NAME={:?}", a.lit, ex.service_name_consts),
                );
            }
        }
        if r.expect_client && r.expect_server {
            // cross (5)
            match (cm, arm) {
                (Some(c), Some(a)) => {
                    j.check(one(&c.paths).as_deref() == Some(a.lit.as_str()), "client-server-path-mismatch", || {
                        format!("client fn {} sends to {:?} but the server arm for {} is {:?}", c.ident, c.paths, m.proto, a.lit)
                    });
                    j.check(c_shape.is_some() && c_shape == s_shape, "client-server-shape-mismatch", || {
                        format!("{}: client calls inner.{:?}, server calls grpc.{:?}", m.path, c.calls, a.grpc_calls)
                    });
                    let st = one(&a.svc_traits);
                    j.check(Some(c.req.as_str()) == st.as_ref().map(|s| s.1.as_str()), "client-server-type-mismatch", || {
                        format!("{}: client encodes {}, server decodes {:?}", m.path, c.req, a.svc_traits)
                    });
                    j.check(Some(c.resp.as_str()) == one(&a.response).as_deref(), "client-server-type-mismatch", || {
                        format!("{}: client decodes {}, server encodes {:?}", m.path, c.resp, a.response)
                    });
                    j.check(
                        one(&c.codecs).is_some() && one(&c.codecs) == one(&a.codecs) && one(&c.codecs).as_deref() == Some(r.codec.as_str()),
                        "client-server-codec-mismatch",
                        || format!("{}: client codec {:?}, server codec {:?}, configured {}", m.path, c.codecs, a.codecs, r.codec),
                    );
                }
                _ => j.skip(5),
            }
        }
    }
    j.n
}

fn is_nontrivial(p: &Program) -> bool {
    let plain_name = |n: &str| n == "Get" || n == "M2";
    !(p.package.is_empty()
        && p.service == "S"
        && p.opts == Opts::DEFAULT
        && p.methods.len() == 1
        && p.methods[0].shape == Shape::Unary
        && plain_name(p.methods[0].proto))
}

fn program_body(p: &Program, _ch: &Chooser) -> Outcome {
    let r = reference(p);
    let file = match generate(p) {
        Ok(f) => f,
        Err(fail) => {
            let (key, text) = match fail {
                GenFail::Panic(t) => ("generator-panic", t),
                GenFail::Error(t) => ("generator-error", t),
                GenFail::Unparsable(t) => ("generated-unparsable", t),
            };
            let mut o = Outcome::new(format!("{key}: {text}"));
            o.nontrivial = is_nontrivial(p);
            o.violate(key, format!("tonic_build failed on a program of the grammar: {text}"));
            return o;
        }
    };
    let ex = extract(&file);
    let mut o = Outcome::new(format!("{}\n{}", describe(p), render(&ex)));
    o.nontrivial = is_nontrivial(p);
    let n = judge(&r, &ex, &mut o);
    if n != comparisons(&r) {
        machinery(format!("oracle evaluated {n} comparisons but the formula says {} for {}", comparisons(&r), describe(p)));
    }
    o
}

// ---------------------------------------------------------------------------------------------
// committed generated code vs the descriptors of the crates' own .proto files
// ---------------------------------------------------------------------------------------------

#[derive(Clone, Debug)]
struct CommittedCase {
    krate: &'static str,
    proto: &'static str,
    generated: &'static str,
}

const COMMITTED: [CommittedCase; 3] = [
    CommittedCase { krate: "tonic-health", proto: "proto/health.proto", generated: "src/generated/grpc_health_v1.rs" },
    CommittedCase { krate: "tonic-reflection", proto: "proto/reflection_v1.proto", generated: "src/generated/grpc_reflection_v1.rs" },
    CommittedCase { krate: "tonic-reflection", proto: "proto/reflection_v1alpha.proto", generated: "src/generated/grpc_reflection_v1alpha.rs" },
];

/// Reference for a committed file from the descriptor of its `.proto` (read from the repo at run
/// time). Message types of these three files are all top-level UpperCamel messages of the same
/// package, for which prost's documented Rust path is `super::<Name>`; anything else is refused.
fn committed_reference(c: &CommittedCase) -> Reference {
    let path = repo_root().join(c.krate).join(c.proto);
    let src = std::fs::read_to_string(&path).unwrap_or_else(|e| machinery(format!("cannot read {}: {e}", path.display())));
    let fds = compile_proto("x.proto", &src).unwrap_or_else(|e| machinery(format!("protox failed on {}: {e}", path.display())));
    let fd = fds.file.iter().find(|f| f.name() == "x.proto").unwrap_or_else(|| machinery("protox output lacks the file"));
    if fd.service.len() != 1 {
        machinery(format!("{} defines {} services; the committed-code check expects 1", path.display(), fd.service.len()));
    }
    let svc = &fd.service[0];
    let service_name = full_service_name(fd.package(), svc.name(), true);
    let prefix = format!(".{}.", fd.package());
    let ty = |t: &str| -> String {
        let Some(local) = t.strip_prefix(&prefix) else { machinery(format!("type {t} is outside package {}", fd.package())) };
        if local.contains('.') || !local.chars().next().map(|c| c.is_ascii_uppercase()).unwrap_or(false) || local.contains('_') {
            machinery(format!("type {t}: no hand-written Rust-path rule for this shape"));
        }
        format!("super::{local}")
    };
    let methods = svc
        .method
        .iter()
        .map(|m| RefMethod {
            proto: m.name().to_string(),
            path: format!("/{}/{}", service_name, m.name()),
            shape: Shape::of(m.client_streaming(), m.server_streaming()),
            req: ty(m.input_type()),
            resp: ty(m.output_type()),
        })
        .collect();
    Reference { service_name, methods, expect_client: true, expect_server: true, codec: PROST_CODEC.into() }
}

fn committed_body(c: &CommittedCase, _ch: &Chooser) -> Outcome {
    let r = committed_reference(c);
    let path = repo_root().join(c.krate).join(c.generated);
    let text = std::fs::read_to_string(&path).unwrap_or_else(|e| machinery(format!("cannot read {}: {e}", path.display())));
    let file = match syn::parse_file(&text) {
        Ok(f) => f,
        Err(e) => {
            let mut o = Outcome::new(format!("unparsable {}: {e}", path.display()));
            o.violate(format!("committed-unparsable:{}", c.krate), format!("{} is not Rust: {e}", path.display()));
            return o;
        }
    };
    let ex = extract(&file);
    let mut o = Outcome::new(format!("{} vs {}\n{}", c.generated, c.proto, render(&ex)));
    o.nontrivial = !r.methods.is_empty();
    let mut inner = Outcome::new("");
    let n = judge(&r, &ex, &mut inner);
    for (k, d) in inner.violations {
        o.violate(format!("committed:{k}"), format!("{}/{}: {d}", c.krate, c.generated));
    }
    if n != comparisons(&r) {
        machinery(format!("oracle evaluated {n} comparisons but the formula says {} for {}", comparisons(&r), c.generated));
    }
    o
}

// ---------------------------------------------------------------------------------------------
// regeneration diff: the real `codegen` crate, run on a scratch copy of the repo
// ---------------------------------------------------------------------------------------------

type Tree = BTreeMap<String, Vec<u8>>;

struct RegenOut {
    /// crate -> file name -> regenerated bytes
    trees: BTreeMap<String, Tree>,
    note: String,
}

enum RegenFail {
    /// the generator ran and failed: it cannot reproduce the committed code (a verdict)
    Run(String),
}

static REGEN: OnceLock<Result<RegenOut, RegenFail>> = OnceLock::new();

fn read_tree(dir: &Path) -> Result<Tree, String> {
    let mut t = Tree::new();
    let rd = std::fs::read_dir(dir).map_err(|e| format!("cannot list {}: {e}", dir.display()))?;
    for e in rd {
        let e = e.map_err(|e| e.to_string())?;
        let p = e.path();
        if p.is_file() {
            let b = std::fs::read(&p).map_err(|e| format!("cannot read {}: {e}", p.display()))?;
            t.insert(e.file_name().to_string_lossy().into_owned(), b);
        }
    }
    Ok(t)
}

fn fnv_bytes(b: &[u8]) -> u64 {
    let mut h: u64 = 0xcbf29ce484222325;
    for x in b {
        h ^= *x as u64;
        h = h.wrapping_mul(0x100000001b3);
    }
    h
}

/// relative path -> (content hash, length, mtime in ns since the epoch given to the copy)
type Manifest = BTreeMap<String, (u64, u64, u128)>;

fn load_manifest(p: &Path) -> Manifest {
    let mut m = Manifest::new();
    if let Ok(t) = std::fs::read_to_string(p) {
        for l in t.lines() {
            let mut it = l.splitn(4, ' ');
            if let (Some(h), Some(n), Some(t), Some(path)) = (it.next(), it.next(), it.next(), it.next()) {
                if let (Ok(h), Ok(n), Ok(t)) = (u64::from_str_radix(h, 16), n.parse(), t.parse()) {
                    m.insert(path.to_string(), (h, n, t));
                }
            }
        }
    }
    m
}

fn save_manifest(p: &Path, m: &Manifest) {
    let mut s = String::new();
    for (path, (h, n, t)) in m {
        s.push_str(&format!("{h:016x} {n} {t} {path}\n"));
    }
    let _ = std::fs::write(p, s);
}

struct CopyStats {
    files: u64,
    bytes: u64,
    changed: u64,
}

/// Copy the repo's *current working tree* (without `target` and `.git`). cargo decides freshness by
/// modification time, so the copy's mtimes are made a function of *content*: a file whose bytes are
/// the ones copied by the previous run gets the mtime it had then, anything else gets "now". The
/// persistent target dir therefore rebuilds exactly what changed in /repo, whatever /repo's own
/// mtimes say (patch tools that preserve old mtimes, checkouts, reverts).
fn copy_tree(from: &Path, to: &Path, rel: &str, old: &Manifest, new: &mut Manifest, st: &mut CopyStats) -> Result<(), String> {
    std::fs::create_dir_all(to).map_err(|e| format!("mkdir {}: {e}", to.display()))?;
    let mut entries: Vec<_> = std::fs::read_dir(from)
        .map_err(|e| format!("list {}: {e}", from.display()))?
        .collect::<Result<_, _>>()
        .map_err(|e| format!("list {}: {e}", from.display()))?;
    entries.sort_by_key(|e| e.file_name());
    for e in entries {
        let name = e.file_name();
        if rel.is_empty() && (name == "target" || name == ".git") {
            continue;
        }
        let ft = e.file_type().map_err(|e| e.to_string())?;
        let (src, dst) = (e.path(), to.join(&name));
        let r = if rel.is_empty() { name.to_string_lossy().into_owned() } else { format!("{rel}/{}", name.to_string_lossy()) };
        if ft.is_dir() {
            copy_tree(&src, &dst, &r, old, new, st)?;
        } else if ft.is_file() {
            let data = std::fs::read(&src).map_err(|e| format!("read {}: {e}", src.display()))?;
            std::fs::write(&dst, &data).map_err(|e| format!("write {}: {e}", dst.display()))?;
            if let Ok(perm) = e.metadata().map(|m| m.permissions()) {
                let _ = std::fs::set_permissions(&dst, perm);
            }
            let (h, n) = (fnv_bytes(&data), data.len() as u64);
            st.files += 1;
            st.bytes += n;
            let now = || std::time::SystemTime::now().duration_since(std::time::UNIX_EPOCH).map(|d| d.as_nanos()).unwrap_or(0);
            let t = match old.get(&r) {
                Some((oh, on, ot)) if *oh == h && *on == n => *ot,
                _ => {
                    st.changed += 1;
                    now()
                }
            };
            let mt = std::time::UNIX_EPOCH + std::time::Duration::new((t / 1_000_000_000) as u64, (t % 1_000_000_000) as u32);
            let f = std::fs::OpenOptions::new().write(true).open(&dst).map_err(|e| format!("open {}: {e}", dst.display()))?;
            f.set_modified(mt).map_err(|e| format!("set mtime {}: {e}", dst.display()))?;
            new.insert(r, (h, n, t));
        } else if ft.is_symlink() {
            if let Ok(target) = std::fs::read_link(&src) {
                let _ = std::os::unix::fs::symlink(target, &dst);
            }
        }
    }
    Ok(())
}

fn tail(s: &[u8], n: usize) -> String {
    let t = String::from_utf8_lossy(s);
    let lines: Vec<&str> = t.lines().collect();
    lines[lines.len().saturating_sub(n)..].join("\n")
}

fn run_regen() -> Result<RegenOut, RegenFail> {
    let t0 = Instant::now();
    let repo = repo_root();
    let root = scratch_root();
    std::fs::create_dir_all(&root).unwrap_or_else(|e| machinery(format!("cannot create scratch root {}: {e}", root.display())));
    // one regeneration at a time per scratch root (the lock is released when the process exits)
    let lock = std::fs::OpenOptions::new()
        .create(true)
        .truncate(false)
        .write(true)
        .open(root.join(".lock"))
        .unwrap_or_else(|e| machinery(format!("cannot open lock file in {}: {e}", root.display())));
    lock.lock().unwrap_or_else(|e| machinery(format!("cannot lock {}: {e}", root.display())));
    std::mem::forget(lock);

    let root = root.canonicalize().unwrap_or(root);
    let src = root.join("src");
    let target = root.join("target");
    // The generator binary has `<root>/src/codegen` baked in (env!("CARGO_MANIFEST_DIR")) and cargo
    // does not notice when that changes, so a target dir built under another root is discarded.
    let marker = target.join(".scratch-root");
    let here = root.to_string_lossy().into_owned();
    if target.exists() && std::fs::read_to_string(&marker).ok().as_deref() != Some(here.as_str()) {
        let _ = std::fs::remove_dir_all(&target);
    }
    std::fs::create_dir_all(&target).unwrap_or_else(|e| machinery(format!("cannot create {}: {e}", target.display())));
    std::fs::write(&marker, &here).unwrap_or_else(|e| machinery(format!("cannot write {}: {e}", marker.display())));
    if src.exists() {
        std::fs::remove_dir_all(&src).unwrap_or_else(|e| machinery(format!("cannot clear {}: {e}", src.display())));
    }
    let manifest_path = root.join("manifest.txt");
    let old_manifest = load_manifest(&manifest_path);
    let mut manifest = Manifest::new();
    let mut st = CopyStats { files: 0, bytes: 0, changed: 0 };
    copy_tree(&repo, &src, "", &old_manifest, &mut manifest, &mut st).unwrap_or_else(|e| machinery(format!("copying the repo failed: {e}")));
    let removed = old_manifest.keys().filter(|k| !manifest.contains_key(*k)).count();
    save_manifest(&manifest_path, &manifest);
    // empty the generated trees of the copy: whatever is there afterwards was produced by the generator
    for k in GENERATED_CRATES {
        let d = src.join(k).join(GENERATED_SUBDIR);
        let t = read_tree(&d).unwrap_or_else(|e| machinery(e));
        for name in t.keys() {
            std::fs::remove_file(d.join(name)).unwrap_or_else(|e| machinery(format!("cannot clear {}: {e}", d.display())));
        }
    }
    let t_copy = t0.elapsed().as_secs_f64();
    let cargo = |args: &[&str]| {
        let mut c = std::process::Command::new("cargo");
        c.args(args)
            .current_dir(&src)
            .env("CARGO_TARGET_DIR", &target)
            .env("CARGO_NET_OFFLINE", "true")
            .env_remove("RUSTFLAGS")
            .env_remove("CARGO_ENCODED_RUSTFLAGS")
            .env_remove("CARGO_BUILD_RUSTFLAGS")
            .stdin(std::process::Stdio::null());
        c.output().unwrap_or_else(|e| machinery(format!("cannot run cargo: {e}")))
    };
    // build failure = the tree does not compile = machinery error (exit 2), not a verdict
    let b = cargo(&["build", "-p", "codegen", "--offline", "--quiet"]);
    if !b.status.success() {
        let _ = std::fs::remove_dir_all(&src);
        machinery(format!("building the repo's codegen crate failed:\n{}", tail(&b.stderr, 30)));
    }
    let t_build = t0.elapsed().as_secs_f64();
    // run the built generator itself (its output root is baked in via env!(\"CARGO_MANIFEST_DIR\") = <scratch>/src/codegen)
    let bin = target.join("debug").join("codegen");
    let run = std::process::Command::new(&bin)
        .current_dir(&src)
        .stdin(std::process::Stdio::null())
        .output()
        .unwrap_or_else(|e| machinery(format!("cannot run {}: {e}", bin.display())));
    if !run.status.success() {
        let msg = format!("codegen exited with {}:\n{}", run.status, tail(&run.stderr, 15));
        let _ = std::fs::remove_dir_all(&src);
        return Err(RegenFail::Run(msg));
    }
    let mut trees = BTreeMap::new();
    for k in GENERATED_CRATES {
        let t = read_tree(&src.join(k).join(GENERATED_SUBDIR)).unwrap_or_else(|e| machinery(e));
        trees.insert(k.to_string(), t);
    }
    let _ = std::fs::remove_dir_all(&src);
    let note = format!(
        "scratch={} copied {} files / {} bytes ({} new or changed, {} removed since the previous run) in {t_copy:.1}s, build {:.1}s, run+collect {:.1}s",
        root.display(),
        st.files,
        st.bytes,
        st.changed,
        removed,
        t_build - t_copy,
        t0.elapsed().as_secs_f64() - t_build
    );
    eprintln!("[C11::regen] {note}");
    Ok(RegenOut { trees, note })
}

fn first_diff(a: &[u8], b: &[u8]) -> String {
    let (sa, sb) = (String::from_utf8_lossy(a), String::from_utf8_lossy(b));
    for (i, (la, lb)) in sa.lines().zip(sb.lines()).enumerate() {
        if la != lb {
            return format!("line {}: committed `{}` | generator `{}`", i + 1, truncate(la.trim(), 120), truncate(lb.trim(), 120));
        }
    }
    format!("one is a prefix of the other (committed {} bytes, generator {} bytes)", a.len(), b.len())
}

fn regen_body(krate: &&'static str, _ch: &Chooser) -> Outcome {
    let krate = *krate;
    let committed = read_tree(&repo_root().join(krate).join(GENERATED_SUBDIR)).unwrap_or_else(|e| machinery(e));
    let regen = REGEN.get_or_init(run_regen);
    let out = match regen {
        Ok(o) => o,
        Err(RegenFail::Run(msg)) => {
            // deterministic text only (the replay must reproduce it): the message is cached
            let mut o = Outcome::new(format!("{krate}: generator failed\n{msg}"));
            o.nontrivial = true;
            o.violate("regen-run-failed", format!("the repo's codegen binary failed, committed code cannot be reproduced: {msg}"));
            return o;
        }
    };
    let generated = &out.trees[krate];
    let mut obs = format!("{krate}/{GENERATED_SUBDIR}\n");
    let mut diffs = vec![];
    let names: BTreeSet<&String> = committed.keys().chain(generated.keys()).collect();
    let mut compared = 0;
    for n in names {
        match (committed.get(n), generated.get(n)) {
            (Some(a), Some(b)) => {
                compared += 1;
                let same = a == b;
                obs.push_str(&format!(
                    "{n}: committed {} bytes {} | generator {} bytes {} | {}\n",
                    a.len(),
                    fnv_hex(&String::from_utf8_lossy(a)),
                    b.len(),
                    fnv_hex(&String::from_utf8_lossy(b)),
                    if same { "identical" } else { "DIFFERENT" }
                ));
                if !same {
                    diffs.push(format!("{n} differs: {}", first_diff(a, b)));
                }
            }
            (Some(a), None) => {
                obs.push_str(&format!("{n}: committed {} bytes | NOT PRODUCED by the generator\n", a.len()));
                diffs.push(format!("{n} is committed but the generator does not produce it"));
            }
            (None, Some(b)) => {
                obs.push_str(&format!("{n}: NOT COMMITTED | generator {} bytes\n", b.len()));
                diffs.push(format!("{n} is produced by the generator but not committed"));
            }
            (None, None) => {}
        }
    }
    let mut o = Outcome::new(obs);
    o.nontrivial = compared > 0;
    if !diffs.is_empty() {
        o.violate(
            format!("regen-diff:{krate}"),
            format!("{krate}/{GENERATED_SUBDIR} is not what `cargo run -p codegen` produces from this tree: {}", diffs.join("; ")),
        );
    }
    o
}

// ---------------------------------------------------------------------------------------------

pub fn property(tier: Tier) -> Property {
    let cfg = Config { max_bound: 0, ..Default::default() };
    let mut sections = vec![];
    let mut n_programs = 0u64;
    let mut n_comparisons = 0u64;
    for (name, fronts) in [("manual-front-end", vec![Front::CodeGen, Front::ManualCompile]), ("prost-front-end", vec![Front::Prost])] {
        let mut cases = vec![];
        for f in fronts {
            cases.extend(programs(f, tier));
        }
        n_programs += cases.len() as u64;
        n_comparisons += cases.iter().map(|p| comparisons(&reference(p))).sum::<u64>();
        let n = cases.len() as u64;
        let rule = format!(
            "one case = one service definition pushed through the real tonic_build ({}); grammar: package in {{\"\",p,p.q}} x service in {{S,My_Svc,svc2}} x 1..=3 methods named from {{Get,get_it,M2,Type,Move,Self}} x 4 streaming kinds each, request/response types rotating over a 5-entry menu (incl. snake_case, nested and google.protobuf.Empty messages), options emit_package x use_arc_self x generate_default_stubs x build_transport x (both|client-only|server-only); thorough = full product over 200 method lists; quick = the full product for the 24 single-method lists, every option vector x package on rotating 3-method lists, and every 2-/3-method list once with the other dimensions rotating (c11.rs::programs). The generated Rust is parsed with syn; extracted per client fn: PathAndQuery::from_static literal, GrpcMethod::new(service, method), self.inner.<call>, signature shape, request/response types, codec; per server arm of `match req.uri().path()`: literal, grpc.<call>, *Service trait + its types, `<T as Trait>::method` with that trait method's signature; SERVICE_NAME / NamedService::NAME. Oracle: reference computed from the descriptor only (path = \"/\" + [package + \".\"] + Service + \"/\" + Method honouring emit_package; hand-written type map). Comparisons are counted per program as n_methods x (8 client + 12 server + 5 cross) + (1 client + 3 server + 1 cross) + 2 side-selection (restricted to the sides generated); every violation-free execution asserts that the oracle evaluated exactly that many. Non-trivial = anything but the single unary CamelCase method in service S without package under default options; distinct = distinct programs",
            if name == "manual-front-end" {
                "manual::Service -> CodeGenBuilder::generate_client/server token streams, and manual::Builder::compile to a temp dir for the option vectors it supports"
            } else {
                ".proto text -> protox (in-memory, no protoc) -> FileDescriptorSet (checked against the intended program) -> tonic_build::configure()..compile_fds to a temp dir, i.e. including prost-build's name mangling"
            }
        );
        sections.push(Section::new(name, cfg.clone(), &rule, cases, describe, program_body).mins(n, n / 2, n / 2));
    }

    // committed generated code against the descriptors of the crates' .proto files
    let committed: Vec<CommittedCase> = COMMITTED.to_vec();
    n_programs += committed.len() as u64;
    // (property() runs outside the explorer: turn a harness panic into a proper machinery exit)
    n_comparisons += match catch_unwind(AssertUnwindSafe(|| committed.iter().map(|c| comparisons(&committed_reference(c))).sum::<u64>())) {
        Ok(n) => n,
        Err(e) => crate::explore::machinery_exit(&format!(
            "cannot derive the references for the committed generated files: {}",
            e.downcast_ref::<crate::explore::Machinery>().map(|m| m.0.clone()).unwrap_or_else(|| "panic".into())
        )),
    };
    sections.push(
        Section::new(
            "committed-vs-descriptor",
            cfg.clone(),
            "one case = one committed generated file with services (health v1, reflection v1, reflection v1alpha) read from the repo at run time, put through the same syn extractor and oracle as the generated programs; the reference comes from the crate's own .proto compiled in memory with protox. Non-trivial = the descriptor has at least one method",
            committed,
            |c: &CommittedCase| format!("{}/{} vs {}", c.krate, c.generated, c.proto),
            committed_body,
        )
        .mins(3, 3, 3),
    );

    // regeneration diff
    let mut committed_files = 0u64;
    for k in GENERATED_CRATES {
        if let Ok(t) = read_tree(&repo_root().join(k).join(GENERATED_SUBDIR)) {
            committed_files += t.len() as u64;
        }
    }
    n_comparisons += committed_files;
    let regen_cfg = Config { max_bound: 0, hang_secs: 1800, threads: GENERATED_CRATES.len(), ..Default::default() };
    sections.push(
        Section::new(
            "regeneration-diff",
            regen_cfg,
            "one case = one crate with committed generated code (tonic-health, tonic-reflection, tonic-types). Once per run the repo's current working tree (without target/.git) is copied to $VERIF_SCRATCH/src (default /verif/target/regen/src; mtimes of the copy are derived from file content via $VERIF_SCRATCH/manifest.txt so that cargo rebuilds exactly what changed), the copy's src/generated directories are emptied, the repo's own `codegen` crate is built there (cargo build -p codegen --offline, persistent target dir $VERIF_SCRATCH/target) and its binary run; each case then compares the set of file names and every file byte-for-byte between <repo>/<crate>/src/generated and the regenerated directory, and the source copy is deleted. A build failure is a machinery error, a failing generator run or any difference is a violation. Non-trivial = at least one file of the crate was byte-compared; each compared file counts as one comparison",
            GENERATED_CRATES.to_vec(),
            |k: &&'static str| format!("{k}/{GENERATED_SUBDIR}"),
            regen_body,
        )
        .mins(3, 3, 3),
    );

    let mut extra = serde_json::Map::new();
    extra.insert("programs".into(), json!(n_programs));
    extra.insert("disagreements_checked".into(), json!(n_comparisons));
    extra.insert("committed_generated_files_byte_compared".into(), json!(committed_files));
    Property {
        id: "C11",
        level: "translation_validation",
        hang_is_violation: false,
        assumptions: vec![
            "the program space is the stated grammar (3 packages x 3 service names x method lists of length <= 3 over 6 names x 4 streaming kinds x 48 option vectors, one service per file); names, options (attributes, extern_path, compile_well_known_types, custom codec_path, disable_comments) and multi-service files outside it are not covered".into(),
            "generated code is validated structurally with syn (what is sent / dispatched on), it is not compiled or executed here; the runtime meaning of Grpc::{unary,..} and of the *Service traits is taken from tonic's API".into(),
            "the expected Rust path of a message type is a hand-written table for the five menu entries (prost naming convention), not derived from prost-build".into(),
            "protox is trusted to turn .proto text into the intended descriptor (each descriptor is checked against the intended program before use)".into(),
            "the regeneration diff uses the cargo registry cache offline and the Cargo.lock of the repo; it validates the three crates codegen/src/main.rs regenerates".into(),
        ],
        sections,
        extra,
    }
}
