//! C02 — the client observes exactly the messages, metadata and status the server produced.

use super::l1::*;
use crate::env::{spin_block_on, Chunking};
use crate::explore::{Chooser, Config, Outcome};
use crate::fixtures::echo::echo_client::EchoClient;
use crate::report::{Property, Section, Tier};
use std::sync::{Arc, Mutex};
use tonic::metadata::MetadataMap;

#[derive(Clone, Debug)]
pub struct CallCase {
    pub shape: Shape,
    pub req_msgs: Vec<Vec<u8>>,
    pub req_md: Md,
    pub script: Script,
    pub free_cuts: bool,
    /// both directions compressed with this encoding (client send+accept, server send+accept)
    pub enc: Option<crate::oracle::comp::Enc>,
    /// bodies are delivered in fixed 4 KiB chunks (large messages)
    pub fixed_chunks: bool,
    /// the same call is made a second time on the same client / channel and server (C02 only)
    pub repeat: bool,
    /// non-default configuration that must not change what the caller and the handler observe (C02
    /// l1-direct only): 0 none; 1 the client compresses its requests (gzip) but accepts no
    /// compressed responses, the server sends and accepts gzip; 2 the server has a decoding limit
    /// (64) that every request respects and the 200-byte responses exceed; 3 the client has an
    /// encoding limit (64) likewise, and the call is made through a clone of it; 4 the server has
    /// an encoding limit (300) that each 200-byte response respects and two of them together exceed
    pub cfg: u8,
}

pub fn status_menu(tier: Tier) -> Vec<StatusSpec> {
    let msgs: Vec<String> = vec!["".into(), "plain text".into(), "100% / %41".into(), "naïve ☃ 日本".into(), "ctl\u{1}\n\ttab\u{7f}".into()];
    let dets: Vec<Vec<u8>> = vec![vec![], vec![0xfb], vec![0xff, 0x3e], vec![0, 1, 2]];
    let mds = md_menu();
    let mut out = vec![];
    // every non-OK code with rotating message/details/metadata
    for code in 1..=16 {
        out.push(StatusSpec { code, message: msgs[code as usize % msgs.len()].clone(), details: dets[code as usize % dets.len()].clone(), md: mds[code as usize % mds.len()].clone() });
    }
    // full product of message x details x metadata for one code
    if tier == Tier::Thorough {
        for m in &msgs {
            for d in &dets {
                for md in &mds {
                    out.push(StatusSpec { code: 9, message: m.clone(), details: d.clone(), md: md.clone() });
                }
            }
        }
    } else {
        for (i, m) in msgs.iter().enumerate() {
            out.push(StatusSpec { code: 9, message: m.clone(), details: dets[i % dets.len()].clone(), md: mds[(i + 1) % mds.len()].clone() });
        }
        for (i, d) in dets.iter().enumerate() {
            out.push(StatusSpec { code: 13, message: msgs[(i + 2) % msgs.len()].clone(), details: d.clone(), md: mds[i % mds.len()].clone() });
        }
    }
    out
}

pub fn call_cases(tier: Tier) -> Vec<CallCase> {
    let mut out = vec![];
    let statuses = status_menu(tier);
    let mds = md_menu();
    let resp_sets: Vec<Vec<Vec<u8>>> = vec![vec![], vec![vec![9]], vec![vec![], vec![1, 2, 3]]];
    let mut n = 0usize;
    for shape in Shape::ALL {
        let reqs: Vec<Vec<Vec<u8>>> = if shape.streams_requests() {
            vec![vec![], vec![vec![7]], vec![vec![1], vec![2, 3]]]
        } else {
            vec![vec![vec![]], vec![vec![1, 2, 3]]]
        };
        let modes: Vec<BidiMode> = match shape {
            Shape::Bidi => vec![BidiMode::Echo, BidiMode::Ignore, BidiMode::ReadAll],
            Shape::ClientStream => vec![BidiMode::ReadAll, BidiMode::Ignore],
            _ => vec![BidiMode::Ignore],
        };
        for req_msgs in &reqs {
            for mode in &modes {
                let resps: Vec<Vec<Vec<u8>>> = if shape.streams_responses() && *mode != BidiMode::Echo { resp_sets.clone() } else { vec![vec![vec![4, 5]]] };
                for msgs in &resps {
                    // ends: OK + every status (+ handler-level error for streaming responses)
                    let mut ends: Vec<(Option<StatusSpec>, bool)> = vec![(None, false)];
                    for s in &statuses {
                        ends.push((Some(s.clone()), false));
                    }
                    if shape.streams_responses() {
                        ends.push((Some(statuses[2].clone()), true));
                        ends.push((Some(statuses[8].clone()), true));
                    }
                    for (end, handler_err) in ends {
                        n += 1;
                        let req_md = mds[n % mds.len()].clone();
                        let initial_md = mds[(n / 2) % mds.len()].clone();
                        let script = Script { initial_md, msgs: msgs.clone(), end, handler_err, bidi: *mode, disable_compression: false, exact_hint: false };
                        // the same call with message sources that announce their exact length
                        if n % 3 == 0 || (msgs.is_empty() && script.end.is_none()) {
                            let mut s2 = script.clone();
                            s2.exact_hint = true;
                            out.push(CallCase { shape, req_msgs: req_msgs.clone(), req_md: req_md.clone(), script: s2, free_cuts: false, enc: None, fixed_chunks: false, repeat: false, cfg: 0 });
                        }
                        if n % 4 == 1 {
                            out.push(CallCase { shape, req_msgs: req_msgs.clone(), req_md: req_md.clone(), script: script.clone(), free_cuts: false, enc: None, fixed_chunks: false, repeat: true, cfg: 0 });
                        }
                        out.push(CallCase { shape, req_msgs: req_msgs.clone(), req_md, script, free_cuts: false, enc: None, fixed_chunks: false, repeat: false, cfg: 0 });
                    }
                }
            }
        }
    }
    // compression in both directions with large, well compressible and poorly compressible messages
    {
        use crate::oracle::comp::Enc;
        let zeros = vec![0u8; 20_000];
        let noisy = super::codec_common::payload(40_000, 1);
        for shape in Shape::ALL {
            for enc in [Enc::Gzip, Enc::Deflate, Enc::Zstd] {
                for (req, resp) in [(zeros.clone(), noisy.clone()), (noisy.clone(), zeros.clone()), (vec![1u8, 2, 3], zeros.clone()), (vec![], vec![])] {
                    let req_msgs = if shape.streams_requests() { vec![req.clone(), vec![5]] } else { vec![req.clone()] };
                    let script = Script { initial_md: vec![], msgs: vec![resp.clone(), vec![6]], end: None, handler_err: false, bidi: BidiMode::ReadAll, disable_compression: false, exact_hint: false };
                    out.push(CallCase { shape, req_msgs: req_msgs.clone(), req_md: vec![], script: script.clone(), free_cuts: false, enc: Some(enc), fixed_chunks: true, repeat: false, cfg: 0 });
                    if req.len() <= 3 {
                        out.push(CallCase { shape, req_msgs: req_msgs.clone(), req_md: vec![], script: script.clone(), free_cuts: false, enc: Some(enc), fixed_chunks: true, repeat: true, cfg: 0 });
                    }
                    // the per-response opt-out (Response::disable_compression) on unary responses
                    if !shape.streams_responses() {
                        let mut s2 = script.clone();
                        s2.disable_compression = true;
                        out.push(CallCase { shape, req_msgs: req_msgs.clone(), req_md: vec![], script: s2, free_cuts: false, enc: Some(enc), fixed_chunks: true, repeat: false, cfg: 0 });
                    }
                }
            }
        }
    }
    // configurations that must be invisible to caller and handler
    {
        let big = vec![0x5au8; 200];
        for shape in Shape::ALL {
            for cfg in 1..=4u8 {
                let req_msgs = if shape.streams_requests() { vec![vec![1, 2, 3], vec![4]] } else { vec![vec![1, 2, 3]] };
                let script = Script { initial_md: vec![], msgs: vec![big.clone(), big.clone(), big.clone()], end: None, handler_err: false, bidi: BidiMode::ReadAll, disable_compression: false, exact_hint: false };
                out.push(CallCase { shape, req_msgs, req_md: vec![], script, free_cuts: false, enc: None, fixed_chunks: true, repeat: cfg == 3, cfg });
            }
        }
    }
    // a few small cases with every chunking (cuts cost nothing)
    for shape in Shape::ALL {
        let req_msgs = if shape.streams_requests() { vec![vec![1], vec![]] } else { vec![vec![1]] };
        for end in [None, Some(statuses[4].clone())] {
            let script = Script { initial_md: mds[1].clone(), msgs: vec![vec![2]], end, handler_err: false, bidi: BidiMode::ReadAll, disable_compression: false, exact_hint: false };
            out.push(CallCase { shape, req_msgs: req_msgs.clone(), req_md: mds[2].clone(), script, free_cuts: true, enc: None, fixed_chunks: false, repeat: false, cfg: 0 });
        }
    }
    out
}

/// The response messages the script produces, and whether it fails before any response exists
/// (trailers-only).
pub fn expected_response(c: &CallCase) -> (Vec<Vec<u8>>, bool) {
    let s = &c.script;
    let unary_resp = !c.shape.streams_responses();
    let early_err = s.handler_err || (unary_resp && s.end.is_some());
    let want_msgs: Vec<Vec<u8>> = if early_err {
        vec![]
    } else if unary_resp {
        vec![s.msgs.first().cloned().unwrap_or_default()]
    } else if c.shape == Shape::Bidi && s.bidi == BidiMode::Echo {
        c.req_msgs.clone()
    } else {
        s.msgs.clone()
    };
    (want_msgs, early_err)
}

/// Judge what the caller saw and what the handler saw against the script.
pub fn judge(o: &mut Outcome, c: &CallCase, view: &ClientView, log: &HandlerLog) {
    let s = &c.script;
    // handler side
    if log.calls != 1 {
        o.violate("handler-calls", format!("handler invoked {} times", log.calls));
        return;
    }
    let reads_input = match c.shape {
        Shape::Unary | Shape::ServerStream => true,
        Shape::ClientStream => s.bidi != BidiMode::Ignore,
        Shape::Bidi => s.bidi != BidiMode::Ignore && !s.handler_err,
    };
    if reads_input {
        let want: Vec<Vec<u8>> = if c.shape.streams_requests() { c.req_msgs.clone() } else { vec![c.req_msgs.first().cloned().unwrap_or_default()] };
        if log.req_msgs != want || log.req_err.is_some() {
            o.violate("request-messages", format!("handler received {:?} (err {:?}), caller sent {:?}", log.req_msgs, log.req_err, want));
        }
    }
    if let Some(h) = &log.req_md {
        if let Err(e) = md_contained(&MetadataMap::from_headers(h.clone()), &c.req_md) {
            o.violate("request-metadata", format!("handler-side metadata: {e}"));
        }
    }
    // caller side
    let (want_msgs, early_err) = expected_response(c);
    if view.msgs != want_msgs {
        o.violate("response-messages", format!("caller received {:?}, handler produced {:?}", view.msgs, want_msgs));
    }
    match (&s.end, &view.error) {
        (None, None) => {}
        (None, Some(e)) => o.violate("spurious-error", format!("handler succeeded but the caller got {}", crate::env::fmt_status(e))),
        (Some(st), None) => o.violate("status-lost", format!("handler ended with {st:?} but the caller saw success")),
        (Some(st), Some(e)) => {
            if let Err(why) = st.matches(e) {
                o.violate("status-mismatch", format!("caller got {} but the handler's status was {st:?}: {why}", crate::env::fmt_status(e)));
            }
        }
    }
    if !early_err {
        match &view.initial_md {
            None => {
                if view.error.is_none() {
                    o.violate("initial-metadata", "no response metadata visible");
                }
            }
            Some(h) => {
                if let Err(e) = md_contained(&MetadataMap::from_headers(h.clone()), &s.initial_md) {
                    o.violate("initial-metadata", format!("caller-side initial metadata: {e}"));
                }
            }
        }
    }
}

fn l1_body(c: &CallCase, ch: &Chooser) -> Outcome {
    let (mut server, log) = new_server(c.script.clone(), ch, true);
    if let Some(e) = c.enc {
        let e = super::codec_common::tonic_enc(e);
        server = server.send_compressed(e).accept_compressed(e);
    }
    match c.cfg {
        1 => server = server.send_compressed(tonic::codec::CompressionEncoding::Gzip).accept_compressed(tonic::codec::CompressionEncoding::Gzip),
        2 => server = server.max_decoding_message_size(64),
        4 => server = server.max_encoding_message_size(300),
        _ => {}
    }
    let capture = Arc::new(Mutex::new(Capture::default()));
    let chunking = if c.fixed_chunks { Chunking::Fixed(vec![4096, 1, 7000]) } else { Chunking::Choose { free: c.free_cuts, pending: true, empty: !c.free_cuts } };
    let direct = Direct { svc: server, ch: ch.clone(), req_chunking: chunking.clone(), resp_chunking: chunking, capture: capture.clone() };
    let mut client = EchoClient::new(direct);
    if let Some(e) = c.enc {
        let e = super::codec_common::tonic_enc(e);
        client = client.send_compressed(e).accept_compressed(e);
    }
    match c.cfg {
        1 => client = client.send_compressed(tonic::codec::CompressionEncoding::Gzip),
        3 => client = client.max_encoding_message_size(64).clone(),
        _ => {}
    }
    let view = match spin_block_on(client_call(&mut client, c.shape, c.req_msgs.clone(), &c.req_md, true, ch, |_| {}), 200_000) {
        Ok(v) => v,
        Err(_) => {
            let mut o = Outcome::new("STALLED");
            o.violate("stall", "the call did not complete");
            return o;
        }
    };
    let log_arc = log.clone();
    let log = log.lock().unwrap().clone();
    let mut o = Outcome::new(format!("{} | handler msgs={:?} err={:?}", fmt_view(&view), log.req_msgs, log.req_err));
    o.nontrivial = ch.deviations() > 0 || c.script.end.is_some();
    judge(&mut o, c, &view, &log);
    if ch.has_flag(crate::env::SOURCE_POLLED_AFTER_END) {
        o.violate("source-polled-after-end", "a request or response message stream was polled again after it had returned None (a legitimate non-fused stream may panic there and the call would be lost)");
    }
    if c.repeat {
        // the same call once more on the same client and server: nothing may carry over
        *log_arc.lock().unwrap() = HandlerLog::default();
        match spin_block_on(client_call(&mut client, c.shape, c.req_msgs.clone(), &c.req_md, true, ch, |_| {}), 200_000) {
            Err(_) => o.violate("second-call:stall", "the second call on the same client did not complete"),
            Ok(view2) => {
                let log2 = log_arc.lock().unwrap().clone();
                o.obs.push_str(&format!(" || second call: {} | handler msgs={:?} err={:?}", fmt_view(&view2), log2.req_msgs, log2.req_err));
                let before = o.violations.len();
                judge(&mut o, c, &view2, &log2);
                for v in o.violations.iter_mut().skip(before) {
                    v.0 = format!("second-call:{}", v.0);
                }
            }
        }
    }
    if c.script.disable_compression && c.enc.is_some() {
        // the handler opted out of compression for this response: its frames carry flag 0
        let cap = capture.lock().unwrap().clone();
        let (frames, _) = crate::oracle::wire::parse_frames(&cap.resp_body.bytes(), &[0, 1]);
        if frames.iter().any(|f| f.flag != 0) {
            o.violate("opt-out-ignored", "Response::disable_compression was set but the response message was sent compressed");
        }
    }
    o
}

/// L2: the same script through the real transport: Endpoint::connect_with_connector -> Channel
/// -> hyper/h2 -> in-memory pipe (fragmentation pattern `chop`) -> Server::serve_with_incoming.
pub fn l2_run(c: &CallCase, chop: usize, ch: &Chooser) -> Result<(ClientView, HandlerLog), String> {
    l2_run_all(c, chop, ch).map(|mut v| v.remove(0))
}

/// As `l2_run`; with `c.repeat` the call is made twice on the same channel (same HTTP/2
/// connection) and both (view, handler log) pairs are returned.
pub fn l2_run_all(c: &CallCase, chop: usize, ch: &Chooser) -> Result<Vec<(ClientView, HandlerLog)>, String> {
    use crate::env::vnet::{self, ConnectMode};
    let rt = vnet::runtime(11);
    let (mut server, log) = new_server(c.script.clone(), ch, true);
    if let Some(e) = c.enc {
        let e = super::codec_common::tonic_enc(e);
        server = server.send_compressed(e).accept_compressed(e);
    }
    let c2 = c.clone();
    let ch2 = ch.clone();
    let log2 = log.clone();
    let view = rt.block_on(async move {
        let (st, rx) = vnet::connector_state(ConnectMode::Succeed, false, chop);
        let srv = tokio::spawn(async move {
            let _ = tonic::transport::Server::builder().add_service(server).serve_with_incoming(vnet::incoming(rx)).await;
        });
        let channel = match vnet::within(std::time::Duration::from_secs(600), tonic::transport::Endpoint::from_static("http://c02.test:1").connect_with_connector(vnet::connector(st))).await {
            Some(Ok(c)) => c,
            Some(Err(e)) => return Err(format!("connect failed: {e}")),
            None => return Err("connect hung".into()),
        };
        let mut client = EchoClient::new(channel);
        if let Some(e) = c2.enc {
            let e = super::codec_common::tonic_enc(e);
            client = client.send_compressed(e).accept_compressed(e);
        }
        let mut out = vec![];
        for round in 0..(1 + c2.repeat as usize) {
            *log2.lock().unwrap() = HandlerLog::default();
            let v = vnet::within(std::time::Duration::from_secs(3600), client_call(&mut client, c2.shape, c2.req_msgs.clone(), &c2.req_md, true, &ch2, |_| {})).await;
            match v {
                None => {
                    srv.abort();
                    return Err(if round == 0 { "call hung".to_string() } else { "second call on the same channel hung".to_string() });
                }
                Some(v) => out.push((v, log2.lock().unwrap().clone())),
            }
        }
        srv.abort();
        Ok(out)
    })?;
    drop(rt);
    Ok(view)
}

#[derive(Clone, Debug)]
pub struct L2Case {
    pub call: CallCase,
    pub chop: usize,
}

fn l2_body(c: &L2Case, ch: &Chooser) -> Outcome {
    match l2_run_all(&c.call, c.chop, ch) {
        Err(e) => {
            let mut o = Outcome::new(format!("FAILED {e}"));
            o.violate(if e.contains("hung") { "hang" } else { "transport-setup" }, e);
            o
        }
        Ok(mut rounds) => {
            let (view, log) = rounds.remove(0);
            let mut clean = view.clone();
            // transport-added response headers (date) are not part of the observation
            if let Some(h) = clean.initial_md.as_mut() {
                h.remove("date");
            }
            if let Some(e) = clean.error.as_mut() {
                e.metadata_mut().remove("date");
            }
            let mut o = Outcome::new(format!("{} | handler msgs={:?} err={:?}", fmt_view(&clean), log.req_msgs, log.req_err));
            o.nontrivial = c.chop != 0 || c.call.script.end.is_some();
            judge(&mut o, &c.call, &view, &log);
            // the same call again on the same channel (same HTTP/2 connection) and server
            for (view2, log2) in rounds {
                o.obs.push_str(&format!(" || second call: {} | handler msgs={:?} err={:?}", fmt_view(&view2).replace("date=", "d="), log2.req_msgs, log2.req_err));
                let before = o.violations.len();
                judge(&mut o, &c.call, &view2, &log2);
                for v in o.violations.iter_mut().skip(before) {
                    v.0 = format!("second-call:{}", v.0);
                }
            }
            if ch.has_flag(crate::env::SOURCE_POLLED_AFTER_END) {
                o.violate("source-polled-after-end", "a request or response message stream was polled again after it had returned None");
            }
            o
        }
    }
}

pub fn describe(c: &CallCase) -> String {
    if c.fixed_chunks {
        return format!("{:?} enc={:?} opt_out={} req_lens={:?} resp_lens={:?} repeat={} cfg={} (large messages, fixed chunks)", c.shape, c.enc.map(|e| e.name()), c.script.disable_compression, c.req_msgs.iter().map(|m| m.len()).collect::<Vec<_>>(), c.script.msgs.iter().map(|m| m.len()).collect::<Vec<_>>(), c.repeat, c.cfg);
    }
    format!(
        "{:?} req={:?} req_md={:?} script{{md={:?} msgs={:?} end={:?} handler_err={} mode={:?} exact_size_hint={}}} free={} repeat={}",
        c.shape, c.req_msgs, c.req_md, c.script.initial_md, c.script.msgs, c.script.end, c.script.handler_err, c.script.bidi, c.script.exact_hint, c.free_cuts, c.repeat
    )
}

pub fn property(tier: Tier) -> Property {
    let l1 = Section::new(
        "l1-direct",
        Config { max_bound: tier.q(1, 2), ..Default::default() },
        "cases: call shape x request message sequence x caller metadata x handler script (initial metadata, 0..2 messages or echo/read-all/ignore-input modes, OK or Status(code in 1..16, message menu incl. '%'/non-ASCII/control chars, details menu, metadata menu), handler-level error), a quarter of them made twice in a row on the same client and server (the second call is judged like the first), plus four non-default configurations that must stay invisible (a client that compresses its requests but accepts no compressed responses; a server decoding limit, a cloned client's encoding limit and a server encoding limit that every single message respects); generated client -> in-process adapter -> generated server, no runtime. Environment: both bodies re-delivered with every chunking with <= bound cuts/Pending/empty-DATA-frame deviations (every composition for the small free-cut cases), request and response message sources may answer Pending. Oracle: the script itself (messages in order, outcome, code/message/details equal, metadata contained per key in order; handler saw the caller's messages and metadata). Non-trivial = at least one deviation taken or an error status scripted.",
        call_cases(tier),
        describe,
        l1_body,
    )
    .mins(1000, 20, 100);
    let mut l2cases = vec![];
    for (i, call) in call_cases(tier).into_iter().enumerate() {
        if call.free_cuts || call.cfg != 0 {
            continue;
        }
        let chops: Vec<usize> = if tier == Tier::Thorough { (0..6).collect() } else { vec![i % 6] };
        for chop in chops {
            l2cases.push(L2Case { call: call.clone(), chop });
        }
    }
    let l2 = Section::new(
        "l2-transport",
        Config { max_bound: tier.q(1, 2), hang_secs: 60, ..Default::default() },
        "cases: every call case of l1-direct through the real transport — Endpoint::connect_with_connector -> Channel -> hyper/h2 -> in-memory pipe -> Server::serve_with_incoming -> generated server — in virtual time, with the pipe fragmenting reads/writes by a pattern from a menu of 6 (unbounded, 1-byte, 1-2-3 with Pending every 5th transfer, 7 with Pending every 2nd, 64, 4096; quick: one rotating pattern per case, thorough: all six); environment: request and response message sources answer Pending (<= bound deviations); oracle: the same script-derived judgement as l1-direct. Non-trivial = a fragmenting pattern or an error status scripted.",
        l2cases,
        |c: &L2Case| format!("chop={} {}", c.chop, describe(&c.call)),
        l2_body,
    )
    .mins(500, 20, 100);
    Property {
        id: "C02",
        level: "model_checking",
        hang_is_violation: true,
        assumptions: vec!["reserved metadata names are outside this alphabet (C08)".into(), "Code::Ok is not an error status".into()],
        sections: vec![l1, l2],
        extra: Default::default(),
    }
}
