//! C10 — requests reach exactly the method named by the path, else UNIMPLEMENTED.

use crate::env::{collect_body, fmt_headers, spin_block_on, Chunking, ScriptBody};
use crate::explore::{Chooser, Config, Outcome};
use crate::fixtures::*;
use crate::oracle::wire;
use crate::report::{Property, Section, Tier};
use std::sync::{Arc, Mutex};
use tonic::service::Routes;
use tonic::{Request, Response, Status};
use tower_layer::Layer;
use tower_service::Service;

pub const SERVICES: [&str; 5] = ["a.Sv", "a.SvX", "a.sv", "Sv", "x.a.Sv"];
pub const METHODS: [&str; 3] = ["M", "MN", "m"];

type Log = Arc<Mutex<Vec<(usize, usize)>>>;

#[derive(Clone)]
pub struct H {
    pub svc: usize,
    pub log: Log,
}

macro_rules! impl_handler {
    ($path:path) => {
        #[tonic::async_trait]
        impl $path for H {
            async fn m_upper(&self, _r: Request<Vec<u8>>) -> Result<Response<Vec<u8>>, Status> {
                self.log.lock().unwrap().push((self.svc, 0));
                Ok(Response::new(vec![self.svc as u8, 0]))
            }
            async fn mn(&self, _r: Request<Vec<u8>>) -> Result<Response<Vec<u8>>, Status> {
                self.log.lock().unwrap().push((self.svc, 1));
                Ok(Response::new(vec![self.svc as u8, 1]))
            }
            async fn m_lower(&self, _r: Request<Vec<u8>>) -> Result<Response<Vec<u8>>, Status> {
                self.log.lock().unwrap().push((self.svc, 2));
                Ok(Response::new(vec![self.svc as u8, 2]))
            }
        }
    };
}
impl_handler!(route_a_Sv::sv_server::Sv);
impl_handler!(route_a_SvX::sv_x_server::SvX);
impl_handler!(route_a_sv::sv_server::sv);
impl_handler!(route__Sv::sv_server::Sv);
impl_handler!(route_x_a_Sv::sv_server::Sv);

#[derive(Clone, Copy, Debug, PartialEq, Eq)]
pub enum Wrap {
    Plain,
    Intercepted,
    Web,
}

fn pass(r: Request<()>) -> Result<Request<()>, Status> {
    Ok(r)
}

macro_rules! add_one {
    ($routes:expr, $server:path, $h:expr, $wrap:expr) => {{
        type S = $server;
        match $wrap {
            Wrap::Plain => $routes.add_service(<S>::new($h)),
            Wrap::Intercepted => $routes.add_service(<S>::with_interceptor($h, pass as fn(Request<()>) -> Result<Request<()>, Status>)),
            Wrap::Web => $routes.add_service(tonic_web::GrpcWebLayer::new().layer(<S>::new($h))),
        }
    }};
}

pub fn add(routes: Routes, svc: usize, wrap: Wrap, log: &Log) -> Routes {
    let h = H { svc, log: log.clone() };
    match svc {
        0 => add_one!(routes, route_a_Sv::sv_server::SvServer<H>, h, wrap),
        1 => add_one!(routes, route_a_SvX::sv_x_server::SvXServer<H>, h, wrap),
        2 => add_one!(routes, route_a_sv::sv_server::svServer<H>, h, wrap),
        3 => add_one!(routes, route__Sv::sv_server::SvServer<H>, h, wrap),
        4 => add_one!(routes, route_x_a_Sv::sv_server::SvServer<H>, h, wrap),
        _ => unreachable!(),
    }
}

#[derive(Clone, Debug)]
struct Case {
    order: Vec<usize>,
    wrap: Wrap,
    builder: bool,
    path: String,
    /// 0: one complete empty message; 1: the same, but the peer has not closed its request stream
    /// (and never will); 2: a 3 MiB request message
    req_body: u8,
    /// HTTP method and content-type of the request: routing is by path alone
    method: &'static str,
    content_type: &'static str,
}

/// `RefRouter`: which (service, method) must run for this path.
pub fn reference(registered: &[usize], path_and_query: &str) -> Option<(usize, usize)> {
    let path = path_and_query.split('?').next().unwrap_or("");
    for s in registered {
        for (mi, m) in METHODS.iter().enumerate() {
            if path == format!("/{}/{}", SERVICES[*s], m) {
                return Some((*s, mi));
            }
        }
    }
    None
}

pub fn paths() -> Vec<String> {
    let mut out: Vec<String> = vec!["/".into(), "".into(), "//".into(), "/x".into(), "/x/y".into(), "*".into()];
    let mut names: Vec<String> = SERVICES.iter().map(|s| s.to_string()).collect();
    names.push("zz.Unknown".into());
    names.push("a".into());
    names.push("a.".into());
    let mut methods: Vec<String> = METHODS.iter().map(|s| s.to_string()).collect();
    methods.push("X".into());
    for s in &names {
        out.push(format!("/{s}"));
        out.push(format!("/{s}/"));
        for m in &methods {
            let exact = format!("/{s}/{m}");
            out.push(exact.clone());
            out.push(format!("{exact}?q=1"));
            out.push(format!("{exact}/"));
            out.push(format!("{exact}/extra"));
            out.push(format!("{exact}x"));
            out.push(format!("/{s}x/{m}"));
            out.push(format!("/x{s}/{m}"));
            out.push(format!("/{s}//{m}"));
            out.push(format!("//{s}/{m}"));
            out.push(format!("/{s}/{m}//"));
            out.push(format!("/{}/{}", s.to_ascii_uppercase(), m));
            out.push(format!("/{}/{}", s.to_ascii_lowercase(), m));
            out.push(format!("/{}/{}", s, m.to_ascii_lowercase()));
            out.push(format!("/{}/{}", s, m.to_ascii_uppercase()));
            out.push(format!("/{}/{}", &s[..s.len() - 1], m));
            if s.len() > 1 {
                out.push(format!("/{}/{}", &s[1..], m));
            }
            out.push(format!("/{}/{}", s, &m[..m.len() - 1]));
            out.push(format!("/{}/%{:02X}{}", s, m.as_bytes()[0], &m[1..]));
            out.push(format!("/%{:02X}{}/{}", s.as_bytes()[0], &s[1..], m));
            out.push(format!("/{}/{}", s.replace('.', "%2E"), m));
            out.push(format!("/{}/{}", s.replace('.', "/"), m));
            out.push(format!("/prefix/{s}/{m}"));
            out.push(format!("/{s}/{m}/{s}/{m}"));
            out.push(format!("/{s}/./{m}"));
            out.push(format!("/{s}/../{s}/{m}"));
        }
    }
    out.sort();
    out.dedup();
    // keep only what the http crate accepts as a request target
    out.retain(|p| !p.is_empty() && p.parse::<http::Uri>().is_ok());
    out
}

fn body(c: &Case, ch: &Chooser) -> Outcome {
    let log: Log = Arc::new(Mutex::new(vec![]));
    let mut routes = if c.builder {
        Routes::builder().routes()
    } else {
        Routes::default()
    };
    for s in &c.order {
        routes = add(routes, *s, c.wrap, &log);
    }
    let mut routes = routes.prepare();
    let uri: http::Uri = c.path.parse().unwrap();
    let req = http::Request::builder()
        .method(c.method)
        .uri(uri)
        .version(http::Version::HTTP_2)
        .header("content-type", c.content_type)
        .header("te", "trailers")
        .body(match c.req_body {
            0 => ScriptBody::new(wire::encode_frame(0, &[]), None, Chunking::Fixed(vec![]), ch),
            1 => ScriptBody::new(wire::encode_frame(0, &[]), None, Chunking::Fixed(vec![]), ch).with_end(crate::env::BodyEnd::NeverEnds),
            _ => ScriptBody::new(wire::encode_frame(0, &vec![0x41u8; 3 * 1024 * 1024]), None, Chunking::Fixed(vec![16384]), ch),
        })
        .unwrap();
    let resp = match spin_block_on(Service::call(&mut routes, req), 100_000) {
        Ok(Ok(r)) => r,
        _ => {
            let mut o = Outcome::new("STALLED");
            o.violate("stall", "router call did not complete");
            return o;
        }
    };
    let (parts, b) = resp.into_parts();
    let got = collect_body(b, 10_000);
    let ran = log.lock().unwrap().clone();
    let status = parts.headers.get("grpc-status").or_else(|| got.trailers.iter().find_map(|t| t.get("grpc-status"))).map(|v| String::from_utf8_lossy(v.as_bytes()).to_string());
    let want = reference(&c.order, &c.path);
    let mut o = Outcome::new(format!("ran={ran:?} http={} grpc-status={status:?} want={want:?}", parts.status));
    o.nontrivial = want.is_some() || c.path.len() > 3;
    match want {
        Some(w) => {
            if ran != vec![w] {
                o.violate("exact-path-not-dispatched", format!("path {} names {}.{} but handlers run: {:?}", c.path, SERVICES[w.0], METHODS[w.1], ran));
            } else if status.as_deref() != Some("0") {
                o.violate("exact-path-status", format!("handler ran but grpc-status {status:?} [{}]", fmt_headers(&parts.headers)));
            }
        }
        None => {
            if !ran.is_empty() {
                o.violate("inexact-path-dispatched", format!("path {} is not exactly /S/M of a registered service but handler {:?} ran", c.path, ran.iter().map(|(s, m)| format!("{}/{}", SERVICES[*s], METHODS[*m])).collect::<Vec<_>>()));
            }
            if status.as_deref() != Some("12") {
                o.violate("unknown-path-not-unimplemented", format!("path {} answered with http {} grpc-status {status:?}", c.path, parts.status));
            }
        }
    }
    o
}

// ---------------------------------------------------------------------------------------------
// the same question through the real transport server (Server::builder().add_service)

#[derive(Clone, Debug)]
struct NetCase {
    order: Vec<usize>,
    chop: usize,
    /// register every service through add_optional_service(Some(..)) and insert one absent
    /// optional service (None) after this many registrations (must not disturb the others)
    optional_none_after: Option<usize>,
    /// build a `Routes` first (RoutesBuilder) and hand it to Server::add_routes
    via_add_routes: bool,
}

macro_rules! router_add {
    ($router:expr, $svc:expr, $log:expr) => {{
        let h = H { svc: $svc, log: $log.clone() };
        match $svc {
            0 => $router.add_service(route_a_Sv::sv_server::SvServer::new(h)),
            1 => $router.add_service(route_a_SvX::sv_x_server::SvXServer::new(h)),
            2 => $router.add_service(route_a_sv::sv_server::svServer::new(h)),
            3 => $router.add_service(route__Sv::sv_server::SvServer::new(h)),
            _ => $router.add_service(route_x_a_Sv::sv_server::SvServer::new(h)),
        }
    }};
}

fn net_body(c: &NetCase, _ch: &Chooser) -> Outcome {
    use crate::env::vnet::{self, ConnectMode};
    use http_body_util::BodyExt;
    let rt = vnet::runtime(31);
    let c2 = c.clone();
    let ps = paths();
    let results: Vec<(String, Vec<(usize, usize)>, Option<String>, String)> = rt.block_on(async move {
        let c = c2;
        let log: Log = Arc::new(Mutex::new(vec![]));
        let (st, rx) = vnet::connector_state(ConnectMode::Succeed, false, c.chop);
        let mut router = {
            let first = c.order[0];
            let mut b = tonic::transport::Server::builder();
            let h = H { svc: first, log: log.clone() };
            match first {
                0 => b.add_service(route_a_Sv::sv_server::SvServer::new(h)),
                1 => b.add_service(route_a_SvX::sv_x_server::SvXServer::new(h)),
                2 => b.add_service(route_a_sv::sv_server::svServer::new(h)),
                3 => b.add_service(route__Sv::sv_server::SvServer::new(h)),
                _ => b.add_service(route_x_a_Sv::sv_server::SvServer::new(h)),
            }
        };
        if c.optional_none_after == Some(1) {
            router = router.add_optional_service(None::<route_x_a_Sv::sv_server::SvServer<H>>);
        }
        for (k, s) in c.order[1..].iter().enumerate() {
            if c.optional_none_after.is_some() {
                let h = H { svc: *s, log: log.clone() };
                router = match *s {
                    0 => router.add_optional_service(Some(route_a_Sv::sv_server::SvServer::new(h))),
                    1 => router.add_optional_service(Some(route_a_SvX::sv_x_server::SvXServer::new(h))),
                    2 => router.add_optional_service(Some(route_a_sv::sv_server::svServer::new(h))),
                    3 => router.add_optional_service(Some(route__Sv::sv_server::SvServer::new(h))),
                    _ => router.add_optional_service(Some(route_x_a_Sv::sv_server::SvServer::new(h))),
                };
            } else {
                router = router_add!(router, *s, log);
            }
            if c.optional_none_after == Some(k + 2) {
                router = router.add_optional_service(None::<route_x_a_Sv::sv_server::SvServer<H>>);
            }
        }
        if c.via_add_routes {
            let mut routes = Routes::default();
            for s in &c.order {
                routes = add(routes, *s, Wrap::Plain, &log);
            }
            router = tonic::transport::Server::builder().add_routes(routes);
        }
        tokio::spawn(async move {
            let _ = router.serve_with_incoming(vnet::incoming(rx)).await;
        });
        use tower_service::Service;
        let mut conn = vnet::connector(st);
        let io = conn.call(http::Uri::from_static("http://c10.test:1")).await.unwrap_or_else(|e| crate::explore::machinery(format!("pipe: {e}")));
        let (mut send, connection) = hyper::client::conn::http2::handshake(hyper_util::rt::TokioExecutor::new(), io).await.unwrap_or_else(|e| crate::explore::machinery(format!("handshake: {e}")));
        tokio::spawn(async move {
            let _ = connection.await;
        });
        let mut out = vec![];
        for p in ps {
            let Ok(uri) = format!("http://c10.test:1{p}").parse::<http::Uri>() else { continue };
            let before = log.lock().unwrap().len();
            let req = http::Request::builder()
                .method("POST")
                .uri(uri)
                .header("content-type", "application/grpc")
                .header("te", "trailers")
                .body(http_body_util::Full::new(bytes::Bytes::from(wire::encode_frame(0, &[]))))
                .unwrap();
            let r = vnet::within(std::time::Duration::from_secs(600), async {
                let resp = send.send_request(req).await.map_err(|e| e.to_string())?;
                let (parts, body) = resp.into_parts();
                let col = body.collect().await.map_err(|e| e.to_string())?;
                let status = parts.headers.get("grpc-status").cloned().or_else(|| col.trailers().and_then(|t| t.get("grpc-status").cloned()));
                Ok::<_, String>((parts.status, status.map(|v| String::from_utf8_lossy(v.as_bytes()).to_string())))
            })
            .await;
            let ran: Vec<(usize, usize)> = log.lock().unwrap()[before..].to_vec();
            match r {
                None => out.push((p, ran, None, "hang".to_string())),
                Some(Err(e)) => out.push((p, ran, None, format!("error {e}"))),
                Some(Ok((http, st))) => out.push((p, ran, st, http.to_string())),
            }
        }
        out
    });
    drop(rt);
    let mut o = Outcome::new(format!("{:?}", results.iter().map(|(p, ran, st, http)| format!("{p}=>{ran:?}/{st:?}/{http}")).collect::<Vec<_>>()));
    o.nontrivial = true;
    for (p, ran, st, http) in &results {
        match reference(&c.order, p) {
            Some(w) => {
                if ran != &vec![w] {
                    o.violate("net-exact-path-not-dispatched", format!("path {p} names {}.{} but handlers run: {ran:?} ({http})", SERVICES[w.0], METHODS[w.1]));
                } else if st.as_deref() != Some("0") {
                    o.violate("net-exact-path-status", format!("path {p}: handler ran but grpc-status {st:?}"));
                }
            }
            None => {
                if !ran.is_empty() {
                    o.violate("net-inexact-path-dispatched", format!("path {p} is not exactly /S/M of a registered service but handler {ran:?} ran"));
                }
                if st.as_deref() != Some("12") {
                    o.violate("net-unknown-path-not-unimplemented", format!("path {p} answered with http {http} grpc-status {st:?}"));
                }
            }
        }
    }
    o
}

fn registrations(tier: Tier) -> Vec<Vec<usize>> {
    let mut out = vec![];
    for mask in 1u32..32 {
        let set: Vec<usize> = (0..5).filter(|i| mask & (1 << i) != 0).collect();
        out.push(set.clone());
        let mut rev = set.clone();
        rev.reverse();
        if rev != set {
            out.push(rev);
        }
        if set.len() == 3 || (tier == Tier::Thorough && set.len() >= 4) {
            // all orders
            let mut perm = set.clone();
            permute(&mut perm, 0, &mut out);
        }
    }
    out.sort();
    out.dedup();
    out
}

fn permute(v: &mut Vec<usize>, k: usize, out: &mut Vec<Vec<usize>>) {
    if k == v.len() {
        out.push(v.clone());
        return;
    }
    for i in k..v.len() {
        v.swap(k, i);
        permute(v, k + 1, out);
        v.swap(k, i);
    }
}

pub fn property(tier: Tier) -> Property {
    let ps = paths();
    let regs = registrations(tier);
    let mut cases = vec![];
    for (ri, order) in regs.iter().enumerate() {
        for (wi, wrap) in [Wrap::Plain, Wrap::Intercepted, Wrap::Web].iter().enumerate() {
            if tier == Tier::Quick && (ri + wi) % 3 != 0 && order.len() != 2 {
                continue;
            }
            for (pi, p) in ps.iter().enumerate() {
                if tier == Tier::Quick && order.len() > 2 && (pi + ri) % 4 != 0 {
                    continue;
                }
                cases.push(Case { order: order.clone(), wrap: *wrap, builder: (ri + pi) % 2 == 0, path: p.clone(), req_body: 0, method: "POST", content_type: "application/grpc" });
                // the same path under another HTTP method / with a message subtype in the content-type
                if *wrap != Wrap::Web && (ri + pi) % 3 == 0 {
                    let (method, content_type) = [("PUT", "application/grpc"), ("POST", "application/grpc+proto"), ("GET", "application/grpc+json")][(ri + pi) / 3 % 3];
                    cases.push(Case { order: order.clone(), wrap: *wrap, builder: (ri + pi) % 2 == 0, path: p.clone(), req_body: 0, method, content_type });
                }
                // a path that names nothing is refused whatever the state of the request body
                // (grpc-web wrapping buffers differently and is left to C16)
                if *wrap != Wrap::Web && reference(order, p).is_none() {
                    if (ri + pi) % 5 == 0 {
                        cases.push(Case { order: order.clone(), wrap: *wrap, builder: (ri + pi) % 2 == 1, path: p.clone(), req_body: 1, method: "POST", content_type: "application/grpc" });
                    }
                    if (ri * 7 + pi) % 211 == 0 {
                        cases.push(Case { order: order.clone(), wrap: *wrap, builder: (ri + pi) % 2 == 1, path: p.clone(), req_body: 2, method: "POST", content_type: "application/grpc" });
                    }
                }
            }
        }
    }
    let sec = Section::new(
        "routes-in-process",
        Config::default(),
        "cases: registrations = every non-empty subset of the generated fixture services {a.Sv, a.SvX, a.sv, Sv, x.a.Sv} (names that are prefixes / case variants / package-less variants of one another; methods M, MN, m) in given and reversed order (all orders for 3-subsets, thorough all orders of every subset), via Routes::add_service or RoutesBuilder, plain / with_interceptor / GrpcWebLayer wrapping x request paths = for every known and unknown (S, M): exact, with query, trailing slash, extra segment, one char added or removed at either end of S and M, case flips, doubled/empty segments, percent-encoded letters and dot, dot segments, nested repeats, /S, /, //, * (quick: a rotating quarter of the paths for subsets larger than 2); a fifth of the paths that name nothing are also requested with a request stream the peer never closes, and a few with a 3 MiB request message; a third of all requests are repeated as PUT, as POST with content-type application/grpc+proto, or as GET with application/grpc+json (routing is by path alone). Oracle RefRouter: handler (S, M) runs iff the path component equals /S/M with S registered; otherwise no handler runs and grpc-status is 12. Non-trivial = every case except the 3 shortest paths.",
        cases,
        |c: &Case| format!("order={:?} wrap={:?} builder={} path={} req_body={} method={} content_type={}", c.order.iter().map(|s| SERVICES[*s]).collect::<Vec<_>>(), c.wrap, c.builder, c.path, c.req_body, c.method, c.content_type),
        body,
    )
    .mins(1000, 8, 500);
    let mut ncases = vec![];
    for a in 0..5usize {
        for b in 0..5usize {
            if a != b {
                ncases.push(NetCase { order: vec![a, b], chop: (a + b) % 3 * 2 % 5, optional_none_after: None, via_add_routes: false });
                if b == (a + 1) % 5 {
                    for pos in [1usize, 2] {
                        ncases.push(NetCase { order: vec![a, b], chop: 0, optional_none_after: Some(pos), via_add_routes: false });
                    }
                }
            }
        }
        ncases.push(NetCase { order: vec![a], chop: 0, optional_none_after: None, via_add_routes: false });
        ncases.push(NetCase { order: vec![a, (a + 2) % 5, (a + 3) % 5], chop: 0, optional_none_after: None, via_add_routes: true });
    }
    if tier == Tier::Thorough {
        ncases.push(NetCase { order: vec![0, 1, 2, 3, 4], chop: 2, optional_none_after: None, via_add_routes: false });
        ncases.push(NetCase { order: vec![0, 1, 2, 3], chop: 0, optional_none_after: Some(3), via_add_routes: false });
        ncases.push(NetCase { order: vec![4, 3, 2, 1, 0], chop: 3, optional_none_after: None, via_add_routes: false });
    }
    let net = Section::new(
        "server-transport",
        Config { hang_secs: 120, ..Default::default() },
        "cases: every ordered pair (and every single one; thorough also all five in both orders) of the fixture services registered through Server::builder().add_service(..) (and, for consecutive pairs, through add_optional_service(Some(..)) with one absent optional service — None — inserted in the middle or at the end) and served by the real transport server over an in-memory pipe in virtual time; a bare hyper HTTP/2 client sends every path of the mutation menu on one connection (one execution = ~1000 requests); same RefRouter oracle. All cases count as non-trivial.",
        ncases,
        |c: &NetCase| format!("order={:?} chop={} optional_none_after={:?} via_add_routes={}", c.order.iter().map(|s| SERVICES[*s]).collect::<Vec<_>>(), c.chop, c.optional_none_after, c.via_add_routes),
        net_body,
    )
    .mins(20, 5, 20);
    Property {
        id: "C10",
        level: "exploration",
        hang_is_violation: false,
        assumptions: vec![
            "request targets the http crate refuses to parse (e.g. no leading slash) cannot be sent and are outside the alphabet".into(),
            "a query string does not change the path component".into(),
        ],
        sections: vec![sec, net],
        extra: Default::default(),
    }
}
