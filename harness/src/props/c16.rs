//! C16 — the grpc-web server layer translates requests and responses losslessly.

use crate::env::{collect_body, fmt_headers, fmt_status, hex, spin_block_on, Chunking, Collected, ScriptBody};
use crate::explore::{Chooser, Config, Outcome};
use crate::oracle::{b64, wire};
use crate::report::{Property, Section, Tier};
use http::{HeaderMap, HeaderName, HeaderValue};
use std::future::Future;
use std::pin::Pin;
use std::sync::{Arc, Mutex};
use std::task::{Context, Poll};
use tonic_web::GrpcWebLayer;
use tower_layer::Layer;
use tower_service::Service;

type Trailers = Vec<(String, Vec<u8>)>;

#[derive(Default, Debug, Clone)]
struct Seen {
    calls: u32,
    method: Option<http::Method>,
    version: Option<http::Version>,
    uri: Option<http::Uri>,
    headers: HeaderMap,
    body: Collected,
}

/// The wrapped gRPC service: records what it receives and answers with a scripted gRPC response.
#[derive(Clone)]
struct Inner {
    seen: Arc<Mutex<Seen>>,
    resp_headers: HeaderMap,
    resp_body: Vec<u8>,
    resp_trailers: Option<HeaderMap>,
    chunking: Chunking,
    /// the response body announces its exact length (size_hint) and its end
    sized: bool,
    ch: Chooser,
    stats: Arc<Mutex<Option<Arc<crate::env::BodyStats>>>>,
}

impl Service<http::Request<tonic::body::Body>> for Inner {
    type Response = http::Response<ScriptBody>;
    type Error = std::convert::Infallible;
    type Future = Pin<Box<dyn Future<Output = Result<Self::Response, Self::Error>> + Send>>;
    fn poll_ready(&mut self, _: &mut Context<'_>) -> Poll<Result<(), Self::Error>> {
        Poll::Ready(Ok(()))
    }
    fn call(&mut self, req: http::Request<tonic::body::Body>) -> Self::Future {
        let this = self.clone();
        Box::pin(async move {
            let (parts, body) = req.into_parts();
            let c = collect_body(body, 100_000);
            {
                let mut s = this.seen.lock().unwrap();
                s.calls += 1;
                s.method = Some(parts.method.clone());
                s.version = Some(parts.version);
                s.uri = Some(parts.uri.clone());
                s.headers = parts.headers.clone();
                s.body = c;
            }
            let sb = ScriptBody::new(this.resp_body.clone(), this.resp_trailers.clone(), this.chunking.clone(), &this.ch);
            let sb = if this.sized { sb.with_exact_size() } else { sb };
            *this.stats.lock().unwrap() = Some(sb.stats());
            let mut r = http::Response::new(sb);
            *r.headers_mut() = this.resp_headers.clone();
            Ok(r)
        })
    }
}

fn grpc_headers() -> HeaderMap {
    grpc_headers_ct("application/grpc")
}

/// The inner service may name the message format in its content-type (`application/grpc+proto`).
fn grpc_headers_ct(ct: &'static str) -> HeaderMap {
    let mut h = HeaderMap::new();
    h.insert("content-type", HeaderValue::from_static(ct));
    h.insert("x-initial", HeaderValue::from_static("kept"));
    h
}

fn to_map(t: &Trailers) -> HeaderMap {
    let mut h = HeaderMap::new();
    for (k, v) in t {
        h.append(HeaderName::from_bytes(k.as_bytes()).unwrap(), HeaderValue::from_bytes(v).unwrap());
    }
    h
}

fn canon(t: &Trailers) -> Trailers {
    let mut names: Vec<String> = t.iter().map(|(k, _)| k.to_ascii_lowercase()).collect();
    names.sort();
    names.dedup();
    let mut out = vec![];
    for n in names {
        for (k, v) in t {
            if k.to_ascii_lowercase() == n {
                out.push((n.clone(), v.clone()));
            }
        }
    }
    out
}

fn show(t: &Trailers) -> Vec<String> {
    t.iter().map(|(k, v)| format!("{k}={}", String::from_utf8_lossy(v))).collect()
}

// ------------------------------------------------------------------------------- responses

#[derive(Clone, Debug)]
struct RespCase {
    frames: Vec<(u8, Vec<u8>)>,
    trailers: Trailers,
    accept: Option<&'static str>,
    free: bool,
    drip: bool,
    /// the request itself is grpc-web-text (the response form must still follow Accept)
    req_text: bool,
    /// the inner response body announces its exact length
    sized: bool,
    /// content-type of the inner gRPC response
    inner_ct: &'static str,
}

fn resp_body(c: &RespCase, ch: &Chooser) -> Outcome {
    let body: Vec<u8> = c.frames.iter().flat_map(|(f, p)| wire::encode_frame(*f, p)).collect();
    let chunking = if c.drip { Chunking::Fixed(vec![1]) } else { Chunking::Choose { free: c.free, pending: !c.free, empty: !c.free } };
    let seen = Arc::new(Mutex::new(Seen::default()));
    let stats = Arc::new(Mutex::new(None));
    let inner = Inner { seen: seen.clone(), resp_headers: grpc_headers_ct(c.inner_ct), resp_body: body.clone(), resp_trailers: Some(to_map(&c.trailers)), chunking, sized: c.sized, ch: ch.clone(), stats: stats.clone() };
    let mut svc = GrpcWebLayer::new().layer(inner);
    let mut b = http::Request::builder().method("POST").uri("/fx.Echo/Unary").version(http::Version::HTTP_11).header("content-type", if c.req_text { "application/grpc-web-text" } else { "application/grpc-web+proto" });
    if let Some(a) = c.accept {
        b = b.header("accept", a);
    }
    let req_bytes = if c.req_text { b64::encode(&wire::encode_frame(0, &[1]), true).into_bytes() } else { wire::encode_frame(0, &[1]) };
    let req = b.body(ScriptBody::new(req_bytes, None, Chunking::Fixed(vec![]), ch)).unwrap();
    let resp = match spin_block_on(svc.call(req), 10_000) {
        Ok(Ok(r)) => r,
        _ => {
            let mut o = Outcome::new("STALLED");
            o.violate("stall", "layer call did not complete");
            return o;
        }
    };
    let (parts, rb) = resp.into_parts();
    let got = collect_body(rb, 50_000);
    let raw = got.bytes();
    let mut o = Outcome::new(format!("status={} hdr[{}] order={} body={} err={:?}", parts.status, fmt_headers(&parts.headers), got.order, hex(&raw), got.error.as_ref().map(fmt_status)));
    o.nontrivial = stats.lock().unwrap().as_ref().map(|s| s.frames.load(std::sync::atomic::Ordering::Relaxed) > 1).unwrap_or(false);
    if got.stalled {
        o.violate("stall", "response body did not finish");
        return o;
    }
    if let Some(e) = &got.error {
        o.violate("response-body-error", fmt_status(e));
        return o;
    }
    let text = matches!(c.accept, Some("application/grpc-web-text") | Some("application/grpc-web-text+proto"));
    let want_ct = if text { "application/grpc-web-text+proto" } else { "application/grpc-web+proto" };
    let ct = parts.headers.get("content-type").map(|v| v.as_bytes().to_vec()).unwrap_or_default();
    // the property says "binary or base64-text form as the Accept header asks": judge the family
    let ct_ok = if text { ct.starts_with(b"application/grpc-web-text") } else { ct.starts_with(b"application/grpc-web") && !ct.starts_with(b"application/grpc-web-text") };
    if !ct_ok {
        o.violate("response-content-type", format!("content-type {:?}, expected {want_ct}", String::from_utf8_lossy(&ct)));
    }
    if parts.status != http::StatusCode::OK {
        o.violate("response-status", format!("{}", parts.status));
    }
    if !got.trailers.is_empty() {
        o.violate("http-trailers-leaked", "grpc-web response carried HTTP trailers instead of a trailers frame");
    }
    let bytes = if text {
        match b64::decode_concat(&raw) {
            Ok(b) => b,
            Err(e) => {
                o.violate("text-body-not-base64", format!("{e}: {:?}", String::from_utf8_lossy(&raw)));
                return o;
            }
        }
    } else {
        raw
    };
    let (frames, end) = wire::parse_frames(&bytes, &[0, 1, 0x80]);
    if end != wire::ParseEnd::Clean {
        o.violate("response-framing", format!("{end:?} in {}", hex(&bytes)));
        return o;
    }
    let n80 = frames.iter().filter(|f| f.flag == 0x80).count();
    if n80 != 1 || frames.last().map(|f| f.flag) != Some(0x80) {
        o.violate("trailers-frame-count-or-position", format!("{n80} trailers frames; flags {:?}", frames.iter().map(|f| f.flag).collect::<Vec<_>>()));
        return o;
    }
    let msgs: Vec<(u8, Vec<u8>)> = frames[..frames.len() - 1].iter().map(|f| (f.flag, f.payload.clone())).collect();
    if msgs != c.frames {
        o.violate("message-bytes-changed", format!("messages {:?} != inner {:?}", msgs, c.frames));
    }
    match wire::parse_trailer_block(&frames.last().unwrap().payload) {
        Err(e) => o.violate("trailers-block-malformed", e),
        Ok(t) => {
            if canon(&t) != canon(&c.trailers) {
                o.violate("trailers-lost-or-changed", format!("trailers frame lists {:?}, inner trailers {:?}", show(&canon(&t)), show(&canon(&c.trailers))));
            }
        }
    }
    if parts.headers.get("x-initial").map(|v| v.as_bytes()) != Some(b"kept") {
        o.violate("response-headers-lost", "inner response header x-initial missing");
    }
    o
}

fn trailer_menu() -> Vec<Trailers> {
    let t = |v: &[(&str, &str)]| -> Trailers { v.iter().map(|(k, v)| (k.to_string(), v.as_bytes().to_vec())).collect() };
    vec![
        t(&[("grpc-status", "0")]),
        t(&[("grpc-status", "5"), ("grpc-message", "not found: x y")]),
        t(&[("grpc-status", "0"), ("x-r", "a"), ("x-r", "b")]),
        t(&[("grpc-status", "0"), ("x-b-bin", "AP8+")]),
        t(&[("grpc-status", "13"), ("grpc-message", "m"), ("a", "1"), ("b", ""), ("c", "3")]),
        // an opaque value (octets >= 0x80 that are not UTF-8): legal in a header value
        vec![("grpc-status".to_string(), b"0".to_vec()), ("x-o".to_string(), vec![b'c', b'a', b'f', 0xe9, b' ', 0xff, 0x80])],
    ]
}

const ACCEPTS: [Option<&str>; 6] = [Some("application/grpc-web"), Some("application/grpc-web+proto"), Some("application/grpc-web-text"), Some("application/grpc-web-text+proto"), None, Some("*/*")];

fn resp_cases(tier: Tier) -> Vec<RespCase> {
    let frame_sets: Vec<Vec<(u8, Vec<u8>)>> = vec![
        vec![],
        vec![(0, vec![])],
        vec![(0, vec![7])],
        vec![(1, vec![1, 2, 3])],
        vec![(0, vec![1, 2, 3, 4, 5])],
        vec![(0, vec![9]), (1, vec![])],
        vec![(1, vec![1, 2, 3]), (0, vec![4, 5, 6, 7, 8])],
    ];
    let free_limit = tier.q(14, 18);
    let mut out = vec![];
    for frames in &frame_sets {
        let len: usize = frames.iter().map(|(_, p)| 5 + p.len()).sum();
        for (ti, tr) in trailer_menu().into_iter().enumerate() {
            for (ai, accept) in ACCEPTS.iter().enumerate() {
                if tier == Tier::Quick && ti > 0 && (ai + ti) % 3 != 0 {
                    continue;
                }
                out.push(RespCase { frames: frames.clone(), trailers: tr.clone(), accept: *accept, free: len <= free_limit && len > 0, drip: false, req_text: false, sized: false, inner_ct: "application/grpc" });
                out.push(RespCase { frames: frames.clone(), trailers: tr.clone(), accept: *accept, free: false, drip: false, req_text: true, sized: false, inner_ct: ["application/grpc", "application/grpc+proto"][(ai + ti) % 2] });
                out.push(RespCase { frames: frames.clone(), trailers: tr.clone(), accept: *accept, free: false, drip: true, req_text: false, sized: false, inner_ct: "application/grpc" });
                out.push(RespCase { frames: frames.clone(), trailers: tr.clone(), accept: *accept, free: false, drip: false, req_text: ai % 2 == 1, sized: true, inner_ct: ["application/grpc+proto", "application/grpc", "application/grpc+json"][(ai + ti) % 3] });
            }
        }
    }
    out
}

// ------------------------------------------------------------------------------- requests

#[derive(Clone, Debug)]
struct ReqCase {
    payload_len: usize,
    content_type: &'static str,
    drip: bool,
    /// grpc-accept-encoding sent by the grpc-web client (None = absent)
    offer: Option<&'static str>,
}

fn req_body(c: &ReqCase, ch: &Chooser) -> Outcome {
    let grpc: Vec<u8> = wire::encode_frame(0, &(0..c.payload_len).map(|i| (i * 37 + 250) as u8).collect::<Vec<_>>());
    let text = c.content_type.contains("text");
    let sent: Vec<u8> = if text { b64::encode(&grpc, true).into_bytes() } else { grpc.clone() };
    let chunking = if c.drip { Chunking::Fixed(vec![1]) } else { Chunking::Choose { free: true, pending: false, empty: false } };
    let seen = Arc::new(Mutex::new(Seen::default()));
    let inner = Inner { seen: seen.clone(), resp_headers: grpc_headers(), resp_body: vec![], resp_trailers: Some(to_map(&vec![("grpc-status".into(), b"0".to_vec())])), chunking: Chunking::Fixed(vec![]), sized: false, ch: ch.clone(), stats: Default::default() };
    let mut svc = GrpcWebLayer::new().layer(inner);
    let sb = ScriptBody::new(sent.clone(), None, chunking, ch);
    let stats = sb.stats();
    let req = http::Request::builder()
        .method("POST")
        .uri("/fx.Echo/Unary")
        .version(http::Version::HTTP_11)
        .header("content-type", c.content_type)
        .header("content-length", sent.len().to_string())
        .header("x-custom", "v");
    let req = match c.offer {
        Some(o) => req.header("grpc-accept-encoding", o),
        None => req,
    };
    let req = req.body(sb).unwrap();
    let resp = match spin_block_on(svc.call(req), 100_000) {
        Ok(Ok(r)) => r,
        _ => {
            let mut o = Outcome::new("STALLED");
            o.violate("stall", "layer call did not complete");
            return o;
        }
    };
    let _ = collect_body(resp.into_body(), 10_000);
    let s = seen.lock().unwrap().clone();
    let mut o = Outcome::new(format!("calls={} {:?} hdr[{}] body={} err={:?}", s.calls, s.method, fmt_headers(&s.headers), hex(&s.body.bytes()), s.body.error.as_ref().map(fmt_status)));
    o.nontrivial = stats.frames.load(std::sync::atomic::Ordering::Relaxed) > 1;
    if s.calls != 1 {
        o.violate("inner-call-count", format!("{} inner calls", s.calls));
        return o;
    }
    if let Some(e) = &s.body.error {
        o.violate("request-body-error", format!("inner service saw a body error: {}", fmt_status(e)));
        return o;
    }
    if s.body.bytes() != grpc {
        o.violate("request-bytes-changed", format!("inner received {} instead of {}", hex(&s.body.bytes()), hex(&grpc)));
    }
    if s.headers.get("content-type").map(|v| v.as_bytes()) != Some(b"application/grpc") {
        o.violate("request-content-type", format!("[{}]", fmt_headers(&s.headers)));
    }
    if s.headers.get("x-custom").map(|v| v.as_bytes()) != Some(b"v") {
        o.violate("request-headers-lost", format!("[{}]", fmt_headers(&s.headers)));
    }
    if s.method != Some(http::Method::POST) {
        o.violate("request-method-changed", format!("{:?}", s.method));
    }
    // the gRPC protocol headers the client sent (or did not send) reach the inner service as they
    // are: the layer must not negotiate on the client's behalf
    let got_offer: Vec<Vec<u8>> = s.headers.get_all("grpc-accept-encoding").iter().map(|v| v.as_bytes().to_vec()).collect();
    let want_offer: Vec<Vec<u8>> = c.offer.map(|o| vec![o.as_bytes().to_vec()]).unwrap_or_default();
    if got_offer != want_offer {
        o.violate("request-grpc-accept-encoding-changed", format!("client sent grpc-accept-encoding {:?}, inner service sees {:?}", c.offer, got_offer.iter().map(|v| String::from_utf8_lossy(v).to_string()).collect::<Vec<_>>()));
    }
    for (k, _) in s.headers.iter() {
        if k.as_str().starts_with("grpc-") && !(k.as_str() == "grpc-accept-encoding" && c.offer.is_some()) {
            o.violate("request-grpc-header-invented", format!("inner service sees header {} which the client did not send", k.as_str()));
        }
    }
    o
}

// ------------------------------------------------------------------------------- dispatch

#[derive(Clone, Debug)]
struct DispCase {
    method: &'static str,
    version: http::Version,
    content_type: Option<&'static str>,
}

fn disp_body(c: &DispCase, ch: &Chooser) -> Outcome {
    let seen = Arc::new(Mutex::new(Seen::default()));
    let mut rh = HeaderMap::new();
    rh.insert("content-type", HeaderValue::from_static("application/whatever"));
    rh.insert("x-resp", HeaderValue::from_static("r"));
    let inner_body = b"inner-body-bytes".to_vec();
    let inner = Inner { seen: seen.clone(), resp_headers: rh, resp_body: inner_body.clone(), resp_trailers: Some(to_map(&vec![("grpc-status".into(), b"0".to_vec())])), chunking: Chunking::Fixed(vec![]), sized: false, ch: ch.clone(), stats: Default::default() };
    let mut svc = GrpcWebLayer::new().layer(inner);
    let frame_bytes = wire::encode_frame(0, &[1, 2]);
    let lower = c.content_type.map(|ct| ct.to_ascii_lowercase());
    let is_exact = |ct: Option<&str>| matches!(ct, Some("application/grpc-web") | Some("application/grpc-web+proto") | Some("application/grpc-web-text") | Some("application/grpc-web-text+proto"));
    // a grpc-web media type spelled with other letter case (media types are case-insensitive, so
    // a layer may take it for grpc-web or not — but it has to make up its mind)
    let case_variant = is_exact(lower.as_deref()) && !is_exact(c.content_type);
    let body_bytes = if case_variant && lower.as_deref().map(|l| l.contains("-text")).unwrap_or(false) { b64::encode(&frame_bytes, true).into_bytes() } else { frame_bytes.clone() };
    let mut b = http::Request::builder().method(c.method).uri("/fx.Echo/Unary?q=1").version(c.version).header("x-custom", "v");
    if let Some(ct) = c.content_type {
        b = b.header("content-type", ct);
    }
    let req = b.body(ScriptBody::new(body_bytes.clone(), None, Chunking::Fixed(vec![]), ch)).unwrap();
    let resp = match spin_block_on(svc.call(req), 100_000) {
        Ok(Ok(r)) => r,
        _ => {
            let mut o = Outcome::new("STALLED");
            o.violate("stall", "layer call did not complete");
            return o;
        }
    };
    let (parts, rb) = resp.into_parts();
    let got = collect_body(rb, 10_000);
    let s = seen.lock().unwrap().clone();
    let mut o = Outcome::new(format!("status={} calls={} resp-hdr[{}] resp-body={} trailers={:?} inner-hdr[{}]", parts.status, s.calls, fmt_headers(&parts.headers), hex(&got.bytes()), got.trailers.iter().map(fmt_headers).collect::<Vec<_>>(), fmt_headers(&s.headers)));
    o.nontrivial = true;
    if case_variant {
        let as_other = if c.version == http::Version::HTTP_2 {
            s.calls == 1
                && s.body.bytes() == body_bytes
                && s.headers.get("content-type").map(|v| v.as_bytes()) == c.content_type.map(|c| c.as_bytes())
                && parts.status == http::StatusCode::OK
                && got.bytes() == inner_body
                && parts.headers.get("content-type").map(|v| v.as_bytes()) == Some(b"application/whatever")
        } else {
            parts.status == http::StatusCode::BAD_REQUEST && s.calls == 0
        };
        let as_web = if c.method == "POST" {
            s.calls == 1 && parts.status == http::StatusCode::OK && s.headers.get("content-type").map(|v| v.as_bytes()) == Some(b"application/grpc") && s.body.bytes() == frame_bytes
        } else {
            parts.status == http::StatusCode::METHOD_NOT_ALLOWED && s.calls == 0
        };
        if !as_other && !as_web {
            o.violate(
                "case-variant-content-type-half-recognised",
                format!("content-type {:?} was treated neither as grpc-web (inner service gets the original gRPC bytes under application/grpc; non-POST 405) nor as something else (HTTP/1: 400, HTTP/2: untouched): status {} inner calls {} inner content-type {:?} inner body {}", c.content_type, parts.status, s.calls, s.headers.get("content-type"), hex(&s.body.bytes())),
            );
        }
        return o;
    }
    let exact_web = is_exact(c.content_type);
    let maybe_web = c.content_type.map(|ct| ct.starts_with("application/grpc-web")).unwrap_or(false);
    if maybe_web && !exact_web {
        // a grpc-web media type with parameters: the statement does not say which family it is
        return o;
    }
    if exact_web {
        if c.method == "POST" {
            if s.calls != 1 || parts.status != http::StatusCode::OK {
                o.violate("grpc-web-post-not-served", format!("status {} inner calls {}", parts.status, s.calls));
            }
        } else if parts.status != http::StatusCode::METHOD_NOT_ALLOWED || s.calls != 0 {
            o.violate("non-post-grpc-web-not-405", format!("{} grpc-web request: status {} inner calls {}", c.method, parts.status, s.calls));
        }
    } else if c.version == http::Version::HTTP_2 {
        // pass-through untouched
        if s.calls != 1 {
            o.violate("h2-other-not-passed-through", format!("status {} inner calls {}", parts.status, s.calls));
        } else {
            let same_req = s.method.as_ref().map(|m| m.as_str()) == Some(c.method)
                && s.version == Some(c.version)
                && s.uri.as_ref().map(|u| u.to_string()) == Some("/fx.Echo/Unary?q=1".to_string())
                && s.body.bytes() == body_bytes
                && s.headers.get("x-custom").map(|v| v.as_bytes()) == Some(b"v")
                && s.headers.get("content-type").map(|v| v.as_bytes()) == c.content_type.map(|c| c.as_bytes())
                && s.headers.len() == 1 + c.content_type.is_some() as usize;
            if !same_req {
                o.violate("h2-other-request-touched", format!("inner saw {:?} {:?} {:?} [{}] body {}", s.method, s.version, s.uri, fmt_headers(&s.headers), hex(&s.body.bytes())));
            }
            let same_resp = parts.status == http::StatusCode::OK
                && got.bytes() == inner_body
                && parts.headers.get("content-type").map(|v| v.as_bytes()) == Some(b"application/whatever")
                && parts.headers.get("x-resp").map(|v| v.as_bytes()) == Some(b"r")
                && got.trailers.len() == 1
                && got.trailers[0].get("grpc-status").map(|v| v.as_bytes()) == Some(b"0");
            if !same_resp {
                o.violate("h2-other-response-touched", format!("status {} [{}] body {} trailers {:?}", parts.status, fmt_headers(&parts.headers), hex(&got.bytes()), got.trailers.iter().map(fmt_headers).collect::<Vec<_>>()));
            }
        }
    } else if parts.status != http::StatusCode::BAD_REQUEST || s.calls != 0 {
        o.violate("h1-other-not-400", format!("{:?} non-grpc-web request: status {} inner calls {}", c.version, parts.status, s.calls));
    }
    o
}

pub fn property(tier: Tier) -> Property {
    let resp = Section::new(
        "responses",
        Config { max_bound: tier.q(2, 3), ..Default::default() },
        "cases: inner gRPC response = 0..2 message frames (payloads 0/1/3/5 bytes, flags 0/1) + a trailer map from a menu (status only, message with ': ' and spaces, repeated key, binary value, 5 entries, a value with non-UTF-8 octets) x Accept in {grpc-web, +proto, -text, -text+proto, absent, */*} x request content-type {binary, text} x inner response content-type {application/grpc, +proto, +json}, also with an inner body that announces its exact length (size_hint; 0 for a response that is trailers only); environment: the inner body is delivered under every chunking (all compositions for bodies <= 14/18 bytes, else <= bound cuts/Pending/empty-frame deviations) plus drip; oracle: independent grpc-web(-text) decoder recovers the identical message frames followed by exactly one 0x80 frame whose header block equals the trailers as a multimap; content-type family follows Accept; no HTTP trailers leak. Non-trivial = inner body delivered in more than one chunk.",
        resp_cases(tier),
        |c: &RespCase| format!("frames={:?} trailers={:?} accept={:?} free={} drip={} req_text={} sized={} inner_ct={}", c.frames, show(&c.trailers), c.accept, c.free, c.drip, c.req_text, c.sized, c.inner_ct),
        resp_body,
    )
    .mins(1000, 10, 100);
    let mut rcases = vec![];
    for len in 0..=tier.q(7, 9) {
        for ct in ["application/grpc-web", "application/grpc-web+proto", "application/grpc-web-text", "application/grpc-web-text+proto"] {
            rcases.push(ReqCase { payload_len: len, content_type: ct, drip: false, offer: [None, Some("zstd"), Some("identity"), Some("gzip,zstd")][len % 4] });
            rcases.push(ReqCase { payload_len: len, content_type: ct, drip: true, offer: [Some("zstd"), None, Some("gzip"), Some("identity")][len % 4] });
        }
    }
    let req = Section::new(
        "requests",
        Config::default(),
        "cases: a gRPC frame with a 0..7 (thorough 0..9) byte payload sent as grpc-web binary or padded base64 text under the four grpc-web content-types; environment: every composition of the request body into chunks (cuts cost nothing; text bodies are <= 20 chars) plus drip; oracle: the inner service receives exactly the original gRPC bytes, content-type application/grpc, other headers and method intact, and the client's grpc-accept-encoding (absent / zstd / identity / gzip,zstd) arrives unchanged with no other grpc-* header invented. Non-trivial = request body delivered in more than one chunk.",
        rcases,
        |c: &ReqCase| format!("{c:?}"),
        req_body,
    )
    .mins(1000, 4, 100);
    let mut dcases = vec![];
    for method in ["GET", "POST", "PUT", "OPTIONS", "DELETE"] {
        for version in [http::Version::HTTP_10, http::Version::HTTP_11, http::Version::HTTP_2] {
            for ct in [Some("application/grpc-web"), Some("application/grpc-web+proto"), Some("application/grpc-web-text"), Some("application/grpc-web-text+proto"), Some("application/grpc"), Some("application/json"), None, Some("application/grpc-web; charset=utf-8"), Some("application/grpc-web-Text"), Some("Application/GRPC-Web+proto"), Some("APPLICATION/GRPC-WEB-TEXT+PROTO")] {
                dcases.push(DispCase { method, version, content_type: ct });
            }
        }
    }
    let disp = Section::new(
        "dispatch",
        Config::default(),
        "cases: method in {GET,POST,PUT,OPTIONS,DELETE} x version in {1.0,1.1,2} x content-type in {4 grpc-web types, application/grpc, application/json, absent, grpc-web with parameters (recorded, not judged), three grpc-web types spelled with other letter case (judged for consistency only: either fully grpc-web — the inner service gets the original gRPC bytes — or fully something else)}; oracle: grpc-web POST is served, grpc-web non-POST => 405 without calling the inner service, other HTTP/2 => inner called once with the same method/uri/headers/body and its response (status, headers, body, trailers) returned untouched, other HTTP/1 => 400. All cells count as non-trivial.",
        dcases,
        |c: &DispCase| format!("{c:?}"),
        disp_body,
    )
    .mins(100, 4, 50);
    Property {
        id: "C16",
        level: "model_checking",
        hang_is_violation: true,
        assumptions: vec![
            "grpc-web-text responses are accepted as a concatenation of independently padded base64 segments (PROTOCOL-WEB allows per-frame padding)".into(),
            "text requests are one padded base64 stream split at arbitrary positions".into(),
        ],
        sections: vec![resp, req, disp],
        extra: Default::default(),
    }
}
