//! C03 — requests and responses on the wire are spec-conformant gRPC, judged by an independent
//! decoder.

use super::c02::{call_cases, describe, expected_response, CallCase};
use super::codec_common::*;
use super::l1::*;
use crate::env::{collect_body, fmt_headers, fmt_status, hex, spin_block_on, Chunking, Collected, Item, ScriptStream};
use crate::explore::{Chooser, Config, Outcome};
use crate::fixtures::echo::echo_client::EchoClient;
use crate::oracle::comp::{self, Enc};
use crate::oracle::wire;
use crate::report::{Property, Section, Tier};
use http::HeaderMap;
use std::sync::{Arc, Mutex};
use tonic::codec::{BufferSettings, Codec, EncodeBody};
use tonic::{Code, Status};

#[derive(Clone, Copy, Debug, PartialEq, Eq)]
enum Role {
    Client,
    Server,
}

#[derive(Clone, Copy, Debug, PartialEq, Eq)]
enum Fate {
    Ok,
    /// the source yields an error after k items (and then ends, as a conformant handler does)
    SourceErr(usize),
    /// the encoder fails on item k
    EncodeFail(usize),
    /// item k exceeds the size limit
    TooBig(usize),
}

#[derive(Clone, Debug)]
struct BodyCase {
    msgs: Vec<Vec<u8>>,
    enc: Option<Enc>,
    role: Role,
    fate: Fate,
    settings: (usize, usize),
}

/// Judge a sequence of DATA bytes against the expected payloads with an announced encoding.
fn judge_frames(o: &mut Outcome, what: &str, bytes: &[u8], want: &[Vec<u8>], announced: Option<Enc>, flag_must_be: Option<u8>) {
    let (frames, end) = wire::parse_frames(bytes, &[0, 1]);
    if end != wire::ParseEnd::Clean {
        o.violate(format!("{what}-framing"), format!("independent parser: {end:?} on {}", crate::explore::truncate(&hex(bytes), 160)));
        return;
    }
    if frames.len() != want.len() {
        o.violate(format!("{what}-count"), format!("{} frames on the wire, {} messages expected", frames.len(), want.len()));
        return;
    }
    for (i, (f, w)) in frames.iter().zip(want).enumerate() {
        if let Some(m) = flag_must_be {
            if f.flag != m {
                o.violate(format!("{what}-flag"), format!("frame {i} flag {} (expected {m}; announced encoding {})", f.flag, enc_name(announced)));
            }
        }
        let payload = if f.flag == 1 {
            match announced {
                None => {
                    o.violate(format!("{what}-flag"), format!("frame {i} is flagged compressed but no grpc-encoding was announced"));
                    continue;
                }
                Some(e) => match comp::decompress(e, &f.payload) {
                    Ok(p) => p,
                    Err(err) => {
                        o.violate(format!("{what}-compression"), format!("frame {i} does not decompress with the announced {}: {err}", e.name()));
                        continue;
                    }
                },
            }
        } else {
            f.payload.clone()
        };
        if payload != *w {
            o.violate(format!("{what}-payload"), format!("frame {i} payload {} != serialisation {}", hex(&payload), hex(w)));
        }
    }
}

fn body_body(c: &BodyCase, ch: &Chooser) -> Outcome {
    let mut items: Vec<Item<Vec<u8>>> = vec![];
    let mut codec = RawCodec::new(BufferSettings::new(c.settings.0, c.settings.1));
    let mut limit = None;
    let mut good = c.msgs.len();
    let mut want_code = Code::Ok;
    for (i, m) in c.msgs.iter().enumerate() {
        match c.fate {
            Fate::SourceErr(k) if k == i => {
                items.push(Item::Err(Status::data_loss("scripted source error")));
                good = i;
                want_code = Code::DataLoss;
                break;
            }
            Fate::EncodeFail(k) if k == i => {
                let mut bad = m.clone();
                bad.insert(0, 0xE7);
                codec.fail_marker = Some(0xE7);
                items.push(Item::Msg(bad));
                good = i;
                want_code = Code::Internal;
                // a conformant source may well have more items queued
                items.push(Item::Msg(vec![1]));
                break;
            }
            Fate::TooBig(k) if k == i => {
                limit = Some(100usize);
                items.push(Item::Msg(payload(200, 1)));
                good = i;
                want_code = Code::OutOfRange;
                items.push(Item::Msg(vec![2]));
                break;
            }
            _ => items.push(Item::Msg(m.clone())),
        }
    }
    if let Fate::SourceErr(k) = c.fate {
        if k >= c.msgs.len() {
            items.push(Item::Err(Status::data_loss("scripted source error")));
            want_code = Code::DataLoss;
        }
    }
    let src = ScriptStream::new(items, true, ch);
    let enc = c.enc.map(tonic_enc);
    let got = match c.role {
        Role::Client => collect_body(EncodeBody::new_client(codec.encoder(), src, enc, limit), 10_000),
        Role::Server => collect_body(EncodeBody::new_server(codec.encoder(), src, enc, Default::default(), limit), 10_000),
    };
    let mut o = Outcome::new(format!(
        "order={} frames={:?} err={:?} trailers={:?}",
        got.order,
        got.frames.iter().map(|f| f.len()).collect::<Vec<_>>(),
        got.error.as_ref().map(fmt_status),
        got.trailers.iter().map(fmt_headers).collect::<Vec<_>>()
    ));
    o.nontrivial = c.fate != Fate::Ok || got.pendings > 0;
    if got.stalled {
        o.violate("stall", "body did not finish");
        return o;
    }
    if ch.has_flag(crate::env::SOURCE_POLLED_AFTER_END) {
        o.violate("source-polled-after-end", "the body polled its message source again after the source had returned None");
    }
    judge_frames(&mut o, "body", &got.bytes(), &c.msgs[..good], c.enc, Some(c.enc.is_some() as u8));
    match c.role {
        Role::Client => {
            if !got.trailers.is_empty() {
                o.violate("client-trailers", "a client request body carried trailers");
            }
            match (&got.error, want_code) {
                (None, Code::Ok) => {}
                (Some(e), code) if e.code() == code && code != Code::Ok => {}
                (e, code) => o.violate("client-body-outcome", format!("expected {code:?}, got {:?}", e.as_ref().map(fmt_status))),
            }
        }
        Role::Server => {
            if got.error.is_some() {
                o.violate("server-body-error", format!("server body failed instead of reporting the status in trailers: {:?}", got.error.as_ref().map(fmt_status)));
            }
            let want_order = format!("{}T", "D".repeat(got.frames.len()));
            if got.order != want_order {
                o.violate("server-trailers-position", format!("frame order {} — expected all DATA, then exactly one trailers block, then nothing", got.order));
            }
            let n_status: usize = got.trailers.iter().map(|t| t.get_all("grpc-status").iter().count()).sum();
            if n_status != 1 {
                o.violate("server-grpc-status-count", format!("{n_status} grpc-status values in trailers"));
            } else {
                let v = got.trailers.iter().find_map(|t| t.get("grpc-status")).unwrap();
                if v.as_bytes() != (want_code as i32).to_string().as_bytes() {
                    o.violate("server-grpc-status-value", format!("grpc-status {:?}, expected {}", v, want_code as i32));
                }
            }
        }
    }
    o
}

fn body_cases(tier: Tier) -> Vec<BodyCase> {
    let pool: Vec<Vec<u8>> = vec![vec![], vec![5], payload(9, 0), payload(40, 1)];
    let mut seqs: Vec<Vec<Vec<u8>>> = vec![vec![]];
    for a in &pool {
        seqs.push(vec![a.clone()]);
        for b in &pool {
            seqs.push(vec![a.clone(), b.clone()]);
            if tier == Tier::Thorough {
                for c in &pool {
                    seqs.push(vec![a.clone(), b.clone(), c.clone()]);
                }
            }
        }
    }
    seqs.push(vec![pool[1].clone(), pool[3].clone(), pool[2].clone()]);
    let mut out = vec![];
    for msgs in &seqs {
        for enc in ENC_OPTS {
            for role in [Role::Client, Role::Server] {
                for settings in [(4usize, 8usize), (8 * 1024, 32 * 1024)] {
                    let mut fates = vec![Fate::Ok];
                    for k in 0..=msgs.len() {
                        fates.push(Fate::SourceErr(k));
                        if k < msgs.len() {
                            fates.push(Fate::EncodeFail(k));
                            fates.push(Fate::TooBig(k));
                        }
                    }
                    for fate in fates {
                        out.push(BodyCase { msgs: msgs.clone(), enc, role, fate, settings });
                    }
                }
            }
        }
    }
    out
}

// ---------------------------------------------------------------------------------------------

#[derive(Clone, Debug)]
struct WireCase {
    call: CallCase,
    /// encoding the client sends with (server accepts it)
    c2s: Option<Enc>,
    /// encoding the server sends with (client accepts it)
    s2c: Option<Enc>,
    /// the call is made through a clone of the configured client
    via_clone: bool,
}

fn header_is(h: &HeaderMap, k: &str, v: &str) -> bool {
    let all: Vec<_> = h.get_all(k).iter().collect();
    all.len() == 1 && all[0].as_bytes() == v.as_bytes()
}

fn wire_body(c: &WireCase, ch: &Chooser) -> Outcome {
    let (mut server, _log) = new_server(c.call.script.clone(), ch, true);
    if let Some(e) = c.c2s {
        server = server.accept_compressed(tonic_enc(e));
    }
    if let Some(e) = c.s2c {
        server = server.send_compressed(tonic_enc(e));
    }
    let capture = Arc::new(Mutex::new(Capture::default()));
    let whole = Chunking::Fixed(vec![]);
    let direct = Direct { svc: server, ch: ch.clone(), req_chunking: whole.clone(), resp_chunking: whole, capture: capture.clone() };
    let mut client = EchoClient::new(direct);
    if let Some(e) = c.c2s {
        client = client.send_compressed(tonic_enc(e));
    }
    if let Some(e) = c.s2c {
        client = client.accept_compressed(tonic_enc(e));
    }
    if c.via_clone {
        client = client.clone();
    }
    let r = spin_block_on(client_call(&mut client, c.call.shape, c.call.req_msgs.clone(), &c.call.req_md, true, ch, |_| {}), 200_000);
    if r.is_err() {
        let mut o = Outcome::new("STALLED");
        o.violate("stall", "call did not complete");
        return o;
    }
    let cap = capture.lock().unwrap().clone();
    let mut o = Outcome::new(format!(
        "REQ {:?} {:?} {:?} [{}] body order={} {} | RESP {:?} [{}] order={} {} trailers={:?}",
        cap.method, cap.uri, cap.version, fmt_headers(&cap.req_headers), cap.req_body.order, hex(&cap.req_body.bytes()),
        cap.resp_status, fmt_headers(&cap.resp_headers), cap.resp_body.order, hex(&cap.resp_body.bytes()),
        cap.resp_body.trailers.iter().map(fmt_headers).collect::<Vec<_>>()
    ));
    o.nontrivial = c.c2s.is_some() || c.s2c.is_some() || c.call.script.end.is_some();
    // ---- request
    if cap.calls != 1 {
        o.violate("request-count", format!("{} HTTP requests for one call", cap.calls));
        return o;
    }
    if cap.method != Some(http::Method::POST) {
        o.violate("request-method", format!("method {:?}", cap.method));
    }
    if cap.version != Some(http::Version::HTTP_2) {
        o.violate("request-version", format!("version {:?}", cap.version));
    }
    let path = cap.uri.as_ref().map(|u| u.path().to_string()).unwrap_or_default();
    if path != c.call.shape.path() || cap.uri.as_ref().and_then(|u| u.query()).is_some() {
        o.violate("request-path", format!("path {:?}, expected {}", cap.uri, c.call.shape.path()));
    }
    if !header_is(&cap.req_headers, "content-type", "application/grpc") {
        o.violate("request-content-type", format!("headers [{}]", fmt_headers(&cap.req_headers)));
    }
    if !header_is(&cap.req_headers, "te", "trailers") {
        o.violate("request-te", format!("headers [{}]", fmt_headers(&cap.req_headers)));
    }
    if !cap.req_body.trailers.is_empty() || cap.req_body.order.contains('T') {
        o.violate("request-trailers", "request body carried trailers");
    }
    let announced_req = match cap.req_headers.get("grpc-encoding").map(|v| v.as_bytes().to_vec()) {
        None => None,
        Some(v) if v == b"identity" => None,
        Some(v) => match std::str::from_utf8(&v).ok().and_then(Enc::from_name) {
            Some(e) => Some(e),
            None => {
                o.violate("request-encoding-unknown", format!("grpc-encoding {:?}", String::from_utf8_lossy(&v)));
                None
            }
        },
    };
    let want_req: Vec<Vec<u8>> = if c.call.shape.streams_requests() { c.call.req_msgs.clone() } else { vec![c.call.req_msgs.first().cloned().unwrap_or_default()] };
    judge_frames(&mut o, "request", &cap.req_body.bytes(), &want_req, announced_req, Some(announced_req.is_some() as u8));
    // ---- response
    if cap.resp_status != Some(http::StatusCode::OK) {
        o.violate("response-status", format!("HTTP status {:?}", cap.resp_status));
    }
    if !header_is(&cap.resp_headers, "content-type", "application/grpc") {
        o.violate("response-content-type", format!("headers [{}]", fmt_headers(&cap.resp_headers)));
    }
    let in_headers = cap.resp_headers.get_all("grpc-status").iter().count();
    let in_trailers: usize = cap.resp_body.trailers.iter().map(|t| t.get_all("grpc-status").iter().count()).sum();
    let body_empty = cap.resp_body.order.is_empty();
    if body_empty {
        if in_headers != 1 {
            o.violate("response-grpc-status", format!("body-less response with {in_headers} grpc-status headers"));
        }
    } else {
        if in_headers != 0 || in_trailers != 1 {
            o.violate("response-grpc-status", format!("grpc-status: {in_headers} in headers, {in_trailers} in trailers (body frames {})", cap.resp_body.order));
        }
        let want_order = format!("{}T", "D".repeat(cap.resp_body.frames.len()));
        if cap.resp_body.order != want_order {
            o.violate("response-trailers-position", format!("frame order {}", cap.resp_body.order));
        }
    }
    if cap.resp_body.error.is_some() {
        o.violate("response-body-error", format!("{:?}", cap.resp_body.error.as_ref().map(fmt_status)));
    }
    let announced_resp = match cap.resp_headers.get("grpc-encoding").map(|v| v.as_bytes().to_vec()) {
        None => None,
        Some(v) if v == b"identity" => None,
        Some(v) => std::str::from_utf8(&v).ok().and_then(Enc::from_name),
    };
    let (want_resp, _) = expected_response(&c.call);
    let resp_flag = if c.call.script.disable_compression { None } else { Some(announced_resp.is_some() as u8) };
    judge_frames(&mut o, "response", &cap.resp_body.bytes(), &want_resp, announced_resp, resp_flag);
    o
}

// ---------------------------------------------------------------------------------------------
// the HTTP/2 messages that really cross the transport, observed by NON-tonic peers

#[derive(Clone, Debug)]
struct NetCase {
    call: CallCase,
    /// true: tonic client -> bare hyper server (judge the request); false: bare hyper client ->
    /// tonic server (judge the response)
    judge_request: bool,
    c2s: Option<Enc>,
    chop: usize,
    /// the response is not produced by the handler but by the server's middleware stack:
    /// 1 = a user layer fails with a Status (PERMISSION_DENIED), 2 = Server::timeout fires while a
    /// user layer is still holding the request (CANCELLED)
    middleware: u8,
    /// content-type the bare client sends (any application/grpc[+subtype] is a gRPC request)
    req_ct: &'static str,
}

/// A user layer that refuses (mode 1) or delays by an hour (mode 2) every request.
#[derive(Clone)]
struct Obstacle<S> {
    inner: S,
    mode: u8,
}

impl<S, B> tower_service::Service<http::Request<B>> for Obstacle<S>
where
    S: tower_service::Service<http::Request<B>> + Clone + Send + 'static,
    S::Future: Send + 'static,
    S::Error: Into<Box<dyn std::error::Error + Send + Sync>> + 'static,
    B: Send + 'static,
{
    type Response = S::Response;
    type Error = Box<dyn std::error::Error + Send + Sync>;
    type Future = std::pin::Pin<Box<dyn std::future::Future<Output = Result<S::Response, Self::Error>> + Send>>;
    fn poll_ready(&mut self, cx: &mut std::task::Context<'_>) -> std::task::Poll<Result<(), Self::Error>> {
        self.inner.poll_ready(cx).map_err(Into::into)
    }
    fn call(&mut self, req: http::Request<B>) -> Self::Future {
        let mode = self.mode;
        let mut inner = self.inner.clone();
        Box::pin(async move {
            if mode == 1 {
                return Err(Box::new(Status::permission_denied("refused by a layer")) as Box<dyn std::error::Error + Send + Sync>);
            }
            tokio::time::sleep(std::time::Duration::from_secs(3600)).await;
            inner.call(req).await.map_err(Into::into)
        })
    }
}

#[derive(Default, Debug, Clone)]
struct NetSeen {
    method: Option<http::Method>,
    uri: Option<http::Uri>,
    version: Option<http::Version>,
    headers: HeaderMap,
    data: Vec<u8>,
    trailers: Option<HeaderMap>,
    status: Option<http::StatusCode>,
    error: Option<String>,
    requests: u32,
}

fn net_run(c: &NetCase, ch: &Chooser) -> NetSeen {
    use crate::env::vnet::{self, ConnectMode};
    use http_body_util::BodyExt;
    let rt = vnet::runtime(21);
    let c = c.clone();
    let ch = ch.clone();
    rt.block_on(async move {
        let (st, mut rx) = vnet::connector_state(ConnectMode::Succeed, false, c.chop);
        let seen = Arc::new(Mutex::new(NetSeen::default()));
        let horizon = std::time::Duration::from_secs(3600);
        if c.judge_request {
            // bare hyper HTTP/2 server: records the request, answers one message + OK trailers
            let seen2 = seen.clone();
            tokio::spawn(async move {
                while let Some(io) = rx.recv().await {
                    let seen3 = seen2.clone();
                    tokio::spawn(async move {
                        let svc = hyper::service::service_fn(move |req: http::Request<hyper::body::Incoming>| {
                            let seen4 = seen3.clone();
                            async move {
                                let (parts, body) = req.into_parts();
                                let col = body.collect().await;
                                {
                                    let mut s = seen4.lock().unwrap();
                                    s.requests += 1;
                                    s.method = Some(parts.method.clone());
                                    s.uri = Some(parts.uri.clone());
                                    s.version = Some(parts.version);
                                    s.headers = parts.headers.clone();
                                    match col {
                                        Ok(col) => {
                                            s.trailers = col.trailers().cloned();
                                            s.data = col.to_bytes().to_vec();
                                        }
                                        Err(e) => s.error = Some(e.to_string()),
                                    }
                                }
                                let mut t = HeaderMap::new();
                                t.insert("grpc-status", http::HeaderValue::from_static("0"));
                                let frames: Vec<Result<http_body::Frame<bytes::Bytes>, std::convert::Infallible>> =
                                    vec![Ok(http_body::Frame::data(bytes::Bytes::from(wire::encode_frame(0, &[9])))), Ok(http_body::Frame::trailers(t))];
                                let body = http_body_util::StreamBody::new(tokio_stream::iter(frames));
                                Ok::<_, std::convert::Infallible>(http::Response::builder().status(200).header("content-type", "application/grpc").body(body).unwrap())
                            }
                        });
                        let _ = hyper::server::conn::http2::Builder::new(hyper_util::rt::TokioExecutor::new()).serve_connection(hyper_util::rt::TokioIo::new(io), svc).await;
                    });
                }
            });
            let chn = match vnet::within(horizon, tonic::transport::Endpoint::from_static("http://c03.test:1").connect_with_connector(vnet::connector(st))).await {
                Some(Ok(c)) => c,
                _ => {
                    seen.lock().unwrap().error = Some("connect failed".into());
                    return seen.lock().unwrap().clone();
                }
            };
            let mut client = EchoClient::new(chn);
            if let Some(e) = c.c2s {
                client = client.send_compressed(tonic_enc(e));
            }
            let _ = vnet::within(horizon, client_call(&mut client, c.call.shape, c.call.req_msgs.clone(), &c.call.req_md, true, &ch, |_| {})).await;
            vnet::settle().await;
        } else {
            let (server, _log) = new_server(c.call.script.clone(), &ch, true);
            let mode = c.middleware;
            tokio::spawn(async move {
                if mode == 0 {
                    let _ = tonic::transport::Server::builder().add_service(server).serve_with_incoming(vnet::incoming(rx)).await;
                } else {
                    let _ = tonic::transport::Server::builder()
                        .timeout(std::time::Duration::from_millis(50))
                        .layer(tower::layer::layer_fn(move |inner| Obstacle { inner, mode }))
                        .add_service(server)
                        .serve_with_incoming(vnet::incoming(rx))
                        .await;
                }
            });
            use tower_service::Service;
            let mut conn = vnet::connector(st);
            let Ok(io) = conn.call(http::Uri::from_static("http://c03.test:1")).await else {
                seen.lock().unwrap().error = Some("pipe".into());
                return seen.lock().unwrap().clone();
            };
            let Ok((mut send, connection)) = hyper::client::conn::http2::handshake(hyper_util::rt::TokioExecutor::new(), io).await else {
                seen.lock().unwrap().error = Some("handshake".into());
                return seen.lock().unwrap().clone();
            };
            tokio::spawn(async move {
                let _ = connection.await;
            });
            let mut body = vec![];
            let msgs: Vec<Vec<u8>> = if c.call.shape.streams_requests() { c.call.req_msgs.clone() } else { vec![c.call.req_msgs.first().cloned().unwrap_or_default()] };
            for m in &msgs {
                body.extend(wire::encode_frame(0, m));
            }
            let req = http::Request::builder()
                .method("POST")
                .uri(format!("http://c03.test:1{}", c.call.shape.path()))
                .header("content-type", c.req_ct)
                .header("te", "trailers")
                .body(http_body_util::Full::new(bytes::Bytes::from(body)))
                .unwrap();
            let r = vnet::within(horizon, async {
                let resp = send.send_request(req).await.map_err(|e| e.to_string())?;
                let (parts, body) = resp.into_parts();
                let col = body.collect().await.map_err(|e| e.to_string())?;
                let trailers = col.trailers().cloned();
                Ok::<_, String>((parts, col.to_bytes().to_vec(), trailers))
            })
            .await;
            let mut s = seen.lock().unwrap();
            match r {
                None => s.error = Some("hang".into()),
                Some(Err(e)) => s.error = Some(e),
                Some(Ok((parts, data, trailers))) => {
                    s.status = Some(parts.status);
                    s.version = Some(parts.version);
                    s.headers = parts.headers;
                    s.data = data;
                    s.trailers = trailers;
                }
            }
        }
        let out = seen.lock().unwrap().clone();
        out
    })
}

fn net_body(c: &NetCase, ch: &Chooser) -> Outcome {
    let s = net_run(c, ch);
    let mut hs = s.headers.clone();
    hs.remove("date");
    hs.remove("user-agent");
    let mut o = Outcome::new(format!(
        "{:?} {:?} {:?} status={:?} hdr[{}] data={} trailers={:?} err={:?}",
        s.method, s.uri.as_ref().map(|u| u.path().to_string()), s.version, s.status, fmt_headers(&hs), hex(&s.data), s.trailers.as_ref().map(fmt_headers), s.error
    ));
    o.nontrivial = c.chop != 0 || c.c2s.is_some() || c.call.script.end.is_some();
    if let Some(e) = &s.error {
        o.violate(if e == "hang" { "hang" } else { "transport-error" }, format!("non-tonic peer failed to exchange the message: {e}"));
        return o;
    }
    if c.judge_request {
        if s.requests != 1 {
            o.violate("net-request-count", format!("{} requests reached the peer", s.requests));
            return o;
        }
        if s.method != Some(http::Method::POST) {
            o.violate("net-request-method", format!("{:?}", s.method));
        }
        if s.version != Some(http::Version::HTTP_2) {
            o.violate("net-request-version", format!("{:?}", s.version));
        }
        if s.uri.as_ref().map(|u| u.path()) != Some(c.call.shape.path()) || s.uri.as_ref().and_then(|u| u.query()).is_some() {
            o.violate("net-request-path", format!("{:?}", s.uri));
        }
        if !header_is(&s.headers, "content-type", "application/grpc") {
            o.violate("net-request-content-type", fmt_headers(&s.headers));
        }
        if !header_is(&s.headers, "te", "trailers") {
            o.violate("net-request-te", fmt_headers(&s.headers));
        }
        if s.trailers.is_some() {
            o.violate("net-request-trailers", "the request carried trailers");
        }
        let announced = s.headers.get("grpc-encoding").and_then(|v| std::str::from_utf8(v.as_bytes()).ok()).and_then(Enc::from_name);
        let want: Vec<Vec<u8>> = if c.call.shape.streams_requests() { c.call.req_msgs.clone() } else { vec![c.call.req_msgs.first().cloned().unwrap_or_default()] };
        judge_frames(&mut o, "net-request", &s.data, &want, announced, Some(announced.is_some() as u8));
    } else {
        if s.status != Some(http::StatusCode::OK) {
            o.violate("net-response-status", format!("{:?}", s.status));
        }
        if !header_is(&s.headers, "content-type", "application/grpc") {
            o.violate("net-response-content-type", fmt_headers(&s.headers));
        }
        let in_headers = s.headers.get_all("grpc-status").iter().count();
        let in_trailers = s.trailers.as_ref().map(|t| t.get_all("grpc-status").iter().count()).unwrap_or(0);
        let body_empty = s.data.is_empty() && s.trailers.is_none();
        if body_empty {
            if in_headers != 1 {
                o.violate("net-response-grpc-status", format!("body-less response with {in_headers} grpc-status headers"));
            }
        } else if in_headers != 0 || in_trailers != 1 {
            o.violate("net-response-grpc-status", format!("grpc-status: {in_headers} in headers, {in_trailers} in trailers"));
        }
        if c.middleware != 0 {
            let want_code: &[u8] = if c.middleware == 1 { b"7" } else { b"1" };
            if s.headers.get("grpc-status").map(|v| v.as_bytes()) != Some(want_code) || !s.data.is_empty() {
                o.violate("net-middleware-response", format!("expected a body-less response with grpc-status {} from the middleware stack, got [{}] data {}", String::from_utf8_lossy(want_code), fmt_headers(&s.headers), hex(&s.data)));
            }
            return o;
        }
        let (want, _) = expected_response(&c.call);
        judge_frames(&mut o, "net-response", &s.data, &want, None, Some(0));
    }
    o
}

pub fn property(tier: Tier) -> Property {
    let a = Section::new(
        "encode-body",
        Config { max_bound: 6, ..Default::default() },
        "cases: message sequences (0..=2, thorough 0..=3, over payloads {0,1,9,40 bytes}) x encoding x role x buffer settings x outcome {OK, source error after k items, encoder failure at item k, size limit exceeded at item k}; environment: the source answers Pending before any item (all patterns); the body is polled until None; oracle: independent frame parser/decompressor recover exactly the messages before the failure, flag = 1 iff an encoding is in force, server: all DATA then exactly one trailers block with exactly one grpc-status of the right value and nothing after it, client: no trailers. Non-trivial = a failure outcome or a Pending taken.",
        body_cases(tier),
        |c: &BodyCase| format!("msgs={:?} enc={} role={:?} fate={:?} settings={:?}", c.msgs.iter().map(|m| m.len()).collect::<Vec<_>>(), enc_name(c.enc), c.role, c.fate, c.settings),
        body_body,
    )
    .mins(1000, 10, 100);
    let mut wcases = vec![];
    for (i, call) in call_cases(tier).into_iter().enumerate() {
        if call.free_cuts || call.cfg != 0 {
            continue;
        }
        let combos: Vec<(Option<Enc>, Option<Enc>)> = if tier == Tier::Thorough {
            vec![(None, None), (Some(Enc::Gzip), None), (None, Some(Enc::Zstd)), (Some(Enc::Deflate), Some(Enc::Gzip)), (Some(Enc::Zstd), Some(Enc::Deflate))]
        } else {
            vec![[(None, None), (Some(Enc::Gzip), None), (None, Some(Enc::Zstd)), (Some(Enc::Deflate), Some(Enc::Gzip))][i % 4]]
        };
        for (c2s, s2c) in combos {
            wcases.push(WireCase { call: call.clone(), c2s, s2c, via_clone: (i / 4) % 2 == 1 });
        }
    }
    // handler metadata that happens to carry a grpc-encoding entry (e.g. forwarded from an upstream
    // response) while response compression is negotiated: what is announced must still be what
    // the messages are compressed with
    for shape in super::l1::Shape::ALL {
        for forged in ["identity", "deflate"] {
            for s2c in [Enc::Gzip, Enc::Zstd] {
                let script = super::l1::Script {
                    initial_md: vec![("grpc-encoding".to_string(), super::l1::MdVal::Ascii(forged.to_string()))],
                    msgs: vec![vec![4, 5], vec![6]],
                    end: None,
                    handler_err: false,
                    bidi: super::l1::BidiMode::ReadAll,
                    disable_compression: false,
                    exact_hint: false,
                };
                let call = CallCase { shape, req_msgs: vec![vec![1]], req_md: vec![], script, free_cuts: false, enc: None, fixed_chunks: false, repeat: false, cfg: 0 };
                wcases.push(WireCase { call, c2s: None, s2c: Some(s2c), via_clone: false });
            }
        }
    }
    let b = Section::new(
        "l1-wire",
        Config { max_bound: 2, ..Default::default() },
        "cases: every C02 call case (shape x request sequence x handler script) x compression configuration (half of them through a clone of the configured client), plus handler metadata carrying its own grpc-encoding entry while response compression is negotiated; generated client -> capture adapter -> generated server; environment: message sources answer Pending (<= 2 deviations); oracle on the captured HTTP messages: POST, HTTP/2, path /fx.Echo/<Method>, content-type application/grpc, te: trailers, no request trailers; response 200 + application/grpc, exactly one grpc-status (in headers iff the body is empty, else in one trailers block that is last); both bodies parse with the independent decoder into the expected serialisations, compressed with the announced grpc-encoding exactly when flag = 1. Non-trivial = compression configured or an error status scripted.",
        wcases,
        |c: &WireCase| format!("c2s={} s2c={} via_clone={} {}", enc_name(c.c2s), enc_name(c.s2c), c.via_clone, describe(&c.call)),
        wire_body,
    )
    .mins(500, 10, 100);
    let mut ncases = vec![];
    for (i, call) in call_cases(tier).into_iter().enumerate() {
        if call.free_cuts || call.cfg != 0 {
            continue;
        }
        if tier == Tier::Quick && i % 3 != 0 {
            continue;
        }
        let chops: Vec<usize> = if tier == Tier::Thorough { vec![0, 2, 3] } else { vec![[0, 2, 3][i % 3]] };
        for chop in chops {
            ncases.push(NetCase { call: call.clone(), judge_request: false, c2s: None, chop, middleware: 0, req_ct: "application/grpc" });
            ncases.push(NetCase { call: call.clone(), judge_request: true, c2s: [None, Some(Enc::Gzip), Some(Enc::Zstd)][i % 3], chop, middleware: 0, req_ct: "application/grpc" });
        }
    }
    // (b') the bare client names a message subtype in its content-type
    for call in call_cases(tier).into_iter().filter(|c| !c.free_cuts && !c.repeat && c.cfg == 0 && c.enc.is_none()).step_by(23) {
        for req_ct in ["application/grpc+proto", "application/grpc+x-raw"] {
            ncases.push(NetCase { call: call.clone(), judge_request: false, c2s: None, chop: 0, middleware: 0, req_ct });
        }
    }
    // (c) responses produced by the middleware stack, for every call shape
    for call in call_cases(tier).into_iter().filter(|c| !c.free_cuts && !c.repeat && c.cfg == 0 && c.script.end.is_none() && c.enc.is_none()).step_by(17) {
        for middleware in [1u8, 2] {
            ncases.push(NetCase { call: call.clone(), judge_request: false, c2s: None, chop: 0, middleware, req_ct: "application/grpc" });
        }
    }
    let c = Section::new(
        "transport-wire",
        Config { max_bound: 1, hang_secs: 60, ..Default::default() },
        "cases: C02 call cases (quick: every third) x pipe fragmentation pattern, in virtual time over in-memory pipes, against NON-tonic peers: (a) the generated client over the real Channel/hyper/h2 stack talks to a bare hyper HTTP/2 server which records what really arrives: POST, HTTP/2, path, content-type application/grpc, te: trailers, no trailers, body = the request messages framed (compressed as announced); (b) a bare hyper HTTP/2 client sends a hand-built gRPC request (content-type application/grpc, and for a sample +proto / +x-raw) to the real tonic Server and records status 200, content-type, exactly one grpc-status (in headers iff nothing else follows, else in the HTTP/2 trailers) and the framed response messages; (c) as (b), but the response comes from the server's middleware stack instead of the handler — a user layer failing with a Status, Server::timeout firing while a user layer holds the request — and must be the same kind of HTTP message (200, application/grpc, exactly one grpc-status, in the headers). Non-trivial = fragmenting pattern, compression or an error status.",
        ncases,
        |c: &NetCase| format!("judge_request={} c2s={} chop={} middleware={} req_ct={} {}", c.judge_request, enc_name(c.c2s), c.chop, c.middleware, c.req_ct, describe(&c.call)),
        net_body,
    )
    .mins(300, 10, 100);
    Property {
        id: "C03",
        level: "model_checking",
        hang_is_violation: false,
        assumptions: vec![
            "a handler stream that keeps yielding after its first Err is outside the alphabet".into(),
            "HTTP/2 framing below http::Request/Response (hyper/h2) is trusted; conformance is judged on the http-level message tonic hands to the transport".into(),
        ],
        sections: vec![a, b, c],
        extra: Default::default(),
    }
}
