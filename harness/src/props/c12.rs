//! C12 — interceptors change only what they change and can veto a call.
//!
//! Three explorations:
//!  * `intercepted-service`  `InterceptedService::new(recorder, interceptor)` over the full request x
//!                           action alphabet; the recorder is a hand-written tower service;
//!  * `generated-server`     `EchoServer::with_interceptor`;
//!  * `generated-client`     `EchoClient::with_interceptor` in front of the in-process adapter.
//!
//! The reject path is judged by decoding the response headers independently (`oracle::pct`,
//! `oracle::b64`) and by comparing them with the image `Status::add_header` gives for that status.

use super::l1::{apply_md, client_call, new_server, BidiMode, Capture, Direct, Md, MdVal, Script, Shape, StatusSpec};
use crate::env::{collect_body, fmt_headers, hex, spin_block_on, Chunking, Collected, ScriptBody};
use crate::explore::{machinery, Chooser, Config, Outcome};
use crate::fixtures::echo::echo_client::EchoClient;
use crate::fixtures::echo::echo_server::{Echo, EchoServer};
use crate::oracle::tables::RESERVED;
use crate::oracle::{b64, pct, wire};
use crate::report::{Property, Section, Tier};
use http::header::{HeaderName, HeaderValue};
use http::HeaderMap;
use std::pin::Pin;
use std::sync::{Arc, Mutex};
use std::task::{Context, Poll};
use tonic::metadata::{AsciiMetadataKey, BinaryMetadataKey, MetadataMap, MetadataValue};
use tonic::service::interceptor::InterceptedService;
use tonic::{Request, Response, Status};

/// Extension present on the original request.
#[derive(Clone, Debug, PartialEq, Eq)]
struct OrigExt(u32);
/// Extension added by the interceptor.
#[derive(Clone, Debug, PartialEq, Eq)]
struct AddedExt(&'static str);

fn hv(bytes: &[u8]) -> HeaderValue {
    HeaderValue::from_bytes(bytes).unwrap_or_else(|_| machinery("harness built an invalid header value"))
}
fn hn(name: &str) -> HeaderName {
    HeaderName::from_bytes(name.as_bytes()).unwrap_or_else(|_| machinery("harness built an invalid header name"))
}
fn a(k: &str, v: &str) -> (String, MdVal) {
    (k.to_string(), MdVal::Ascii(v.to_string()))
}
fn b(k: &str, v: &[u8]) -> (String, MdVal) {
    (k.to_string(), MdVal::Bin(v.to_vec()))
}

// ---------------------------------------------------------------------------------------------
// menus
// ---------------------------------------------------------------------------------------------

type RawHeaders = Vec<(&'static str, Vec<u8>)>;

fn methods() -> Vec<http::Method> {
    vec![http::Method::GET, http::Method::POST, http::Method::OPTIONS, http::Method::from_bytes(b"X").unwrap()]
}

fn versions() -> Vec<http::Version> {
    vec![http::Version::HTTP_09, http::Version::HTTP_10, http::Version::HTTP_11, http::Version::HTTP_2, http::Version::HTTP_3]
}

fn uris() -> Vec<http::Uri> {
    ["/fx.Echo/Unary", "http://example.com:8080/a/b", "https://h/p?q=1&r=%20", "/p?x", "*", "example.com:443", "/"]
        .iter()
        .map(|u| u.parse().unwrap_or_else(|_| machinery(format!("bad uri in the menu: {u}"))))
        .collect()
}

fn header_menus() -> Vec<RawHeaders> {
    let many: RawHeaders = {
        const KEYS: [&str; 20] = ["x-k0", "x-k1", "x-k2", "x-k3", "x-k4", "x-k5", "x-k6", "x-k7", "x-k8", "x-k9", "x-k10", "x-k11", "x-k12", "x-k13", "x-k14", "x-k15", "x-k16", "x-k17", "x-k18", "x-k19"];
        let mut v: RawHeaders = KEYS.iter().enumerate().map(|(i, k)| (*k, format!("v{i}").into_bytes())).collect();
        v.push(("x-a", b"late".to_vec()));
        v.push(("x-k3", b"again".to_vec()));
        v.push(("te", b"trailers".to_vec()));
        v
    };
    vec![
        vec![],
        vec![("x-a", b"1".to_vec()), ("x-a", b"2".to_vec()), ("x-a", b"1".to_vec())],
        vec![("te", b"trailers".to_vec()), ("content-type", b"application/grpc".to_vec()), ("user-agent", b"ua/1 x".to_vec()), ("grpc-status", b"7".to_vec())],
        // binary entries as peers write them: unpadded, padded, empty
        vec![("x-b-bin", b"AP89".to_vec()), ("x-b-bin", b"+/8=".to_vec()), ("x-b-bin", b"".to_vec())],
        vec![
            ("content-type", b"application/grpc+proto".to_vec()),
            ("x-a", b"a b".to_vec()),
            ("x-b-bin", b"+w".to_vec()),
            ("te", b"trailers".to_vec()),
            ("x-a", b"".to_vec()),
            ("grpc-message", b"%F0".to_vec()),
            ("grpc-timeout", b"1S".to_vec()),
            ("x-single", b"only".to_vec()),
            ("te", b"second".to_vec()),
            ("x-opaque", vec![0xE9, 0x80, 0xFF]),
        ],
        vec![
            ("user-agent", b"a".to_vec()),
            ("user-agent", b"b".to_vec()),
            ("grpc-status", b"0".to_vec()),
            ("grpc-message-type", b"t".to_vec()),
            ("grpc-encoding", b"gzip".to_vec()),
            ("grpc-accept-encoding", b"gzip,zstd".to_vec()),
            ("grpc-message", b"m".to_vec()),
        ],
        many,
        vec![("x-single", b"only".to_vec())],
    ]
}

/// (data, trailers?)
fn bodies() -> Vec<(Vec<u8>, bool)> {
    vec![(vec![], false), (vec![0, 0, 0, 0, 1, 42], false), (vec![1, 2, 3], true)]
}

#[derive(Clone, Debug, PartialEq, Eq)]
enum Action {
    Identity,
    InsertAscii(&'static str, &'static str),
    InsertBin(&'static str, &'static [u8]),
    AppendAscii(&'static str, &'static str),
    AppendBin(&'static str, &'static [u8]),
    Remove(&'static str),
    RemoveBin(&'static str),
    /// the interceptor returns a brand-new request: its own metadata and extensions only
    Fresh,
    AddExt,
    RemoveExt,
    /// index into the status menu
    Reject(usize),
}

fn accept_actions() -> Vec<Action> {
    vec![
        Action::Identity,
        Action::InsertAscii("x-new", "n 1"),
        Action::InsertAscii("x-a", "replaced"),
        Action::InsertAscii("te", "by-interceptor"),
        Action::InsertBin("x-new-bin", &[0x00, 0xFB, 0xFF, 0x3D]),
        Action::InsertBin("x-b-bin", &[0xFF]),
        Action::AppendAscii("x-a", "appended"),
        Action::AppendAscii("x-new", ""),
        Action::AppendAscii("content-type", "x/y"),
        Action::AppendBin("x-b-bin", &[0xFB, 0xFF]),
        Action::AppendBin("x-new-bin", &[]),
        Action::Remove("x-a"),
        Action::Remove("x-absent"),
        Action::Remove("te"),
        Action::Remove("grpc-status"),
        Action::Remove("x-k3"),
        Action::RemoveBin("x-b-bin"),
        Action::Fresh,
        Action::AddExt,
        Action::RemoveExt,
    ]
}

fn md_menu() -> Vec<Md> {
    vec![
        vec![],
        vec![a("x-a", "v 1=;,")],
        vec![b("x-b-bin", &[0, 255, 61, 1])],
        vec![a("x-r", "1"), a("x-r", "2"), b("x-e-bin", &[]), b("x-e-bin", &[7, 7]), a("x-r", "1")],
        vec![a("content-type", "text/plain"), a("x-a", "kept"), a("grpc-status", "0"), a("te", "x"), a("grpc-message", "forged")],
        // reserved names with several values, in front of / between / behind ordinary entries
        vec![a("x-a", "1"), a("te", "t1"), a("te", "t2"), b("x-b-bin", &[9]), a("user-agent", "u1"), a("user-agent", "u2"), a("user-agent", "u3")],
        vec![a("content-type", "c1"), a("content-type", "c2"), a("x-a", "kept"), a("x-a", "too")],
    ]
}

fn status_menu(tier: Tier) -> Vec<StatusSpec> {
    let msgs: Vec<String> = vec!["".into(), "plain text".into(), "100% / %41".into(), "naïve ☃ 日本".into(), "ctl\u{1}\n\ttab\u{7f}".into(), "quota%20exceeded".into(), "%41%zz%".into()];
    let dets: Vec<Vec<u8>> = vec![vec![], vec![0xfb], vec![0xff, 0x3e], vec![0, 1, 2], vec![0x3f, 0x3e, 0xff, 0x00]];
    let mds = md_menu();
    let mut out = vec![];
    // every code, OK included, with rotating message / details / metadata
    for code in 0..=16usize {
        out.push(StatusSpec { code: code as i32, message: msgs[code % msgs.len()].clone(), details: dets[code % dets.len()].clone(), md: mds[code % mds.len()].clone() });
    }
    // message x details x metadata for two codes
    for code in tier.q(vec![7], vec![7, 0]) {
        for m in &msgs {
            for d in &dets {
                for md in &mds {
                    out.push(StatusSpec { code, message: m.clone(), details: d.clone(), md: md.clone() });
                }
            }
        }
    }
    out
}

struct Menus {
    methods: Vec<http::Method>,
    versions: Vec<http::Version>,
    uris: Vec<http::Uri>,
    headers: Vec<RawHeaders>,
    bodies: Vec<(Vec<u8>, bool)>,
    actions: Vec<Action>,
    statuses: Arc<Vec<StatusSpec>>,
}

#[derive(Clone, Copy, Debug)]
struct Case {
    method: u8,
    version: u8,
    uri: u8,
    headers: u8,
    ext: bool,
    body: u8,
    action: u16,
}

fn body_trailers() -> HeaderMap {
    let mut t = HeaderMap::new();
    t.insert("x-req-trailer", hv(b"1"));
    t
}

// ---------------------------------------------------------------------------------------------
// recorder (the wrapped service) and the scripted interceptor
// ---------------------------------------------------------------------------------------------

#[derive(Clone, Debug, Default)]
struct Seen {
    calls: u32,
    method: Option<http::Method>,
    uri: Option<http::Uri>,
    version: Option<http::Version>,
    headers: HeaderMap,
    orig_ext: Option<u32>,
    added_ext: Option<&'static str>,
    body: Collected,
}

#[derive(Clone)]
struct Recorder {
    seen: Arc<Mutex<Seen>>,
    ch: Chooser,
}

impl tower_service::Service<http::Request<ScriptBody>> for Recorder {
    type Response = http::Response<ScriptBody>;
    type Error = std::convert::Infallible;
    type Future = std::future::Ready<Result<Self::Response, Self::Error>>;
    fn poll_ready(&mut self, _cx: &mut Context<'_>) -> Poll<Result<(), Self::Error>> {
        Poll::Ready(Ok(()))
    }
    fn call(&mut self, req: http::Request<ScriptBody>) -> Self::Future {
        let (parts, body) = req.into_parts();
        let collected = collect_body(body, 1000);
        {
            let mut s = self.seen.lock().unwrap();
            s.calls += 1;
            s.method = Some(parts.method.clone());
            s.uri = Some(parts.uri.clone());
            s.version = Some(parts.version);
            s.headers = parts.headers.clone();
            s.orig_ext = parts.extensions.get::<OrigExt>().map(|e| e.0);
            s.added_ext = parts.extensions.get::<AddedExt>().map(|e| e.0);
            s.body = collected;
        }
        let mut resp = http::Response::new(ScriptBody::new(b"inner-response".to_vec(), None, Chunking::Fixed(vec![]), &self.ch));
        *resp.status_mut() = http::StatusCode::ACCEPTED;
        resp.headers_mut().insert("x-inner", hv(b"1"));
        std::future::ready(Ok(resp))
    }
}

/// Apply `action` the way a user's interceptor would, through the public `Request<()>` API.
fn run_interceptor(action: &Action, statuses: &[StatusSpec], mut req: Request<()>) -> Result<Request<()>, Status> {
    match action {
        Action::Identity => {}
        Action::InsertAscii(k, v) => {
            req.metadata_mut().insert(AsciiMetadataKey::from_bytes(k.as_bytes()).unwrap(), MetadataValue::try_from(*v).unwrap());
        }
        Action::InsertBin(k, v) => {
            req.metadata_mut().insert_bin(BinaryMetadataKey::from_bytes(k.as_bytes()).unwrap(), MetadataValue::from_bytes(v));
        }
        Action::AppendAscii(k, v) => {
            req.metadata_mut().append(AsciiMetadataKey::from_bytes(k.as_bytes()).unwrap(), MetadataValue::try_from(*v).unwrap());
        }
        Action::AppendBin(k, v) => {
            req.metadata_mut().append_bin(BinaryMetadataKey::from_bytes(k.as_bytes()).unwrap(), MetadataValue::from_bytes(v));
        }
        Action::Remove(k) => {
            req.metadata_mut().remove(*k);
        }
        Action::RemoveBin(k) => {
            req.metadata_mut().remove_bin(*k);
        }
        Action::Fresh => {
            let mut r = Request::new(());
            r.metadata_mut().insert("x-new", MetadataValue::from_static("fresh"));
            r.extensions_mut().insert(AddedExt("added"));
            return Ok(r);
        }
        Action::AddExt => {
            req.extensions_mut().insert(AddedExt("added"));
        }
        Action::RemoveExt => {
            req.extensions_mut().remove::<OrigExt>();
        }
        Action::Reject(i) => return Err(statuses[*i].build()),
    }
    Ok(req)
}

// ---------------------------------------------------------------------------------------------
// reference model
// ---------------------------------------------------------------------------------------------

#[derive(Clone, PartialEq, Eq)]
enum Want {
    /// exactly these bytes (an untouched original header, or an ASCII value of the interceptor)
    Raw(Vec<u8>),
    /// a binary value written by the interceptor: any base64 text decoding to these bytes
    BinOf(Vec<u8>),
}

impl std::fmt::Debug for Want {
    fn fmt(&self, f: &mut std::fmt::Formatter<'_>) -> std::fmt::Result {
        match self {
            Want::Raw(r) => write!(f, "{:?}", String::from_utf8_lossy(r)),
            Want::BinOf(x) => write!(f, "base64-of({})", hex(x)),
        }
    }
}

/// key -> ordered values
type Model = Vec<(String, Vec<Want>)>;

fn model_of(raw: &RawHeaders) -> Model {
    let mut m: Model = vec![];
    for (k, v) in raw {
        match m.iter_mut().find(|(mk, _)| mk == k) {
            Some((_, vals)) => vals.push(Want::Raw(v.clone())),
            None => m.push((k.to_string(), vec![Want::Raw(v.clone())])),
        }
    }
    m
}

fn model_apply(m: &mut Model, action: &Action) {
    let set = |m: &mut Model, k: &str, w: Want, replace: bool| match m.iter_mut().find(|(mk, _)| mk == k) {
        Some((_, vals)) => {
            if replace {
                *vals = vec![w];
            } else {
                vals.push(w);
            }
        }
        None => m.push((k.to_string(), vec![w])),
    };
    match action {
        Action::InsertAscii(k, v) => set(m, k, Want::Raw(v.as_bytes().to_vec()), true),
        Action::InsertBin(k, v) => set(m, k, Want::BinOf(v.to_vec()), true),
        Action::AppendAscii(k, v) => set(m, k, Want::Raw(v.as_bytes().to_vec()), false),
        Action::AppendBin(k, v) => set(m, k, Want::BinOf(v.to_vec()), false),
        Action::Remove(k) | Action::RemoveBin(k) => m.retain(|(mk, _)| mk != k),
        Action::Fresh => *m = vec![("x-new".to_string(), vec![Want::Raw(b"fresh".to_vec())])],
        Action::Identity | Action::AddExt | Action::RemoveExt | Action::Reject(_) => {}
    }
}

fn want_matches(w: &Want, got: &[u8]) -> bool {
    match w {
        Want::Raw(r) => r == got,
        Want::BinOf(bytes) => b64::decode(got).as_deref() == Ok(&bytes[..]),
    }
}

/// Compare the headers the wrapped service received with the model, as a multimap with per-key
/// order.
fn judge_headers(o: &mut Outcome, prefix: &str, got: &HeaderMap, model: &Model) {
    for (k, wants) in model {
        let g: Vec<&[u8]> = got.get_all(k.as_str()).iter().map(|v| v.as_bytes()).collect();
        if g.is_empty() {
            let key = if RESERVED.contains(&k.as_str()) { "reserved-header-dropped" } else { "header-dropped" };
            o.violate(format!("{prefix}-{key}"), format!("header {k:?} (expected values {wants:?}) did not reach the wrapped service"));
            continue;
        }
        let same = g.len() == wants.len() && wants.iter().zip(&g).all(|(w, x)| want_matches(w, x));
        if !same {
            // a permutation?
            let mut used = vec![false; g.len()];
            let perm = g.len() == wants.len()
                && wants.iter().all(|w| {
                    for (i, x) in g.iter().enumerate() {
                        if !used[i] && want_matches(w, x) {
                            used[i] = true;
                            return true;
                        }
                    }
                    false
                });
            let key = if perm { "header-order" } else { "header-values" };
            o.violate(
                format!("{prefix}-{key}"),
                format!("header {k:?}: the wrapped service received {:?}, expected {wants:?}", g.iter().map(|x| String::from_utf8_lossy(x).to_string()).collect::<Vec<_>>()),
            );
        }
    }
    for k in got.keys() {
        if !model.iter().any(|(mk, _)| mk == k.as_str()) {
            o.violate(format!("{prefix}-header-extra"), format!("the wrapped service received header {:?} = {:?} which neither the request nor the interceptor supplied", k.as_str(), got.get_all(k).iter().map(|v| String::from_utf8_lossy(v.as_bytes()).to_string()).collect::<Vec<_>>()));
        }
    }
}

/// The reject path: `resp` must be the trailers-only image of `st`.
fn judge_reject(o: &mut Outcome, prefix: &str, st: &StatusSpec, status: http::StatusCode, headers: &HeaderMap, body: &Collected, ends_with_headers: bool) {
    if !ends_with_headers {
        o.violate(format!("{prefix}-not-trailers-only"), "the rejection's body does not report is_end_stream(): the transport would send HEADERS without END_STREAM followed by an empty DATA frame, which is not a trailers-only response");
    }
    if status != http::StatusCode::OK {
        o.violate(format!("{prefix}-http-status"), format!("HTTP status {status}, expected 200"));
    }
    let ct: Vec<&[u8]> = headers.get_all("content-type").iter().map(|v| v.as_bytes()).collect();
    if ct != vec![&b"application/grpc"[..]] {
        o.violate(format!("{prefix}-content-type"), format!("content-type values {:?}, expected exactly application/grpc", ct.iter().map(|x| String::from_utf8_lossy(x).to_string()).collect::<Vec<_>>()));
    }
    if !body.bytes().is_empty() || !body.trailers.is_empty() || body.error.is_some() || body.stalled {
        o.violate(format!("{prefix}-body-not-empty"), format!("the body is not empty: data={} trailers={} error={:?}", hex(&body.bytes()), body.trailers.len(), body.error));
    }
    // independent decode of the status headers
    let codes: Vec<&[u8]> = headers.get_all("grpc-status").iter().map(|v| v.as_bytes()).collect();
    let code_ok = codes.len() == 1 && std::str::from_utf8(codes[0]).ok().and_then(|s| if s.bytes().all(|c| c.is_ascii_digit()) { s.parse::<i32>().ok() } else { None }) == Some(st.code);
    if !code_ok {
        o.violate(format!("{prefix}-code"), format!("grpc-status {:?}, the interceptor rejected with code {}", codes.iter().map(|x| String::from_utf8_lossy(x).to_string()).collect::<Vec<_>>(), st.code));
    }
    let msgs: Vec<&[u8]> = headers.get_all("grpc-message").iter().map(|v| v.as_bytes()).collect();
    let msg_ok = match msgs.len() {
        0 => st.message.is_empty(),
        1 => pct::decode_strict(msgs[0]).ok().as_deref() == Some(st.message.as_str()) && msgs[0].iter().all(|c| pct::is_legal_unescaped(*c) || *c == b'%'),
        _ => false,
    };
    if !msg_ok {
        o.violate(format!("{prefix}-message"), format!("grpc-message {:?} does not percent-decode to the interceptor's message {:?}", msgs.iter().map(|x| String::from_utf8_lossy(x).to_string()).collect::<Vec<_>>(), st.message));
    }
    let dets: Vec<&[u8]> = headers.get_all("grpc-status-details-bin").iter().map(|v| v.as_bytes()).collect();
    let det_ok = match dets.len() {
        0 => st.details.is_empty(),
        1 => b64::decode(dets[0]).as_deref() == Ok(&st.details[..]),
        _ => false,
    };
    if !det_ok {
        o.violate(format!("{prefix}-details"), format!("grpc-status-details-bin {:?} does not decode to the interceptor's details {}", dets.iter().map(|x| String::from_utf8_lossy(x).to_string()).collect::<Vec<_>>(), hex(&st.details)));
    }
    // the status's own (non-reserved) metadata
    let mut keys: Vec<&str> = vec![];
    for (k, _) in &st.md {
        if !keys.contains(&k.as_str()) && !RESERVED.contains(&k.as_str()) {
            keys.push(k);
        }
    }
    for k in keys {
        let wants: Vec<Want> = st
            .md
            .iter()
            .filter(|(mk, _)| mk == k)
            .map(|(_, v)| match v {
                MdVal::Ascii(s) => Want::Raw(s.as_bytes().to_vec()),
                MdVal::Bin(x) => Want::BinOf(x.clone()),
            })
            .collect();
        let g: Vec<&[u8]> = headers.get_all(k).iter().map(|v| v.as_bytes()).collect();
        if g.len() != wants.len() || !wants.iter().zip(&g).all(|(w, x)| want_matches(w, x)) {
            o.violate(format!("{prefix}-metadata"), format!("status metadata {k:?}: the response carries {:?}, the interceptor's status has {wants:?}", g.iter().map(|x| String::from_utf8_lossy(x).to_string()).collect::<Vec<_>>()));
        }
    }
    // and the whole block equals the image Status::add_header gives for that status
    let mut image = HeaderMap::new();
    image.insert("content-type", hv(b"application/grpc"));
    match st.build().add_header(&mut image) {
        Ok(()) => {
            if image != *headers {
                o.violate(format!("{prefix}-headers-differ-from-add-header"), format!("response headers [{}] differ from content-type + Status::add_header [{}]", fmt_headers(headers), fmt_headers(&image)));
            }
        }
        Err(e) => o.violate(format!("{prefix}-add-header-failed"), format!("Status::add_header failed for a status of the menu: {e:?}")),
    }
}

fn reserved_repeated_or_binary(raw: &RawHeaders) -> bool {
    raw.iter().enumerate().any(|(i, (k, _))| RESERVED.contains(k) || k.ends_with("-bin") || raw[..i].iter().any(|(p, _)| p == k))
}

// ---------------------------------------------------------------------------------------------
// section 1: InterceptedService::new over the full alphabet
// ---------------------------------------------------------------------------------------------

fn describe_case(m: &Menus, c: &Case) -> String {
    format!(
        "{} {:?} uri={} headers={:?} ext={} body={:?} action={:?}",
        m.methods[c.method as usize],
        m.versions[c.version as usize],
        m.uris[c.uri as usize],
        m.headers[c.headers as usize].iter().map(|(k, v)| format!("{k}: {}", String::from_utf8_lossy(v).escape_debug())).collect::<Vec<_>>(),
        c.ext,
        m.bodies[c.body as usize],
        match &m.actions[c.action as usize] {
            Action::Reject(i) => format!("Reject({:?})", m.statuses[*i]),
            other => format!("{other:?}"),
        }
    )
}

fn service_body(m: &Menus, c: &Case, ch: &Chooser) -> Outcome {
    let method = m.methods[c.method as usize].clone();
    let version = m.versions[c.version as usize];
    let uri = m.uris[c.uri as usize].clone();
    let raw = &m.headers[c.headers as usize];
    let (data, with_trailers) = m.bodies[c.body as usize].clone();
    let action = m.actions[c.action as usize].clone();

    let mut headers = HeaderMap::new();
    for (k, v) in raw {
        headers.append(hn(k), hv(v));
    }
    let body = ScriptBody::new(data.clone(), with_trailers.then(body_trailers), Chunking::Fixed(vec![]), ch);
    let mut req = http::Request::new(body);
    *req.method_mut() = method.clone();
    *req.version_mut() = version;
    *req.uri_mut() = uri.clone();
    *req.headers_mut() = headers.clone();
    if c.ext {
        req.extensions_mut().insert(OrigExt(7));
    }

    let seen = Arc::new(Mutex::new(Seen::default()));
    let inner = Recorder { seen: seen.clone(), ch: ch.clone() };
    let icalls = Arc::new(Mutex::new(0u32));
    let (ic, act, statuses) = (icalls.clone(), action.clone(), m.statuses.clone());
    let mut svc = InterceptedService::new(inner, move |r: Request<()>| {
        *ic.lock().unwrap() += 1;
        run_interceptor(&act, &statuses, r)
    });
    let fut = tower_service::Service::call(&mut svc, req);
    let resp = match spin_block_on(fut, 1000) {
        Ok(Ok(r)) => r,
        Ok(Err(e)) => match e {},
        Err(_) => {
            let mut o = Outcome::new("STALLED");
            o.violate("stall", "the intercepted service did not answer");
            return o;
        }
    };
    let (rparts, rbody) = resp.into_parts();
    let ends_with_headers = http_body::Body::is_end_stream(&rbody);
    let rbody = collect_body(rbody, 1000);
    let seen = seen.lock().unwrap().clone();
    let icalls = *icalls.lock().unwrap();

    let mut o = Outcome::new(format!(
        "interceptor_calls={icalls} inner_calls={} inner[{} {:?} {:?} h=[{}] ext=({:?},{:?}) body={} trl={}] resp[{} {:?} h=[{}] body={}]",
        seen.calls,
        seen.method.as_ref().map(|x| x.as_str().to_string()).unwrap_or_default(),
        seen.uri,
        seen.version,
        fmt_headers(&seen.headers),
        seen.orig_ext,
        seen.added_ext,
        hex(&seen.body.bytes()),
        seen.body.trailers.len(),
        rparts.status,
        rparts.version,
        fmt_headers(&rparts.headers),
        hex(&rbody.bytes())
    ));
    o.nontrivial = action != Action::Identity || reserved_repeated_or_binary(raw);
    if icalls != 1 {
        o.violate("interceptor-calls", format!("the interceptor ran {icalls} times for one request"));
    }
    match &action {
        Action::Reject(i) => {
            if seen.calls != 0 {
                o.violate("reject-inner-called", format!("the interceptor rejected the call but the wrapped service was invoked {} time(s)", seen.calls));
            }
            judge_reject(&mut o, "reject", &m.statuses[*i], rparts.status, &rparts.headers, &rbody, ends_with_headers);
        }
        _ => {
            if seen.calls != 1 {
                o.violate("accept-inner-calls", format!("the wrapped service was invoked {} times", seen.calls));
                return o;
            }
            if seen.method.as_ref() != Some(&method) {
                o.violate("accept-method", format!("the wrapped service saw method {:?}, the request had {method}", seen.method));
            }
            if seen.uri.as_ref() != Some(&uri) {
                o.violate("accept-uri", format!("the wrapped service saw URI {:?}, the request had {uri}", seen.uri));
            }
            if seen.version != Some(version) {
                o.violate("accept-version", format!("the wrapped service saw version {:?}, the request had {version:?}", seen.version));
            }
            let want_trailers: Vec<HeaderMap> = if with_trailers { vec![body_trailers()] } else { vec![] };
            if seen.body.bytes() != data || seen.body.trailers != want_trailers || seen.body.error.is_some() || seen.body.stalled {
                o.violate("accept-body", format!("the wrapped service read body {} (+{} trailers, error {:?}), the request carried {} (+{} trailers)", hex(&seen.body.bytes()), seen.body.trailers.len(), seen.body.error, hex(&data), want_trailers.len()));
            }
            let mut model = model_of(raw);
            model_apply(&mut model, &action);
            judge_headers(&mut o, "accept", &seen.headers, &model);
            let want_orig = (c.ext && !matches!(action, Action::RemoveExt | Action::Fresh)).then_some(7);
            if seen.orig_ext != want_orig {
                o.violate("accept-original-extension", format!("the request's own extension: the wrapped service saw {:?}, expected {want_orig:?}", seen.orig_ext));
            }
            let want_added = matches!(action, Action::AddExt | Action::Fresh).then_some("added");
            if seen.added_ext != want_added {
                o.violate("accept-interceptor-extension", format!("the interceptor's extension: the wrapped service saw {:?}, expected {want_added:?}", seen.added_ext));
            }
        }
    }
    o
}

fn service_cases(tier: Tier, m: &Menus) -> Vec<Case> {
    let mut out = vec![];
    let n_accept = m.actions.iter().filter(|x| !matches!(x, Action::Reject(_))).count();
    let mut rn = 0usize;
    for method in 0..m.methods.len() {
        for version in 0..m.versions.len() {
            for uri in 0..m.uris.len() {
                for headers in 0..m.headers.len() {
                    for ext in [false, true] {
                        for body in 0..m.bodies.len() {
                            rn += 1;
                            for action in 0..m.actions.len() {
                                // quick: every request meets every accept action, and a rotating
                                // twelfth of the requests meets every reject status
                                if tier == Tier::Quick && action >= n_accept && (rn + action) % 12 != 0 {
                                    continue;
                                }
                                out.push(Case { method: method as u8, version: version as u8, uri: uri as u8, headers: headers as u8, ext, body: body as u8, action: action as u16 });
                            }
                        }
                    }
                }
            }
        }
    }
    out
}

// ---------------------------------------------------------------------------------------------
// section 1b: two requests in a row on the same InterceptedService (or on a clone of it): the
// second answer owes nothing to the first
// ---------------------------------------------------------------------------------------------

#[derive(Clone, Debug)]
struct SeqCase {
    /// what the interceptor does with the first / second request: Some(status) = reject
    first: Option<StatusSpec>,
    second: Option<StatusSpec>,
    second_on_clone: bool,
}

fn seq_statuses() -> Vec<StatusSpec> {
    let mds = md_menu();
    vec![
        StatusSpec { code: 7, message: "no".into(), details: vec![], md: vec![] },
        StatusSpec { code: 7, message: "no".into(), details: vec![1, 2, 3], md: vec![] },
        StatusSpec { code: 7, message: "no".into(), details: vec![], md: mds[1].clone() },
        StatusSpec { code: 7, message: "no".into(), details: vec![0xff], md: mds[3].clone() },
        StatusSpec { code: 7, message: "no way".into(), details: vec![], md: mds[2].clone() },
        StatusSpec { code: 16, message: "no".into(), details: vec![4], md: vec![] },
    ]
}

fn seq_body(c: &SeqCase, ch: &Chooser) -> Outcome {
    let seen = Arc::new(Mutex::new(Seen::default()));
    let inner = Recorder { seen: seen.clone(), ch: ch.clone() };
    let plan = Arc::new(Mutex::new(vec![c.second.clone(), c.first.clone()])); // popped from the back
    let p2 = plan.clone();
    let svc = InterceptedService::new(inner, move |mut r: Request<()>| match p2.lock().unwrap().pop().flatten() {
        Some(st) => Err(st.build()),
        None => {
            r.metadata_mut().insert("x-by-interceptor", "1".parse().unwrap());
            Ok(r)
        }
    });
    let mut o = Outcome::new("");
    o.nontrivial = true;
    let mut obs = String::new();
    let mut svc1 = svc.clone();
    let mut svc2 = if c.second_on_clone { svc.clone() } else { svc1.clone() };
    for (round, want) in [&c.first, &c.second].into_iter().enumerate() {
        *seen.lock().unwrap() = Seen::default();
        let mut req = http::Request::new(ScriptBody::new(vec![0u8, 0, 0, 0, 1, 9], None, Chunking::Fixed(vec![]), ch));
        *req.method_mut() = http::Method::POST;
        *req.version_mut() = http::Version::HTTP_2;
        *req.uri_mut() = http::Uri::from_static("/fx.Echo/Unary");
        req.headers_mut().insert("content-type", hv(b"application/grpc"));
        req.headers_mut().insert("x-round", hv(round.to_string().as_bytes()));
        let target = if round == 0 || !c.second_on_clone { &mut svc1 } else { &mut svc2 };
        let resp = match spin_block_on(tower_service::Service::call(target, req), 1000) {
            Ok(Ok(r)) => r,
            Ok(Err(e)) => match e {},
            Err(_) => {
                o.violate("stall", format!("request #{round} was not answered"));
                return o;
            }
        };
        let (rparts, rbody) = resp.into_parts();
        let ends_with_headers = http_body::Body::is_end_stream(&rbody);
        let rbody = collect_body(rbody, 1000);
        let s = seen.lock().unwrap().clone();
        obs.push_str(&format!("#{round}: inner_calls={} resp[{} h=[{}]] ", s.calls, rparts.status, fmt_headers(&rparts.headers)));
        let prefix = if round == 0 { "first" } else { "second" };
        match want {
            Some(st) => {
                if s.calls != 0 {
                    o.violate(format!("{prefix}-reject-inner-called"), "the interceptor rejected the request but the wrapped service was invoked");
                }
                judge_reject(&mut o, &format!("{prefix}-reject"), st, rparts.status, &rparts.headers, &rbody, ends_with_headers);
            }
            None => {
                if s.calls != 1 || s.headers.get("x-by-interceptor").is_none() || s.headers.get("x-round").map(|v| v.as_bytes().to_vec()) != Some(round.to_string().into_bytes()) {
                    o.violate(format!("{prefix}-accept-not-forwarded"), format!("the interceptor accepted request #{round} but the wrapped service saw calls={} headers [{}]", s.calls, fmt_headers(&s.headers)));
                }
            }
        }
    }
    o.obs = obs;
    o
}

fn seq_cases() -> Vec<SeqCase> {
    let sts = seq_statuses();
    let mut opts: Vec<Option<StatusSpec>> = sts.into_iter().map(Some).collect();
    opts.push(None);
    let mut out = vec![];
    for first in &opts {
        for second in &opts {
            for second_on_clone in [false, true] {
                out.push(SeqCase { first: first.clone(), second: second.clone(), second_on_clone });
            }
        }
    }
    out
}

// ---------------------------------------------------------------------------------------------
// sections 2 and 3: the generated with_interceptor constructors
// ---------------------------------------------------------------------------------------------

#[derive(Clone, Debug, Default)]
struct HandlerSeen {
    calls: u32,
    md: HeaderMap,
    orig_ext: Option<u32>,
    added_ext: Option<&'static str>,
    msg: Vec<u8>,
}

struct RecEcho {
    seen: Arc<Mutex<HandlerSeen>>,
}

type BoxStream = Pin<Box<dyn tokio_stream::Stream<Item = Result<Vec<u8>, Status>> + Send + 'static>>;

#[tonic::async_trait]
impl Echo for RecEcho {
    async fn unary(&self, request: Request<Vec<u8>>) -> Result<Response<Vec<u8>>, Status> {
        let mut s = self.seen.lock().unwrap();
        s.calls += 1;
        s.md = request.metadata().clone().into_headers();
        s.orig_ext = request.extensions().get::<OrigExt>().map(|e| e.0);
        s.added_ext = request.extensions().get::<AddedExt>().map(|e| e.0);
        s.msg = request.get_ref().clone();
        Ok(Response::new(vec![9, 9]))
    }
    type ServerStreamStream = BoxStream;
    async fn server_stream(&self, _r: Request<Vec<u8>>) -> Result<Response<BoxStream>, Status> {
        Err(Status::unimplemented("not used"))
    }
    async fn client_stream(&self, _r: Request<tonic::Streaming<Vec<u8>>>) -> Result<Response<Vec<u8>>, Status> {
        Err(Status::unimplemented("not used"))
    }
    type BidiStream = BoxStream;
    async fn bidi(&self, _r: Request<tonic::Streaming<Vec<u8>>>) -> Result<Response<BoxStream>, Status> {
        Err(Status::unimplemented("not used"))
    }
}

#[derive(Clone, Debug)]
struct GenCase {
    headers: u8,
    ext: bool,
    action: u16,
}

fn gen_cases(m: &Menus) -> Vec<GenCase> {
    let mut out = vec![];
    for headers in 0..m.headers.len() {
        for ext in [false, true] {
            for action in 0..m.actions.len() {
                out.push(GenCase { headers: headers as u8, ext, action: action as u16 });
            }
        }
    }
    out
}

fn gen_server_body(m: &Menus, c: &GenCase, ch: &Chooser) -> Outcome {
    let raw = &m.headers[c.headers as usize];
    let action = m.actions[c.action as usize].clone();
    // a well-formed gRPC request (the generated server needs one to reach the handler) plus the menu
    let mut all: RawHeaders = vec![];
    if !raw.iter().any(|(k, _)| *k == "content-type") {
        all.push(("content-type", b"application/grpc".to_vec()));
    }
    // grpc-encoding from the menu would make the server refuse the (uncompressed) message
    all.extend(raw.iter().filter(|(k, _)| *k != "grpc-encoding").cloned());
    let mut headers = HeaderMap::new();
    for (k, v) in &all {
        headers.append(hn(k), hv(v));
    }
    let body = ScriptBody::new(wire::encode_frame(0, &[1, 2, 3]), None, Chunking::Fixed(vec![]), ch);
    let mut req = http::Request::new(body);
    *req.method_mut() = http::Method::POST;
    *req.version_mut() = http::Version::HTTP_2;
    *req.uri_mut() = http::Uri::from_static("/fx.Echo/Unary");
    *req.headers_mut() = headers;
    if c.ext {
        req.extensions_mut().insert(OrigExt(7));
    }
    let seen = Arc::new(Mutex::new(HandlerSeen::default()));
    let (act, statuses) = (action.clone(), m.statuses.clone());
    let mut svc = EchoServer::with_interceptor(RecEcho { seen: seen.clone() }, move |r: Request<()>| run_interceptor(&act, &statuses, r));
    let fut = tower_service::Service::call(&mut svc, req);
    let resp = match spin_block_on(fut, 10_000) {
        Ok(Ok(r)) => r,
        Ok(Err(e)) => match e {},
        Err(_) => {
            let mut o = Outcome::new("STALLED");
            o.violate("stall", "the intercepted generated server did not answer");
            return o;
        }
    };
    let (rparts, rbody) = resp.into_parts();
    let ends_with_headers = http_body::Body::is_end_stream(&rbody);
    let rbody = collect_body(rbody, 10_000);
    let seen = seen.lock().unwrap().clone();
    let mut o = Outcome::new(format!(
        "handler_calls={} handler[h=[{}] ext=({:?},{:?}) msg={}] resp[{} h=[{}] body={} trailers=[{}]]",
        seen.calls,
        fmt_headers(&seen.md),
        seen.orig_ext,
        seen.added_ext,
        hex(&seen.msg),
        rparts.status,
        fmt_headers(&rparts.headers),
        hex(&rbody.bytes()),
        rbody.trailers.first().map(fmt_headers).unwrap_or_default()
    ));
    o.nontrivial = action != Action::Identity;
    match &action {
        Action::Reject(i) => {
            if seen.calls != 0 {
                o.violate("gen-server-reject-handler-called", format!("the interceptor rejected the call but the handler ran {} time(s)", seen.calls));
            }
            judge_reject(&mut o, "gen-server-reject", &m.statuses[*i], rparts.status, &rparts.headers, &rbody, ends_with_headers);
        }
        _ => {
            // Fresh drops content-type: whether the generated server then still serves the call is
            // not this property's business; everything else must reach the handler
            if action == Action::Fresh || matches!(action, Action::AppendAscii("content-type", _)) {
                return o;
            }
            if seen.calls != 1 {
                o.violate("gen-server-accept-handler-calls", format!("the handler ran {} times (response headers [{}])", seen.calls, fmt_headers(&rparts.headers)));
                return o;
            }
            if seen.msg != vec![1, 2, 3] {
                o.violate("gen-server-accept-body", format!("the handler received message {}, the request carried 010203", hex(&seen.msg)));
            }
            let mut model = model_of(&all);
            model_apply(&mut model, &action);
            judge_headers(&mut o, "gen-server-accept", &seen.md, &model);
            let want_orig = (c.ext && action != Action::RemoveExt).then_some(7);
            if seen.orig_ext != want_orig {
                o.violate("gen-server-accept-original-extension", format!("handler saw {:?}, expected {want_orig:?}", seen.orig_ext));
            }
            let want_added = (action == Action::AddExt).then_some("added");
            if seen.added_ext != want_added {
                o.violate("gen-server-accept-interceptor-extension", format!("handler saw {:?}, expected {want_added:?}", seen.added_ext));
            }
        }
    }
    o
}

/// The adapter's response body is not `Default`, which the generated `with_interceptor` demands.
pub struct DefBody(Option<ScriptBody>);

impl Default for DefBody {
    fn default() -> Self {
        DefBody(None)
    }
}

impl http_body::Body for DefBody {
    type Data = bytes::Bytes;
    type Error = Status;
    fn poll_frame(mut self: Pin<&mut Self>, cx: &mut Context<'_>) -> Poll<Option<Result<http_body::Frame<Self::Data>, Self::Error>>> {
        match self.0.as_mut() {
            Some(b) => Pin::new(b).poll_frame(cx),
            None => Poll::Ready(None),
        }
    }
}

#[derive(Clone)]
struct DefBodySvc<S>(S);

impl<S, R> tower_service::Service<R> for DefBodySvc<S>
where
    S: tower_service::Service<R, Response = http::Response<ScriptBody>>,
    S::Future: Send + 'static,
{
    type Response = http::Response<DefBody>;
    type Error = S::Error;
    type Future = Pin<Box<dyn std::future::Future<Output = Result<Self::Response, Self::Error>> + Send>>;
    fn poll_ready(&mut self, cx: &mut Context<'_>) -> Poll<Result<(), Self::Error>> {
        self.0.poll_ready(cx)
    }
    fn call(&mut self, req: R) -> Self::Future {
        let fut = self.0.call(req);
        Box::pin(async move { fut.await.map(|r| r.map(|b| DefBody(Some(b)))) })
    }
}

fn gen_client_body(m: &Menus, c: &GenCase, ch: &Chooser) -> Outcome {
    let raw = &m.headers[c.headers as usize];
    let action = m.actions[c.action as usize].clone();
    // the caller's metadata: the non-reserved part of the menu entry (the client sanitises the rest
    // before the interceptor runs — C08's business)
    let mut req_md: Md = vec![];
    for (k, v) in raw {
        if RESERVED.contains(k) || k.starts_with("grpc-") || *k == "x-opaque" {
            continue;
        }
        if k.ends_with("-bin") {
            match b64::decode(v) {
                Ok(bytes) => req_md.push(b(k, &bytes)),
                Err(_) => machinery("menu binary header is not base64"),
            }
        } else {
            req_md.push(a(k, &String::from_utf8_lossy(v)));
        }
    }
    let script = Script { initial_md: vec![], msgs: vec![vec![5]], end: None, handler_err: false, bidi: BidiMode::Ignore, disable_compression: false, exact_hint: false };
    let (server, log) = new_server(script, ch, false);
    let capture = Arc::new(Mutex::new(Capture::default()));
    let whole = Chunking::Fixed(vec![]);
    let direct = Direct { svc: server, ch: ch.clone(), req_chunking: whole.clone(), resp_chunking: whole, capture: capture.clone() };
    let (act, statuses) = (action.clone(), m.statuses.clone());
    let saw_ext = Arc::new(Mutex::new(None::<Option<u32>>));
    let saw = saw_ext.clone();
    let mut client = EchoClient::with_interceptor(DefBodySvc(direct), move |r: Request<()>| {
        *saw.lock().unwrap() = Some(r.extensions().get::<OrigExt>().map(|e| e.0));
        run_interceptor(&act, &statuses, r)
    });
    let ext = c.ext;
    let view = match spin_block_on(
        client_call(&mut client, Shape::Unary, vec![vec![1]], &req_md, false, ch, |p| {
            if ext {
                p.extensions_mut().insert(OrigExt(7));
            }
        }),
        100_000,
    ) {
        Ok(v) => v,
        Err(_) => {
            let mut o = Outcome::new("STALLED");
            o.violate("stall", "the call did not complete");
            return o;
        }
    };
    let cap = capture.lock().unwrap().clone();
    let log = log.lock().unwrap().clone();
    let mut o = Outcome::new(format!("transport_calls={} wire[{}] handler_calls={} view[{}]", cap.calls, fmt_headers(&cap.req_headers), log.calls, super::l1::fmt_view(&view)));
    o.nontrivial = action != Action::Identity;
    match &action {
        Action::Reject(i) => {
            if cap.calls != 0 || log.calls != 0 {
                o.violate("gen-client-reject-transport-called", format!("the interceptor rejected the call but the transport was invoked {} time(s) (handler {})", cap.calls, log.calls));
            }
            let st = &m.statuses[*i];
            match &view.error {
                None => {
                    // a rejection with Code::Ok is a trailers-only OK response without a message
                    o.violate("gen-client-reject-status-lost", format!("the caller saw success although the interceptor rejected with {st:?}"));
                }
                Some(e) => {
                    if st.code == 0 {
                        // "precisely that status" cannot be an error value with Code::Ok on the
                        // client API; any error the caller gets is acceptable here
                    } else if let Err(why) = st.matches(e) {
                        // reserved names in the status metadata are sanitised away (C08)
                        let sanitized = StatusSpec { md: st.md.iter().filter(|(k, _)| !RESERVED.contains(&k.as_str())).cloned().collect(), ..st.clone() };
                        if let Err(why2) = sanitized.matches(e) {
                            o.violate("gen-client-reject-status-mismatch", format!("the caller got {} but the interceptor rejected with {st:?}: {why} / {why2}", crate::env::fmt_status(e)));
                        }
                    }
                }
            }
        }
        _ => {
            if cap.calls != 1 {
                o.violate("gen-client-accept-transport-calls", format!("the transport was invoked {} times", cap.calls));
                return o;
            }
            if cap.method != Some(http::Method::POST) || cap.version != Some(http::Version::HTTP_2) || cap.uri.as_ref().map(|u| u.path().to_string()).as_deref() != Some("/fx.Echo/Unary") {
                o.violate("gen-client-accept-request-line", format!("the transport saw {:?} {:?} {:?}", cap.method, cap.uri, cap.version));
            }
            // what the client stack hands to the interceptor: sanitised user metadata + protocol headers
            let mut all: RawHeaders = vec![];
            for (k, v) in raw {
                if RESERVED.contains(k) || k.starts_with("grpc-") || *k == "x-opaque" {
                    continue;
                }
                all.push((k, v.clone()));
            }
            let mut model = model_of(&all);
            // binary values are re-encoded by the client: compare by decoded bytes
            for (k, vals) in model.iter_mut() {
                if k.ends_with("-bin") {
                    for w in vals.iter_mut() {
                        if let Want::Raw(r) = w {
                            *w = Want::BinOf(b64::decode(r).unwrap_or_default());
                        }
                    }
                }
            }
            model.push(("te".into(), vec![Want::Raw(b"trailers".to_vec())]));
            model.push(("content-type".into(), vec![Want::Raw(b"application/grpc".to_vec())]));
            model_apply(&mut model, &action);
            let mut wire_h = cap.req_headers.clone();
            wire_h.remove("grpc-accept-encoding");
            judge_headers(&mut o, "gen-client-accept", &wire_h, &model);
            if cap.req_body.bytes() != wire::encode_frame(0, &[1]) {
                o.violate("gen-client-accept-body", format!("the transport received body {}", hex(&cap.req_body.bytes())));
            }
            if *saw_ext.lock().unwrap() != Some(ext.then_some(7)) {
                o.violate("gen-client-interceptor-extension", format!("the interceptor saw the caller's extension as {:?}, the caller set {:?}", saw_ext.lock().unwrap(), ext.then_some(7)));
            }
        }
    }
    o
}

// ---------------------------------------------------------------------------------------------

pub fn property(tier: Tier) -> Property {
    let statuses = status_menu(tier);
    let mut actions = accept_actions();
    actions.extend((0..statuses.len()).map(Action::Reject));
    let menus = Arc::new(Menus { methods: methods(), versions: versions(), uris: uris(), headers: header_menus(), bodies: bodies(), actions, statuses: Arc::new(statuses) });
    let cfg = || Config { max_bound: 0, ..Default::default() };

    let (m1, m2) = (menus.clone(), menus.clone());
    let service = Section::new(
        "intercepted-service",
        cfg(),
        "cases: method {GET,POST,OPTIONS,X} x version {0.9,1.0,1.1,2,3} x URI {origin-form, absolute-form, query, '*', authority-form, '/'} x header map {empty; repeated key; reserved te/content-type/user-agent/grpc-status; binary incl. padded and empty; mixed with repeated reserved names, obs-text bytes, grpc-message/-timeout; repeated reserved + grpc-encoding; 23 entries over 20 keys; single} x extension {absent,present} x body {empty; 6 bytes; 3 bytes + trailers} x interceptor action {identity; insert ASCII new/existing/reserved key; insert binary new/existing; append ASCII existing/new/reserved; append binary existing/new(empty); remove existing/absent/reserved/binary; return a fresh request; add extension; remove extension; reject(status)} with status in {every code 0..=16 with rotating message/details/metadata} + {message menu incl. empty,'%',non-ASCII,control chars} x {details of length 0..4} x {metadata: none, ASCII, binary, repeated, reserved names} [Q: every request x every accepting action, a rotating twelfth of the requests x every rejecting status; T: full product]. Path: InterceptedService::new(recorder, closure) called once, no runtime. Oracle accept: recorder invoked once with the original method/URI/version/body bytes/body trailers, headers equal (multimap, per-key order) to the original with exactly the interceptor's edit applied by a reference model (interceptor-written binary values judged by independent base64 decode), original extension kept unless removed, interceptor's extension present iff added. Oracle reject: recorder never invoked; response 200, content-type exactly application/grpc, empty body without trailers whose is_end_stream() is true from the start (so that the transport ends the stream with the HEADERS frame); grpc-status/grpc-message/grpc-status-details-bin decoded independently equal code/message/details; status metadata per key; header block equal to content-type + Status::add_header. Non-trivial = action is not identity, or the header map has reserved, repeated or binary entries.",
        service_cases(tier, &menus),
        move |c: &Case| describe_case(&m1, c),
        move |c: &Case, ch: &Chooser| service_body(&m2, c, ch),
    )
    .mins(tier.q(50_000, 500_000), 1_000, 10_000);

    let (m1, m2) = (menus.clone(), menus.clone());
    let seq = Section::new(
        "request-sequences",
        Config::default(),
        "cases: two requests in a row through one InterceptedService (the second on the same object or on a clone of it); for each request the interceptor accepts (inserting a header) or rejects with a status from a menu in which several statuses share code and message but differ in details / metadata (49 ordered pairs x 2). Oracle: each answer is judged on its own exactly as in intercepted-service — a rejection carries precisely ITS status (code, message, details, metadata), an accepted request reaches the wrapped service with the interceptor's edit. All cases count as non-trivial.",
        seq_cases(),
        |c: &SeqCase| format!("first={:?} second={:?} second_on_clone={}", c.first, c.second, c.second_on_clone),
        seq_body,
    )
    .mins(50, 2, 50);
    let gen_server = Section::new(
        "generated-server",
        cfg(),
        "cases: header map menu (plus content-type when absent) x extension x every action of the menu, as a well-formed unary gRPC request to EchoServer::with_interceptor(handler, closure). Oracle accept: the handler runs once, Request::metadata equals the model (original headers incl. reserved names + the edit), both extensions as expected, message intact (the 'fresh request' and 'second content-type' actions are observed but not judged: they change what the generated server itself needs). Oracle reject: handler never runs, response judged as in intercepted-service. Non-trivial = action is not identity.",
        gen_cases(&menus),
        move |c: &GenCase| format!("headers={:?} ext={} action={:?}", m1.headers[c.headers as usize].iter().map(|(k, v)| format!("{k}: {}", String::from_utf8_lossy(v).escape_debug())).collect::<Vec<_>>(), c.ext, m1.actions[c.action as usize]),
        move |c: &GenCase, ch: &Chooser| gen_server_body(&m2, c, ch),
    )
    .mins(500, 50, 100);

    let (m1, m2) = (menus.clone(), menus.clone());
    let gen_client = Section::new(
        "generated-client",
        cfg(),
        "cases: caller metadata (the non-reserved entries of the header map menu) x caller extension x every action, through EchoClient::with_interceptor(adapter, closure) -> in-process adapter -> generated server. Oracle accept: the transport is called once with POST / HTTP/2 / the method path, headers equal to the model (caller metadata + tonic's te and content-type + the edit; grpc-accept-encoding ignored), the message frame intact, and the interceptor saw the caller's extension. Oracle reject: neither transport nor handler is invoked and the caller's error equals the status (code, message, details, non-reserved metadata contained; a rejection with Code::Ok must not surface as success with a message). Non-trivial = action is not identity.",
        gen_cases(&menus),
        move |c: &GenCase| format!("headers={:?} ext={} action={:?}", m1.headers[c.headers as usize].iter().map(|(k, v)| format!("{k}: {}", String::from_utf8_lossy(v).escape_debug())).collect::<Vec<_>>(), c.ext, m1.actions[c.action as usize]),
        move |c: &GenCase, ch: &Chooser| gen_client_body(&m2, c, ch),
    )
    .mins(500, 50, 100);

    Property {
        id: "C12",
        level: "exploration",
        hang_is_violation: false,
        assumptions: vec![
            "requests, interceptor actions and statuses outside the stated menus are not covered".into(),
            "headers are compared as a multimap with per-key value order; the iteration order across different keys is not constrained".into(),
            "the interceptor is a closure using the public Request<()> API (metadata_mut, extensions_mut, returning a new Request)".into(),
            "what the generated server does with a request whose content-type the interceptor removed or duplicated is not judged".into(),
        ],
        sections: vec![service, gen_server, gen_client, seq],
        extra: Default::default(),
    }
}
