//! C14 — a channel always answers and recovers when the peer comes back.

use super::l1::*;
use crate::env::vnet::{self, ConnectMode};
use crate::explore::{Chooser, Config, Outcome};
use crate::fixtures::echo::echo_client::EchoClient;
use crate::report::{Property, Section, Tier};
use std::sync::atomic::Ordering;
use std::time::Duration;
use tonic::transport::{Endpoint, Server};

#[derive(Clone, Copy, Debug, PartialEq, Eq)]
enum Ev {
    /// the next connection attempts fail
    SetFail,
    /// the next connection attempts succeed
    SetOk,
    /// the next connection attempts never answer (only scripts with Endpoint::connect_timeout)
    SetHang,
    /// the peer drops the established connection
    Drop,
    /// issue a unary call
    Call,
    /// issue a unary call whose deadline is already over (Request::set_timeout(ZERO)): its own
    /// outcome is a race between the deadline and the connection and is not judged, but it must
    /// complete, and whatever connection attempt it triggers must not leak into later calls
    CallZero,
}

#[derive(Clone, Debug)]
struct Case {
    lazy: bool,
    initial: ConnectMode,
    delayed: bool,
    chop: usize,
    timeouts: bool,
    script: Vec<Ev>,
}

#[derive(Debug, Clone, PartialEq, Eq)]
enum Obs {
    ConnectErr,
    CallOk,
    CallUnavailable,
    CallOtherErr(String),
    CallHang,
    ConnectHang,
}

fn body(c: &Case, ch: &Chooser) -> Outcome {
    let rt = vnet::runtime(7);
    let c2 = c.clone();
    let ch2 = ch.clone();
    let (trace, invocations, model_trace, model_inv, unready) = rt.block_on(async move {
        let c = c2;
        let (st, rx) = vnet::connector_state(c.initial, c.delayed, c.chop);
        let script = Script { initial_md: vec![], msgs: vec![vec![42]], end: None, handler_err: false, bidi: BidiMode::Ignore, disable_compression: false, exact_hint: false };
        let (server, _log) = new_server(script, &ch2, false);
        let srv = tokio::spawn(async move {
            let _ = Server::builder().add_service(server).serve_with_incoming(vnet::incoming(rx)).await;
        });
        let mut ep = Endpoint::from_static("http://c14.test:50051");
        if c.timeouts {
            ep = ep.timeout(Duration::from_secs(30)).connect_timeout(Duration::from_secs(5));
        }
        let mut trace: Vec<Obs> = vec![];
        // reference model
        let mut m_connected = false;
        let mut m_mode = c.initial;
        let mut m_inv: u64 = 0;
        let mut m_trace: Vec<Obs> = vec![];

        let channel = if c.lazy {
            Some(ep.connect_with_connector_lazy(vnet::connector(st.clone())))
        } else {
            m_inv += 1;
            match vnet::within(Duration::from_secs(3600), ep.connect_with_connector(vnet::connector(st.clone()))).await {
                None => {
                    trace.push(Obs::ConnectHang);
                    None
                }
                Some(Ok(chn)) => Some(chn),
                Some(Err(_)) => {
                    trace.push(Obs::ConnectErr);
                    None
                }
            }
        };
        if !c.lazy {
            if m_mode == ConnectMode::Fail {
                m_trace.push(Obs::ConnectErr);
            } else {
                m_connected = true;
            }
        }
        if let Some(channel) = channel {
            let mut client = EchoClient::new(channel);
            vnet::settle().await;
            for ev in &c.script {
                match ev {
                    Ev::SetFail => {
                        *st.mode.lock().unwrap() = ConnectMode::Fail;
                        m_mode = ConnectMode::Fail;
                    }
                    Ev::SetHang => {
                        *st.mode.lock().unwrap() = ConnectMode::Hang;
                        m_mode = ConnectMode::Hang;
                    }
                    Ev::SetOk => {
                        *st.mode.lock().unwrap() = ConnectMode::Succeed;
                        m_mode = ConnectMode::Succeed;
                    }
                    Ev::Drop => {
                        if let Some(s) = st.conns.lock().unwrap().last() {
                            s.cut();
                        }
                        m_connected = false;
                    }
                    Ev::CallZero => {
                        let mut req = tonic::Request::new(vec![1, 2]);
                        req.set_timeout(Duration::ZERO);
                        let r = vnet::within(Duration::from_secs(3600), client.unary(req)).await;
                        if r.is_none() {
                            trace.push(Obs::CallHang);
                            m_trace.push(Obs::CallOk);
                        }
                        // model: one connection attempt if disconnected, consumed by this call
                        if !m_connected {
                            m_inv += 1;
                            if m_mode == ConnectMode::Succeed {
                                m_connected = true;
                            }
                        }
                    }
                    Ev::Call => {
                        let r = vnet::within(Duration::from_secs(3600), client.unary(tonic::Request::new(vec![1, 2]))).await;
                        trace.push(match r {
                            None => Obs::CallHang,
                            Some(Ok(resp)) if resp.get_ref() == &vec![42] => Obs::CallOk,
                            Some(Ok(resp)) => Obs::CallOtherErr(format!("wrong answer {:?}", resp.get_ref())),
                            Some(Err(e)) if e.code() == tonic::Code::Unavailable => Obs::CallUnavailable,
                            Some(Err(e)) => Obs::CallOtherErr(crate::env::fmt_status(&e)),
                        });
                        // model
                        if m_connected {
                            m_trace.push(Obs::CallOk);
                        } else {
                            m_inv += 1;
                            if m_mode == ConnectMode::Succeed {
                                m_connected = true;
                                m_trace.push(Obs::CallOk);
                            } else {
                                // Fail, or Hang ended by the connect timeout
                                m_trace.push(Obs::CallUnavailable);
                            }
                        }
                    }
                }
                vnet::settle().await;
            }
        }
        srv.abort();
        (trace, st.invocations.load(Ordering::SeqCst), m_trace, m_inv, st.unready_calls.load(Ordering::SeqCst))
    });
    drop(rt);
    let mut o = Outcome::new(format!("trace={trace:?} connector_invocations={invocations}"));
    o.nontrivial = c.script.iter().any(|e| *e == Ev::Drop || *e == Ev::SetFail || *e == Ev::SetHang || *e == Ev::CallZero) && c.script.contains(&Ev::Call);
    for (i, (got, want)) in trace.iter().zip(&model_trace).enumerate() {
        if got != want {
            let key = match (got, want) {
                (Obs::CallHang, _) | (Obs::ConnectHang, _) => "hang",
                (Obs::CallUnavailable, Obs::CallOk) | (Obs::CallOtherErr(_), Obs::CallOk) => "no-recovery-or-replayed-error",
                (Obs::CallOk, Obs::CallUnavailable) => "unexpected-success",
                (Obs::CallOtherErr(_), Obs::CallUnavailable) => "failure-not-unavailable-class",
                _ => "outcome-mismatch",
            };
            o.violate(key, format!("observation #{i}: got {got:?}, RefChannel says {want:?} (full trace {trace:?}, model {model_trace:?})"));
            break;
        }
    }
    if trace.len() != model_trace.len() && o.violations.is_empty() {
        o.violate("outcome-count", format!("trace {trace:?} vs model {model_trace:?}"));
    }
    if unready > 0 {
        o.violate("connector-called-without-poll-ready", format!("the connector was called {unready} time(s) without a preceding poll_ready on that instance: a connector that enforces the tower contract (ConcurrencyLimit, Buffer, RateLimit) panics there, which kills the channel's worker and fails every later call"));
    }
    if invocations != model_inv && o.violations.is_empty() {
        o.violate("connector-invocations", format!("connector invoked {invocations} times, RefChannel expects {model_inv} (one attempt per call issued while disconnected, plus the eager connect)"));
    }
    o
}

fn scripts(maxlen: usize) -> Vec<Vec<Ev>> {
    let alpha = [Ev::Call, Ev::SetFail, Ev::SetOk, Ev::Drop, Ev::CallZero];
    let mut out: Vec<Vec<Ev>> = vec![];
    let mut frontier: Vec<Vec<Ev>> = vec![vec![]];
    for _ in 0..maxlen {
        let mut next = vec![];
        for s in &frontier {
            for a in alpha {
                // canonical form: no two mode settings in a row, no Drop right after Drop
                if let Some(last) = s.last() {
                    let is_set = |e: &Ev| matches!(e, Ev::SetFail | Ev::SetOk | Ev::SetHang);
                    if (is_set(last) && is_set(&a)) || (*last == Ev::Drop && a == Ev::Drop) {
                        continue;
                    }
                }
                let mut t = s.clone();
                t.push(a);
                next.push(t);
            }
        }
        out.extend(next.iter().cloned());
        frontier = next;
    }
    // only scripts that end in a call observe anything new at their last step
    out.retain(|s| s.last() == Some(&Ev::Call));
    out
}

// ---------------------------------------------------------------------------------------------
// balanced channels: endpoints come and go through the discovery channel
//
// `Channel::balance_channel` connects every inserted endpoint with tonic's own TCP connector, so
// this section has to use real loopback sockets and real time: per execution two fresh tonic
// servers on 127.0.0.1 and a fresh balanced channel driven through one discovery history.

#[derive(Clone, Copy, Debug, PartialEq, Eq)]
enum BalOp {
    Insert(usize),
    Remove(usize),
    Call,
    /// A call made while no endpoint is registered, the endpoint arriving while it waits.
    CallThenInsert(usize),
}

#[derive(Clone, Debug)]
struct BalCase {
    first: BalOp,
    depth: usize,
}

/// Starts this execution's own two servers on loopback ports (inside the execution's runtime, so
/// that no server-side state survives from one execution to the next).
async fn backends() -> [u16; 2] {
    let mut ports = [0u16; 2];
    for p in ports.iter_mut() {
        let l = tokio::net::TcpListener::bind("127.0.0.1:0").await.unwrap_or_else(|e| crate::explore::machinery(format!("cannot bind a loopback listener: {e}")));
        *p = l.local_addr().map(|a| a.port()).unwrap_or(0);
        let script = Script { initial_md: vec![], msgs: vec![vec![42]], end: None, handler_err: false, bidi: BidiMode::Ignore, disable_compression: false, exact_hint: false };
        let (server, _log) = new_server(script, &Chooser::detached(), false);
        let incoming = tokio_stream::wrappers::TcpListenerStream::new(l);
        tokio::spawn(async move {
            let _ = Server::builder().add_service(server).serve_with_incoming(incoming).await;
        });
    }
    ports
}

/// Keys 0 and 1 are reachable servers, key 2 is an address nobody listens on.
fn bal_menu(live: &[bool; 3]) -> Vec<BalOp> {
    let mut m = vec![BalOp::Insert(0), BalOp::Insert(1), BalOp::Remove(0), BalOp::Remove(1), BalOp::Insert(2), BalOp::Remove(2)];
    if live.iter().any(|l| *l) {
        m.push(BalOp::Call);
    } else {
        m.push(BalOp::CallThenInsert(0));
    }
    m
}

fn bal_body(c: &BalCase, ch: &Chooser) -> Outcome {
    let rt = tokio::runtime::Builder::new_current_thread().enable_all().build().unwrap_or_else(|e| crate::explore::machinery(format!("runtime: {e}")));
    let c = c.clone();
    let ch = ch.clone();
    let (trace, bad) = rt.block_on(async move {
        let up = backends().await;
        // a port that refuses connections: port 1 of the loopback interface (a port that was bound
        // and released would do, were it not handed to the next execution's server a moment later)
        let dead = 1u16;
        let ports = [up[0], up[1], dead];
        let (channel, tx) = tonic::transport::Channel::balance_channel::<usize>(16);
        let mut live = [false; 3];
        let mut trace: Vec<String> = vec![];
        let mut bad: Option<(String, String)> = None;
        for d in 0..c.depth {
            let m = bal_menu(&live);
            let op = if d == 0 { c.first } else { m[ch.pick(m.len())] };
            match op {
                BalOp::Insert(k) => {
                    let ep = Endpoint::from_shared(format!("http://127.0.0.1:{}", ports[k])).unwrap_or_else(|e| crate::explore::machinery(format!("endpoint: {e}")));
                    let _ = tx.send(tonic::transport::channel::Change::Insert(k, ep)).await;
                    live[k] = true;
                    trace.push(format!("Insert({k})"));
                }
                BalOp::Remove(k) => {
                    let _ = tx.send(tonic::transport::channel::Change::Remove(k)).await;
                    live[k] = false;
                    trace.push(format!("Remove({k})"));
                }
                BalOp::CallThenInsert(k) => {
                    // the call is issued first and finds nothing to send to; the endpoint is
                    // registered while it waits (nobody makes another request that could wake it)
                    let mut client = EchoClient::new(channel.clone());
                    let chx = ch.clone();
                    let call = tokio::spawn(async move { client_call(&mut client, Shape::Unary, vec![vec![1]], &vec![], false, &chx, |_| {}).await });
                    for _ in 0..20 {
                        tokio::task::yield_now().await;
                    }
                    tokio::time::sleep(Duration::from_millis(20)).await;
                    let ep = Endpoint::from_shared(format!("http://127.0.0.1:{}", ports[k])).unwrap_or_else(|e| crate::explore::machinery(format!("endpoint: {e}")));
                    let _ = tx.send(tonic::transport::channel::Change::Insert(k, ep)).await;
                    live[k] = true;
                    trace.push(format!("CallThenInsert({k})"));
                    match tokio::time::timeout(Duration::from_secs(4), call).await {
                        Err(_) => {
                            trace.push("Call=HANG".into());
                            bad = Some(("balanced-call-hang".into(), format!("after {trace:?}: a call made while no endpoint was registered did not complete within 4 s of a reachable endpoint being registered")));
                            break;
                        }
                        Ok(Err(e)) => crate::explore::machinery(format!("call task failed: {e}")),
                        Ok(Ok(v)) => match &v.error {
                            None if v.msgs == vec![vec![42u8]] => trace.push("Call=ok".into()),
                            None => {
                                trace.push("Call=wrong".into());
                                bad = Some(("balanced-call-wrong".into(), format!("after {trace:?} the call returned {:?}", v.msgs)));
                                break;
                            }
                            // a call that found no endpoint may also be refused at once (UNAVAILABLE): a definite answer
                            Some(e) if e.code() == tonic::Code::Unavailable => trace.push("Call=Unavailable".into()),
                            Some(e) => {
                                trace.push(format!("Call={:?}", e.code()));
                                bad = Some(("balanced-call-failed".into(), format!("after {trace:?} the call failed with {}", crate::env::fmt_status(e))));
                                break;
                            }
                        },
                    }
                }
                BalOp::Call => {
                    let mut client = EchoClient::new(channel.clone());
                    let r = tokio::time::timeout(Duration::from_secs(4), client_call(&mut client, Shape::Unary, vec![vec![1]], &vec![], false, &ch, |_| {})).await;
                    match r {
                        Err(_) => {
                            trace.push("Call=HANG".into());
                            bad = Some(("balanced-call-hang".into(), format!("after {trace:?} (endpoints registered: {live:?}) the call did not complete within 4 s")));
                            break;
                        }
                        Ok(v) => match &v.error {
                            // with both kinds registered the balancer's choice is its own (random): the
                            // observation only records that the call completed
                            None if v.msgs == vec![vec![42u8]] && (live[0] || live[1]) && live[2] => trace.push("Call=completed".into()),
                            None if v.msgs == vec![vec![42u8]] && (live[0] || live[1]) => trace.push("Call=ok".into()),
                            None if v.msgs == vec![vec![42u8]] => {
                                trace.push("Call=ok?!".into());
                                bad = Some(("balanced-call-answered-by-removed-endpoint".into(), format!("after {trace:?} only the unreachable endpoint is registered, yet the call was answered")));
                                break;
                            }
                            None => {
                                trace.push("Call=wrong".into());
                                bad = Some(("balanced-call-wrong".into(), format!("after {trace:?} the call returned {:?}", v.msgs)));
                                break;
                            }
                            // while the unreachable endpoint is registered the balancer may pick it, and
                            // the call it picked it for is told so (UNAVAILABLE): a definite answer
                            Some(e) if live[2] && (live[0] || live[1]) && e.code() == tonic::Code::Unavailable => trace.push("Call=completed".into()),
                            Some(e) if live[2] && e.code() == tonic::Code::Unavailable => trace.push("Call=Unavailable".into()),
                            Some(e) => {
                                trace.push(format!("Call={:?}", e.code()));
                                bad = Some(("balanced-call-failed".into(), format!("after {trace:?} (endpoints registered: {live:?}; 0 and 1 are reachable, 2 is not) the call failed with {}", crate::env::fmt_status(e))));
                                break;
                            }
                        },
                    }
                }
            }
        }
        (trace, bad)
    });
    let mut o = Outcome::new(format!("{trace:?}"));
    o.nontrivial = trace.iter().any(|t| t.starts_with("Remove")) && trace.iter().any(|t| t.starts_with("Call"));
    if let Some((k, why)) = bad {
        o.violate(k, why);
    }
    o
}

pub fn property(tier: Tier) -> Property {
    let mut cases = vec![];
    let ss = scripts(tier.q(6, 9));
    for (i, script) in ss.iter().enumerate() {
        for lazy in [true, false] {
            for initial in [ConnectMode::Succeed, ConnectMode::Fail] {
                let variants: Vec<(bool, usize, bool)> = if tier == Tier::Thorough {
                    vec![(false, 0, false), (true, 2, false), (false, 3, true), (true, 1, true)]
                } else {
                    vec![[(false, 0, false), (true, 2, false), (false, 3, true), (true, 1, true)][i % 4]]
                };
                for (delayed, chop, timeouts) in variants {
                    cases.push(Case { lazy, initial, delayed, chop, timeouts, script: script.clone() });
                }
            }
        }
    }
    // scripts with a connector that never answers: only meaningful with Endpoint::connect_timeout
    {
        let alpha = [Ev::Call, Ev::SetHang, Ev::SetOk, Ev::SetFail, Ev::Drop];
        let mut frontier: Vec<Vec<Ev>> = vec![vec![]];
        let mut all: Vec<Vec<Ev>> = vec![];
        for _ in 0..tier.q(4, 6) {
            let mut next = vec![];
            for s in &frontier {
                for a in alpha {
                    if let Some(last) = s.last() {
                        let is_set = |e: &Ev| matches!(e, Ev::SetFail | Ev::SetOk | Ev::SetHang);
                        if (is_set(last) && is_set(&a)) || (*last == Ev::Drop && a == Ev::Drop) {
                            continue;
                        }
                    }
                    let mut t = s.clone();
                    t.push(a);
                    next.push(t);
                }
            }
            all.extend(next.iter().cloned());
            frontier = next;
        }
        all.retain(|s| s.last() == Some(&Ev::Call) && s.contains(&Ev::SetHang));
        for (i, script) in all.into_iter().enumerate() {
            for lazy in [true, false] {
                cases.push(Case { lazy, initial: ConnectMode::Succeed, delayed: i % 2 == 0, chop: [0, 2, 3][i % 3], timeouts: true, script: script.clone() });
            }
        }
    }
    let sec = Section::new(
        "fault-scripts",
        Config { hang_secs: 60, ..Default::default() },
        "cases: every event script up to length 6 (thorough 9) over {call, call with an already expired deadline (own outcome unjudged), connector-starts-failing, connector-starts-succeeding, peer-drops-the-established-connection} (canonical: no repeated mode settings/drops, ending in a call) (plus scripts with a connector that never answers, ended only by Endpoint::connect_timeout) x lazy/eager channel x initial connector mode x {immediate / Pending-once connector, pipe fragmentation pattern, Endpoint timeouts}; real Endpoint::connect_with_connector[_lazy] -> Channel -> hyper/h2 over in-memory pipes -> Server::serve_with_incoming in virtual time, each event followed by quiescence; RefChannel (connected?, mode) stepped in lock-step: eager initial failure => connect error at once; call while connected => answer; call while disconnected => exactly one connector invocation, UNAVAILABLE to that call only if it fails, success if it succeeds; never a hang (virtual horizon) or panic; connector invocation count equals the model's; the connector (which keeps the tower contract, rotates its failures through six io::ErrorKinds and lets a quarter of them be caused by a gRPC status of its own) is never called without a preceding poll_ready. Non-trivial = script contains a fault (drop / failing mode) and a call.",
        cases,
        |c: &Case| format!("lazy={} initial={:?} delayed={} chop={} timeouts={} script={:?}", c.lazy, c.initial, c.delayed, c.chop, c.timeouts, c.script),
        body,
    )
    .mins(200, 4, 50);
    let bdepth = tier.q(4, 5);
    let bal = Section::new(
        "balance-discovery",
        Config { hang_secs: 120, ..Default::default() },
        "cases: every history of depth 4 (thorough 5) over {insert endpoint k, remove endpoint k (k in 0..3; 0 and 1 are reachable servers, 2 is an address nobody listens on), call (while the model has an endpoint registered), call-then-insert (while it has none: the call is issued first and endpoint 0 is registered 20 ms later)} on a fresh Channel::balance_channel (choices cost nothing; one case per first operation). A balanced channel connects inserted endpoints with tonic's own TCP connector, so this section alone runs over real loopback sockets in real time against two tonic servers on 127.0.0.1 that each execution starts for itself; the only verdict taken from it is completion: RefBalance = the set of registered keys; a call issued while that set is non-empty completes (bound: 4 s of real time, thousands of times a loopback call's latency) — with the backend's answer when only reachable endpoints are registered, with UNAVAILABLE when only the unreachable one is, with either when both kinds are — whether an endpoint was registered before, removed and registered again must not matter. Non-trivial = the history removes an endpoint and makes a call.",
        bal_menu(&[false; 3]).into_iter().map(|first| BalCase { first, depth: bdepth }).collect(),
        |c: &BalCase| format!("first={:?} depth={}", c.first, c.depth),
        bal_body,
    )
    .mins(200, 4, 50);
    Property {
        id: "C14",
        level: "fault_enumeration",
        hang_is_violation: true,
        assumptions: vec![
            "faults land at quiescent points (every task parked), as the property's quantifier states; interleavings inside hyper/h2/tokio follow the deterministic current-thread order".into(),
            "'peer drops the connection' = the client's pipe end returns EOF/BrokenPipe and the server end sees EOF".into(),
            "section balance-discovery uses real loopback TCP and real time (tonic offers no way to give a balanced channel a custom connector): the order in which the two backends are picked and the socket timing are not controlled; only completion of each call is judged".into(),
        ],
        sections: vec![sec, bal],
        extra: Default::default(),
    }
}
