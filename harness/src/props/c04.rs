//! C04 — status survives the header encoding; reading any headers is total.
//!
//! Four explorations, all pure input enumerations (no environment choices):
//!
//! * `roundtrip`   — Status -> `add_header` / `into_http` -> raw header bytes judged by the
//!                   hand-written percent / base64 decoders -> `from_header_map` -> equality.
//! * `totality`    — peer-supplied header maps from menus of `grpc-status`, `grpc-message`,
//!                   `grpc-status-details-bin` values (valid, malformed, repeated), read through
//!                   `Status::from_header_map` and as the trailers of a `Streaming` response.
//! * `http-table`  — every HTTP status 100..=599 through `Streaming::new_response` with and
//!                   without a `grpc-status` in the trailers.
//! * `h2-table`    — every HTTP/2 error code through `From<h2::Error>`, `Status::from_error`,
//!                   `Status::try_from_error`.
//!
//! Nothing the oracles use is taken from tonic: code numbers, names and the two mapping tables
//! are transcribed in `oracle/tables.rs` / below, percent- and base64-decoding are `oracle/pct.rs`
//! and `oracle/b64.rs`.

use super::codec_common::RawCodec;
use crate::env::{fmt_headers, fmt_status, hex, Chunking, ScriptBody};
use crate::explore::{Chooser, Config, Outcome};
use crate::oracle::{b64, pct, tables};
use crate::report::{Property, Section, Tier};
use bytes::Bytes;
use http::{HeaderMap, HeaderName, HeaderValue, StatusCode};
use std::panic::{catch_unwind, AssertUnwindSafe};
use std::pin::Pin;
use std::sync::Arc;
use std::task::{Context, Poll, Waker};
use tokio_stream::Stream;
use tonic::codec::{Codec, Streaming};
use tonic::metadata::{Ascii, Binary, MetadataKey, MetadataMap, MetadataValue};
use tonic::{Code, Status};

// ---------------------------------------------------------------------------------------------
// the 17 codes (statuscodes.md): index == number on the wire
// ---------------------------------------------------------------------------------------------

pub const CODES: [(Code, &str); 17] = [
    (Code::Ok, "OK"),
    (Code::Cancelled, "CANCELLED"),
    (Code::Unknown, "UNKNOWN"),
    (Code::InvalidArgument, "INVALID_ARGUMENT"),
    (Code::DeadlineExceeded, "DEADLINE_EXCEEDED"),
    (Code::NotFound, "NOT_FOUND"),
    (Code::AlreadyExists, "ALREADY_EXISTS"),
    (Code::PermissionDenied, "PERMISSION_DENIED"),
    (Code::ResourceExhausted, "RESOURCE_EXHAUSTED"),
    (Code::FailedPrecondition, "FAILED_PRECONDITION"),
    (Code::Aborted, "ABORTED"),
    (Code::OutOfRange, "OUT_OF_RANGE"),
    (Code::Unimplemented, "UNIMPLEMENTED"),
    (Code::Internal, "INTERNAL"),
    (Code::Unavailable, "UNAVAILABLE"),
    (Code::DataLoss, "DATA_LOSS"),
    (Code::Unauthenticated, "UNAUTHENTICATED"),
];

/// Number of a tonic `Code` by the transcribed table (not by tonic's discriminants).
pub fn code_num(c: Code) -> i32 {
    CODES.iter().position(|(x, _)| *x == c).expect("17 codes") as i32
}

pub fn code_name(n: i32) -> &'static str {
    CODES.get(n as usize).map(|(_, s)| *s).unwrap_or("?")
}

// ---------------------------------------------------------------------------------------------
// metadata menu
// ---------------------------------------------------------------------------------------------

/// One user-metadata entry: name, raw value bytes (for `-bin` names: the *decoded* bytes).
#[derive(Clone, Debug)]
pub struct MdEntry {
    pub name: &'static str,
    pub value: Vec<u8>,
}

fn e(name: &'static str, value: &[u8]) -> MdEntry {
    MdEntry { name, value: value.to_vec() }
}

pub fn is_bin(name: &str) -> bool {
    name.ends_with("-bin")
}

/// The metadata menu (a bounded version of C08's): empty, single/repeated ascii, binary values of
/// every length mod 3 incl. empty, interleaved keys, and every reserved name next to a user key.
pub fn metadata_menu(tier: Tier) -> Vec<Vec<MdEntry>> {
    let mut m = vec![
        vec![],
        vec![e("a", b"v")],
        vec![e("a", b"")],
        vec![e("a", b"x y=z"), e("a", b"second")],
        vec![e("a-bin", &[0x00, 0xfb, 0xff])],
        vec![e("a-bin", b"")],
        vec![e("a-bin", &[0x3d]), e("a-bin", &[0xff, 0xff]), e("a-bin", &[0, 0, 0, 0])],
        vec![e("x-y", b"1"), e("a", b"2"), e("a-bin", &[1, 2]), e("x-y", b"3")],
        vec![e("abin", b"not binary"), e("bin", b"~!@#$%^&*()_+")],
        // every reserved name carrying a forged value, next to one user key that must survive
        vec![
            e("grpc-status", b"7"),
            e("grpc-message", b"forged"),
            e("content-type", b"text/plain"),
            e("te", b"x"),
            e("user-agent", b"ua"),
            e("grpc-message-type", b"t"),
            e("a", b"kept"),
        ],
        vec![e("grpc-status", b"0")],
        vec![e("grpc-message", b"%zz")],
    ];
    if tier == Tier::Thorough {
        m.push(vec![e("a", b"%41%"), e("b", b"\"quoted\""), e("c-bin", &[0x80])]);
        m.push(vec![e("grpc-status", b"1"), e("grpc-status", b"2"), e("z", b"1"), e("z", b"2"), e("z", b"3")]);
        m.push((0..20).map(|_| e("many", b"v")).collect());
    }
    m
}

fn build_metadata(entries: &[MdEntry]) -> MetadataMap {
    let mut md = MetadataMap::new();
    for en in entries {
        if is_bin(en.name) {
            let k = MetadataKey::<Binary>::from_bytes(en.name.as_bytes())
                .unwrap_or_else(|_| crate::explore::machinery(format!("bad binary key in menu: {}", en.name)));
            md.append_bin(k, MetadataValue::<Binary>::from_bytes(&en.value));
        } else {
            let k = MetadataKey::<Ascii>::from_bytes(en.name.as_bytes())
                .unwrap_or_else(|_| crate::explore::machinery(format!("bad ascii key in menu: {}", en.name)));
            let v = MetadataValue::<Ascii>::try_from(&en.value[..])
                .unwrap_or_else(|_| crate::explore::machinery(format!("bad ascii value in menu: {:?}", en.value)));
            md.append(k, v);
        }
    }
    md
}

/// What must come back: per name (sorted), the values in insertion order; reserved names gone.
fn expected_metadata(entries: &[MdEntry]) -> Vec<(String, Vec<Vec<u8>>)> {
    let mut out: Vec<(String, Vec<Vec<u8>>)> = vec![];
    for en in entries {
        if tables::RESERVED.contains(&en.name) {
            continue;
        }
        match out.iter_mut().find(|(n, _)| n == en.name) {
            Some((_, vs)) => vs.push(en.value.clone()),
            None => out.push((en.name.to_string(), vec![en.value.clone()])),
        }
    }
    out.sort_by(|a, b| a.0.cmp(&b.0));
    out
}

/// Read a header map the way the expectation is written: per name, the values in order, `-bin`
/// values decoded with the hand-written base64 decoder. `skip` names are left out.
fn observed_metadata(h: &HeaderMap, skip: &[&str]) -> Result<Vec<(String, Vec<Vec<u8>>)>, String> {
    let mut out: Vec<(String, Vec<Vec<u8>>)> = vec![];
    for name in h.keys() {
        if skip.contains(&name.as_str()) {
            continue;
        }
        let mut vs = vec![];
        for v in h.get_all(name) {
            if is_bin(name.as_str()) {
                vs.push(b64::decode(v.as_bytes()).map_err(|er| format!("{}: value {:?} is not base64: {er}", name, v))?);
            } else {
                vs.push(v.as_bytes().to_vec());
            }
        }
        out.push((name.as_str().to_string(), vs));
    }
    out.sort_by(|a, b| a.0.cmp(&b.0));
    Ok(out)
}

// ---------------------------------------------------------------------------------------------
// header value legality (RFC 9110 field-value / RFC 9113 §8.2.1), written from the RFCs
// ---------------------------------------------------------------------------------------------

fn illegal_header_value(v: &[u8]) -> Option<String> {
    for (i, b) in v.iter().enumerate() {
        let ok = *b == b'\t' || (0x20..=0x7e).contains(b) || *b >= 0x80;
        if !ok {
            return Some(format!("byte {b:#04x} at offset {i}"));
        }
    }
    None
}

// ---------------------------------------------------------------------------------------------
// section 1: round trip
// ---------------------------------------------------------------------------------------------

#[derive(Clone, Debug)]
struct RtCase {
    code: u8,
    msg: u32,
    details: Vec<u8>,
    md: u16,
}

struct RtTables {
    msgs: Vec<String>,
    mds: Vec<Vec<MdEntry>>,
}

const CLASS20: [char; 20] = [
    '\0', '\t', '\n', '\r', '\x1f', ' ', '%', '"', '#', '<', '>', '?', '`', '{', '}', '\x7f', 'a', 'Z', '4', 'G',
];

const MULTI: [&str; 16] = [
    "é", "ß", "\u{80}", "\u{7ff}", "\u{800}", "€", "\u{ffff}", "\u{fffd}", "\u{10000}", "😀", "\u{10ffff}",
    "e\u{301}", "\u{5d0}\u{5d1}", "\u{202e}abc", "日本語", "a é%€ 😀\n",
];

/// Indices 0..SMALL_MSGS of the message table are the "small menu" used where another dimension
/// is the one being enumerated.
const SMALL_MSGS: usize = 8;

fn messages(tier: Tier) -> Vec<String> {
    let mut v: Vec<String> = vec![
        "".into(),
        "a".into(),
        "%".into(),
        "é x".into(),
        "\n".into(),
        "%41".into(),
        "100% \"sure\" <a?b#c>`{}`\u{7f}".into(),
        CLASS20.iter().cycle().take(64).collect(),
    ];
    assert_eq!(v.len(), SMALL_MSGS);
    // every single ASCII character
    for b in 0u8..=0x7f {
        v.push((b as char).to_string());
    }
    // every ordered pair (thorough: triple) over the class menu
    for a in CLASS20 {
        for b in CLASS20 {
            v.push([a, b].iter().collect());
            if tier == Tier::Thorough {
                for c in CLASS20 {
                    v.push([a, b, c].iter().collect());
                }
            }
        }
    }
    // '%' followed by hex digits / non-hex / nothing: must come back literally
    for s in ["%4", "%%", "%zz", "%G1", "100%", "%e9", "%E9", "%C3%A9", "a%20b", "%25", "%2541", "%00", "+", "a+b c"] {
        v.push(s.into());
    }
    // multi-byte scalars alone and next to every class character
    for m in MULTI {
        v.push(m.into());
        for c in CLASS20 {
            v.push(format!("{m}{c}"));
            v.push(format!("{c}{m}"));
        }
    }
    // lengths
    let mut lens = vec![3usize, 15, 16, 17, 31, 32, 33, 63, 64];
    if tier == Tier::Thorough {
        lens.extend([65, 127, 128, 255, 256, 1000, 8191]);
    }
    for l in lens {
        v.push("a".repeat(l));
        v.push("%".repeat(l));
        v.push(" ".repeat(l));
        v.push("\u{7f}".repeat(l));
        v.push("é".repeat(l));
        v.push("😀".repeat(l));
        v.push(CLASS20.iter().cycle().skip(l % 7).take(l).collect());
        v.push(MULTI.iter().cycle().take(l).map(|s| s.to_string()).collect::<Vec<_>>().join(" "));
    }
    v
}

fn small_details() -> Vec<Vec<u8>> {
    vec![
        vec![],
        vec![0x00],
        vec![0xff, 0xfe],
        vec![0x3e, 0x3f, 0x7f],
        vec![0xfb, 0xef, 0xbe, 0xff], // first three bytes encode to "++++" (alphabet edge)
        vec![0xff; 5],
        b"\x08\x03\x12\x03abc".to_vec(),
        (0u8..=63).collect(),
    ]
}

fn rt_cases(tier: Tier, t: &RtTables) -> Vec<RtCase> {
    let mut out = vec![];
    let sd = small_details();
    let nmd = t.mds.len();
    // (A) every message x every code; details and metadata rotate
    for (mi, _) in t.msgs.iter().enumerate() {
        for c in 0..17u8 {
            let i = mi * 17 + c as usize;
            out.push(RtCase { code: c, msg: mi as u32, details: sd[i % sd.len()].clone(), md: ((i / sd.len()) % nmd) as u16 });
        }
    }
    // (B) every details string of length <= 2, then lengths 3..=L over a 6-value alphabet
    let push_b = |d: Vec<u8>, out: &mut Vec<RtCase>| {
        let i = out.len();
        out.push(RtCase { code: (i % 17) as u8, msg: ((i / 17) % SMALL_MSGS) as u32, details: d, md: ((i / 136) % 3) as u16 });
    };
    push_b(vec![], &mut out);
    for a in 0..=255u8 {
        push_b(vec![a], &mut out);
    }
    for a in 0..=255u8 {
        for b in 0..=255u8 {
            push_b(vec![a, b], &mut out);
        }
    }
    let alpha: [u8; 6] = [0x00, 0x3e, 0x3f, 0x7f, 0x80, 0xff];
    let maxlen = tier.q(6, 7);
    let mut frontier: Vec<Vec<u8>> = alpha.iter().flat_map(|a| alpha.iter().map(move |b| vec![*a, *b])).collect();
    for _len in 3..=maxlen {
        let mut next = Vec::with_capacity(frontier.len() * 6);
        for s in &frontier {
            for a in alpha {
                let mut d = s.clone();
                d.push(a);
                next.push(d);
            }
        }
        for d in &next {
            push_b(d.clone(), &mut out);
        }
        frontier = next;
    }
    // longer details: every length 8..=70 (every length mod 3 many times over), and a few large
    let mut lens: Vec<usize> = (8..=70).collect();
    lens.extend([255, 256, 257, 1000]);
    if tier == Tier::Thorough {
        lens.extend([4095, 4096, 4097, 16384]);
    }
    for l in lens {
        for pat in 0..3u8 {
            let d: Vec<u8> = match pat {
                0 => vec![0xff; l],
                1 => vec![0x00; l],
                _ => (0..l).map(|i| (i as u8).wrapping_mul(37).wrapping_add(11)).collect(),
            };
            push_b(d, &mut out);
        }
    }
    // (C) full product of the small menus with every metadata map
    for c in 0..17u8 {
        for m in 0..SMALL_MSGS {
            for d in &sd {
                for md in 0..nmd {
                    out.push(RtCase { code: c, msg: m as u32, details: d.clone(), md: md as u16 });
                }
            }
        }
    }
    out
}

struct Expect<'a> {
    code: i32,
    msg: &'a str,
    details: &'a [u8],
    md: Vec<(String, Vec<Vec<u8>>)>,
}

/// Judge one produced header map (`path` = "add_header" or "into_http") and what
/// `from_header_map` makes of it.
fn judge_written(o: &mut Outcome, obs: &mut String, path: &str, h: &HeaderMap, x: &Expect<'_>, ignore: &[&str]) {
    obs.push_str(&format!(" {path}:wire[{}]", fmt_headers(h)));
    // 1. every value produced is a legal HTTP field value
    for (n, v) in h.iter() {
        if let Some(why) = illegal_header_value(v.as_bytes()) {
            o.violate(
                format!("illegal-header-value:{}", n.as_str()),
                format!("{path}: header {n} = {:?} is not a legal HTTP field value ({why})", v),
            );
        }
    }
    for n in ["grpc-status", "grpc-message", "grpc-status-details-bin"] {
        if h.get_all(n).iter().count() > 1 {
            o.violate(format!("duplicate-header:{n}"), format!("{path}: {n} written {} times", h.get_all(n).iter().count()));
        }
        if let Some(v) = h.get(n) {
            let b = v.as_bytes();
            if b.first().is_some_and(|c| *c == b' ' || *c == b'\t') || b.last().is_some_and(|c| *c == b' ' || *c == b'\t') {
                o.violate(format!("illegal-header-value:{n}"), format!("{path}: {n} = {v:?} starts or ends with whitespace"));
            }
        }
    }
    // 2. an independent reader of the raw bytes sees the same status
    match h.get("grpc-status") {
        None => o.violate("wire-status-missing", format!("{path}: no grpc-status written")),
        Some(v) => {
            let ok = std::str::from_utf8(v.as_bytes()).ok().and_then(|s| {
                if !s.is_empty() && s.bytes().all(|b| b.is_ascii_digit()) { s.parse::<i32>().ok() } else { None }
            }) == Some(x.code);
            if !ok {
                o.violate("wire-status-mismatch", format!("{path}: grpc-status = {v:?}, status code is {} ({})", x.code, code_name(x.code)));
            }
        }
    }
    match h.get("grpc-message") {
        None => {
            if !x.msg.is_empty() {
                o.violate("wire-message-missing", format!("{path}: message {:?} but no grpc-message written", x.msg));
            }
        }
        Some(v) => match pct::decode_strict(v.as_bytes()) {
            Ok(m) if m == x.msg => {}
            Ok(m) => o.violate("wire-message-mismatch", format!("{path}: grpc-message {v:?} percent-decodes to {m:?}, message is {:?}", x.msg)),
            Err(er) => o.violate("wire-message-undecodable", format!("{path}: grpc-message {v:?} is not valid percent-encoded UTF-8 ({er}); message is {:?}", x.msg)),
        },
    }
    match h.get("grpc-status-details-bin") {
        None => {
            if !x.details.is_empty() {
                o.violate("wire-details-missing", format!("{path}: details {} but no grpc-status-details-bin written", hex(x.details)));
            }
        }
        Some(v) => match b64::decode(v.as_bytes()) {
            Ok(d) if d == x.details => {}
            Ok(d) => o.violate("wire-details-mismatch", format!("{path}: grpc-status-details-bin {v:?} decodes to {}, details are {}", hex(&d), hex(x.details))),
            Err(er) => o.violate("wire-details-undecodable", format!("{path}: grpc-status-details-bin {v:?} is not base64 ({er})")),
        },
    }
    let mut skip = vec!["grpc-status", "grpc-message", "grpc-status-details-bin"];
    skip.extend_from_slice(ignore);
    match observed_metadata(h, &skip) {
        Ok(md) if md == x.md => {}
        Ok(md) => o.violate("wire-metadata-mismatch", format!("{path}: custom metadata on the wire {md:?}, expected {:?}", x.md)),
        Err(er) => o.violate("wire-metadata-undecodable", format!("{path}: {er}")),
    }
    // 3. tonic reads it back as an equal status
    let back = match catch_unwind(AssertUnwindSafe(|| Status::from_header_map(h))) {
        Ok(b) => b,
        Err(_) => {
            o.violate("from-header-map-panic", format!("{path}: from_header_map panicked on tonic's own output [{}]", fmt_headers(h)));
            return;
        }
    };
    let Some(back) = back else {
        o.violate("readback-none", format!("{path}: from_header_map returned None for [{}]", fmt_headers(h)));
        return;
    };
    obs.push_str(&format!(" back={}", fmt_status(&back)));
    if code_num(back.code()) != x.code {
        o.violate("readback-code", format!("{path}: code {} read back as {:?}", code_name(x.code), back.code()));
    }
    if back.message() != x.msg {
        o.violate("readback-message", format!("{path}: message {:?} read back as {:?}", x.msg, back.message()));
    }
    if back.details() != x.details {
        o.violate("readback-details", format!("{path}: details {} read back as {}", hex(x.details), hex(back.details())));
    }
    match observed_metadata(&back.metadata().clone().into_headers(), ignore) {
        Ok(md) if md == x.md => {}
        Ok(md) => o.violate("readback-metadata", format!("{path}: metadata read back as {md:?}, expected {:?}", x.md)),
        Err(er) => o.violate("readback-metadata", format!("{path}: {er}")),
    }
}

fn rt_body(c: &RtCase, t: &RtTables) -> Outcome {
    let msg = &t.msgs[c.msg as usize];
    let entries = &t.mds[c.md as usize];
    let code = CODES[c.code as usize].0;
    let status = Status::with_details_and_metadata(code, msg.clone(), Bytes::from(c.details.clone()), build_metadata(entries));
    let x = Expect { code: c.code as i32, msg, details: &c.details, md: expected_metadata(entries) };
    let mut o = Outcome::new("");
    let mut obs = String::new();
    o.nontrivial = msg.bytes().any(|b| !pct::is_legal_unescaped(b)) || !c.details.is_empty() || !entries.is_empty();

    // path 1: trailers (add_header into an empty map)
    let mut h = HeaderMap::new();
    match catch_unwind(AssertUnwindSafe(|| status.add_header(&mut h))) {
        Err(_) => o.violate("add-header-panic", "add_header panicked"),
        Ok(Err(er)) => o.violate("add-header-err", format!("add_header refused the status: {}", fmt_status(&er))),
        Ok(Ok(())) => judge_written(&mut o, &mut obs, "add_header", &h, &x, &[]),
    }
    // path 2: trailers-only response (into_http), read back from the response headers; the
    // response's own content-type is not user metadata and is ignored on the way back
    match catch_unwind(AssertUnwindSafe(|| status.clone().into_http::<()>())) {
        Err(_) => o.violate("into-http-panic", "into_http panicked"),
        Ok(resp) => {
            obs.push_str(&format!(" http={}", resp.status().as_u16()));
            judge_written(&mut o, &mut obs, "into_http", resp.headers(), &x, &["content-type"]);
        }
    }
    // path 3: the same trailers-only response handed to the real client (`client::Grpc` ->
    // `create_response`): a non-OK status must come out as the call's error, equal to the original
    // (3a: the response body is already at its end, 3b: the end of stream arrives separately)
    for late_end in [false, true] {
        obs.push_str(if late_end { " [late-end]" } else { "" });
        match catch_unwind(AssertUnwindSafe(|| client_view(status.clone(), late_end))) {
            Err(_) => o.violate("client-panic", "client::Grpc panicked on the into_http response"),
            Ok(ClientSaw::Stalled) => o.violate("client-stall", "client call did not complete"),
            Ok(ClientSaw::Error(s)) => {
                obs.push_str(&format!(" client=ERR {}", fmt_status(&s)));
                if x.code == tables::OK {
                    o.violate("client-ok-as-error", format!("an OK status came out of the client as the error {}", fmt_status(&s)));
                } else {
                    if code_num(s.code()) != x.code {
                        o.violate("client-code", format!("client: code {} came out as {:?}", code_name(x.code), s.code()));
                    }
                    if s.message() != x.msg {
                        o.violate("client-message", format!("client: message {:?} came out as {:?}", x.msg, s.message()));
                    }
                    if s.details() != x.details {
                        o.violate("client-details", format!("client: details {} came out as {}", hex(x.details), hex(s.details())));
                    }
                    match observed_metadata(&s.metadata().clone().into_headers(), &["content-type"]) {
                        Ok(md) if md == x.md => {}
                        Ok(md) => o.violate("client-metadata", format!("client: metadata came out as {md:?}, expected {:?}", x.md)),
                        Err(er) => o.violate("client-metadata", format!("client: {er}")),
                    }
                }
            }
            Ok(ClientSaw::Response(md, term)) => {
                obs.push_str(&format!(" client=OK md[{}] then {}", fmt_headers(&md), match &term { None => "END".to_string(), Some(s) => format!("ERR {}", fmt_status(s)) }));
                if x.code != tables::OK {
                    o.violate("client-error-as-ok", format!("status {} came out of the client as a successful response", code_name(x.code)));
                } else if let Some(s) = term {
                    o.violate("client-ok-as-error", format!("an OK status came out of the client's stream as the error {}", fmt_status(&s)));
                }
            }
        }
    }
    // path 4: a unary caller; the peer has sent its response headers already and delivers the
    // status in the trailers
    if x.code != tables::OK {
        match catch_unwind(AssertUnwindSafe(|| unary_error_after_headers(status.clone()))) {
            Err(_) => o.violate("client-panic", "client::Grpc::unary panicked"),
            Ok(Err(why)) => o.violate("unary-client-status-lost", why),
            Ok(Ok(s)) => {
                obs.push_str(&format!(" unary=ERR {}", fmt_status(&s)));
                if code_num(s.code()) != x.code || s.message() != x.msg {
                    o.violate("unary-client-code-message", format!("unary client: {} {:?} came out as {:?} {:?}", code_name(x.code), x.msg, s.code(), s.message()));
                }
                if s.details() != x.details {
                    o.violate("unary-client-details", format!("unary client: details {} came out as {}", hex(x.details), hex(s.details())));
                }
                match observed_metadata(&s.metadata().clone().into_headers(), &["content-type", "x-initial"]) {
                    Ok(md) if md == x.md => {}
                    Ok(md) => o.violate("unary-client-metadata", format!("unary client: metadata came out as {md:?}, expected {:?}", x.md)),
                    Err(er) => o.violate("unary-client-metadata", format!("unary client: {er}")),
                }
            }
        }
    }
    o.obs = obs;
    o
}

enum ClientSaw {
    Error(Status),
    /// response headers as metadata, then the first terminal event of the stream
    Response(HeaderMap, Option<Status>),
    Stalled,
}

/// A transport that answers every request with the trailers-only response of `status`.
struct TrailersOnly(Option<Status>);

impl tower_service::Service<http::Request<tonic::body::Body>> for TrailersOnly {
    type Response = http::Response<tonic::body::Body>;
    type Error = Status;
    type Future = std::future::Ready<Result<Self::Response, Status>>;
    fn poll_ready(&mut self, _: &mut Context<'_>) -> Poll<Result<(), Status>> {
        Poll::Ready(Ok(()))
    }
    fn call(&mut self, _req: http::Request<tonic::body::Body>) -> Self::Future {
        let st = self.0.take().unwrap_or_else(|| crate::explore::machinery("transport called twice"));
        std::future::ready(Ok(st.into_http::<tonic::body::Body>()))
    }
}

/// The same response, but its (empty) body does not announce its end up front: the end of stream
/// arrives separately, as from a peer that closes the stream with an empty DATA frame.
struct TrailersOnlyLateEnd(Option<Status>);

impl tower_service::Service<http::Request<tonic::body::Body>> for TrailersOnlyLateEnd {
    type Response = http::Response<crate::env::ScriptBody>;
    type Error = Status;
    type Future = std::future::Ready<Result<Self::Response, Status>>;
    fn poll_ready(&mut self, _: &mut Context<'_>) -> Poll<Result<(), Status>> {
        Poll::Ready(Ok(()))
    }
    fn call(&mut self, _req: http::Request<tonic::body::Body>) -> Self::Future {
        let st = self.0.take().unwrap_or_else(|| crate::explore::machinery("transport called twice"));
        let (parts, _) = st.into_http::<tonic::body::Body>().into_parts();
        let body = crate::env::ScriptBody::new(Vec::<u8>::new(), None, crate::env::Chunking::Fixed(vec![]), &crate::explore::Chooser::detached());
        std::future::ready(Ok(http::Response::from_parts(parts, body)))
    }
}

/// A transport that answers with response headers first (200, application/grpc, one custom entry)
/// and delivers `status` afterwards in the trailers of a body without messages — what a peer
/// does that has already sent its headers when the call fails.
struct HeadersThenTrailers(Option<Status>);

impl tower_service::Service<http::Request<tonic::body::Body>> for HeadersThenTrailers {
    type Response = http::Response<crate::env::ScriptBody>;
    type Error = Status;
    type Future = std::future::Ready<Result<Self::Response, Status>>;
    fn poll_ready(&mut self, _: &mut Context<'_>) -> Poll<Result<(), Status>> {
        Poll::Ready(Ok(()))
    }
    fn call(&mut self, _req: http::Request<tonic::body::Body>) -> Self::Future {
        let st = self.0.take().unwrap_or_else(|| crate::explore::machinery("transport called twice"));
        let mut trailers = HeaderMap::new();
        if let Err(e) = st.add_header(&mut trailers) {
            return std::future::ready(Err(e));
        }
        let body = crate::env::ScriptBody::new(Vec::<u8>::new(), Some(trailers), crate::env::Chunking::Fixed(vec![]), &crate::explore::Chooser::detached());
        let mut r = http::Response::new(body);
        r.headers_mut().insert("content-type", HeaderValue::from_static("application/grpc"));
        r.headers_mut().insert("x-initial", HeaderValue::from_static("1"));
        std::future::ready(Ok(r))
    }
}

/// What a UNARY caller gets when `status` (non-OK) arrives in trailers after response headers.
pub fn unary_error_after_headers(status: Status) -> Result<Status, String> {
    let mut grpc = tonic::client::Grpc::new(HeadersThenTrailers(Some(status)));
    let fut = grpc.unary(tonic::Request::new(vec![1u8]), http::uri::PathAndQuery::from_static("/s/m"), RawCodec::default());
    match crate::env::spin_block_on(fut, 64) {
        Err(_) => Err("the unary call did not complete".into()),
        Ok(Ok(_)) => Err("the unary call succeeded although the peer ended it with an error status".into()),
        Ok(Err(s)) => Ok(s),
    }
}

fn client_view(status: Status, late_end: bool) -> ClientSaw {
    if late_end {
        let grpc = tonic::client::Grpc::new(TrailersOnlyLateEnd(Some(status)));
        client_view_on(grpc)
    } else {
        let grpc = tonic::client::Grpc::new(TrailersOnly(Some(status)));
        client_view_on(grpc)
    }
}

fn client_view_on<T>(mut grpc: tonic::client::Grpc<T>) -> ClientSaw
where
    T: tonic::client::GrpcService<tonic::body::Body>,
    T::ResponseBody: http_body::Body<Data = Bytes> + Send + 'static,
    <T::ResponseBody as http_body::Body>::Error: Into<Box<dyn std::error::Error + Send + Sync>> + Send,
{
    let fut = grpc.server_streaming(
        tonic::Request::new(vec![1u8]),
        http::uri::PathAndQuery::from_static("/s/m"),
        RawCodec::default(),
    );
    match crate::env::spin_block_on(fut, 64) {
        Err(_) => ClientSaw::Stalled,
        Ok(Err(s)) => ClientSaw::Error(s),
        Ok(Ok(resp)) => {
            let (md, stream, _) = resp.into_parts();
            match first_terminal(stream) {
                (_, None) => ClientSaw::Stalled,
                (_, Some(t)) => ClientSaw::Response(md.into_headers(), t),
            }
        }
    }
}

// ---------------------------------------------------------------------------------------------
// section 2: totality over peer-supplied header maps
// ---------------------------------------------------------------------------------------------

#[derive(Clone, Debug)]
struct TotCase {
    /// zero, one or two `grpc-status` lines
    gs: Vec<Vec<u8>>,
    gm: Option<Vec<u8>>,
    gd: Option<Vec<u8>>,
    extra: u8,
}

/// grpc-status by the grammar `1*DIGIT`: the set of codes a conforming reader may report.
/// Canonical decimal of 0..=16 -> exactly that code; leading zeros with a value 0..=16 -> that
/// code or UNKNOWN (both readings of "malformed" are tenable); everything else -> UNKNOWN.
fn allowed_codes(v: &[u8]) -> Vec<i32> {
    let digits = !v.is_empty() && v.iter().all(|b| b.is_ascii_digit());
    if !digits {
        return vec![tables::UNKNOWN];
    }
    let stripped: Vec<u8> = v.iter().copied().skip_while(|b| *b == b'0').collect();
    let val: Option<i32> = if stripped.len() > 2 {
        None
    } else {
        Some(stripped.iter().fold(0i32, |a, b| a * 10 + (*b - b'0') as i32))
    };
    match val {
        Some(n) if n <= 16 => {
            let canonical = stripped.len() == v.len() || v == b"0";
            if canonical { vec![n] } else { vec![n, tables::UNKNOWN] }
        }
        _ => vec![tables::UNKNOWN],
    }
}

fn status_menu() -> Vec<Vec<Vec<u8>>> {
    let mut m: Vec<Vec<Vec<u8>>> = vec![vec![]];
    for n in 0..=16 {
        m.push(vec![n.to_string().into_bytes()]);
    }
    let odd: Vec<Vec<u8>> = vec![
        b"17".to_vec(), b"99".to_vec(), b"-1".to_vec(), b"".to_vec(), b"00".to_vec(), b"01".to_vec(), b"016".to_vec(),
        b"1 ".to_vec(), b" 1".to_vec(), b"0x1".to_vec(), b"+1".to_vec(), b"1.0".to_vec(), b"1e1".to_vec(), b"-0".to_vec(),
        "１".as_bytes().to_vec(), "٣".as_bytes().to_vec(), vec![0xff], vec![b'1', 0x80],
        vec![b'1'; 300], b"256".to_vec(), b"257".to_vec(), b"2147483648".to_vec(), b"4294967296".to_vec(),
        b"4294967298".to_vec(), b"18446744073709551617".to_vec(), b"ok".to_vec(), b"OK".to_vec(), b"1\t".to_vec(),
    ];
    for v in odd {
        m.push(vec![v]);
    }
    // repeated header lines
    m.push(vec![b"0".to_vec(), b"5".to_vec()]);
    m.push(vec![b"5".to_vec(), b"0".to_vec()]);
    m.push(vec![b"x".to_vec(), b"3".to_vec()]);
    m
}

fn strings_over(alpha: &[u8], maxlen: usize) -> Vec<Vec<u8>> {
    let mut all: Vec<Vec<u8>> = vec![];
    let mut frontier: Vec<Vec<u8>> = vec![vec![]];
    for _ in 0..maxlen {
        let mut next = vec![];
        for s in &frontier {
            for a in alpha {
                let mut t = s.clone();
                t.push(*a);
                next.push(t);
            }
        }
        all.extend(next.iter().cloned());
        frontier = next;
    }
    all
}

fn message_menu() -> Vec<Option<Vec<u8>>> {
    let mut m: Vec<Option<Vec<u8>>> = vec![None];
    let vals: Vec<&[u8]> = vec![
        b"", b"hello", b"a%20b", b"%E2%82%AC", b"%e2%82%ac", b"%", b"%4", b"%G1", b"%%", b"100%", b"%E2%28%A1", b"%FF",
        "é".as_bytes(), &[0xff], b"a b", b"%00", b"+", b"a%2", b"%C3", b"%C3%A9%", b"%25", b"%2541", &[0xc3, b'%', b'A', b'9'],
    ];
    for v in vals {
        m.push(Some(v.to_vec()));
    }
    m
}

fn details_menu() -> Vec<Option<Vec<u8>>> {
    let mut m: Vec<Option<Vec<u8>>> = vec![None];
    let vals: Vec<&[u8]> = vec![
        b"", b"QQ", b"QQ==", b"QUI", b"QUI=", b"QUJD", b"QR", b"QUJ", b"Q", b"QQ=", b"Q=Q=", b"QQ==QQ==", b"!!!!", b"QQ Q",
        b"QUJD\t", b"-_-_", b"QUJDRA", b"QUJDRA==", b"=", b"====", &[0xff, 0xff], b"QUJDR", b"Q===", b"QQ===", b"+/+/", b"QQ=Q",
    ];
    for v in vals {
        m.push(Some(v.to_vec()));
    }
    m
}

fn tot_cases(tier: Tier) -> Vec<TotCase> {
    let mut out = vec![];
    let sm = status_menu();
    let mm = message_menu();
    let dm = details_menu();
    // (a) full product of the three menus; the "other headers" variant rotates (thorough: all)
    let mut i = 0usize;
    for gs in &sm {
        for gm in &mm {
            for gd in &dm {
                let extras: Vec<u8> = if tier == Tier::Thorough { vec![0, 1, 2, 3] } else { vec![(i % 4) as u8] };
                for ex in extras {
                    out.push(TotCase { gs: gs.clone(), gm: gm.clone(), gd: gd.clone(), extra: ex });
                }
                i += 1;
            }
        }
    }
    // (b) every short raw grpc-message over an alphabet of escape fragments and UTF-8 fragments
    let msgs = strings_over(&[b'%', b'4', b'1', b'G', b'a', 0xc3, 0xa9], tier.q(3, 5));
    let some_status: Vec<Vec<Vec<u8>>> = vec![vec![b"0".to_vec()], vec![b"5".to_vec()], vec![b"16".to_vec()], vec![b"77".to_vec()], vec![]];
    let some_det: Vec<Option<Vec<u8>>> = vec![None, Some(b"QUJD".to_vec()), Some(b"Q".to_vec())];
    for (k, m) in msgs.iter().enumerate() {
        for gs in &some_status {
            let dets: Vec<&Option<Vec<u8>>> = if tier == Tier::Thorough { some_det.iter().collect() } else { vec![&some_det[k % 3]] };
            for gd in dets {
                out.push(TotCase { gs: gs.clone(), gm: Some(m.clone()), gd: gd.clone(), extra: (k % 4) as u8 });
            }
        }
    }
    // (c) every short raw grpc-status-details-bin over alphabet / padding / junk symbols
    let dets = strings_over(&[b'A', b'Q', b'/', b'=', b'!', b'-'], tier.q(4, 6));
    let some_msg: Vec<Option<Vec<u8>>> = vec![None, Some(b"m".to_vec()), Some(b"%".to_vec())];
    for (k, d) in dets.iter().enumerate() {
        for gs in &some_status {
            let ms: Vec<&Option<Vec<u8>>> = if tier == Tier::Thorough { some_msg.iter().collect() } else { vec![&some_msg[k % 3]] };
            for gm in ms {
                out.push(TotCase { gs: gs.clone(), gm: gm.clone(), gd: Some(d.clone()), extra: (k % 4) as u8 });
            }
        }
    }
    // (d) every grpc-status of length <= 3 over digits/sign/space/junk
    for s in strings_over(&[b'0', b'1', b'6', b'7', b'9', b'-', b'+', b' ', b'x'], tier.q(2, 3)) {
        out.push(TotCase { gs: vec![s.clone()], gm: Some(b"m".to_vec()), gd: None, extra: 0 });
        out.push(TotCase { gs: vec![s], gm: None, gd: Some(b"QQ".to_vec()), extra: 1 });
    }
    out
}

fn hv(b: &[u8]) -> HeaderValue {
    HeaderValue::from_bytes(b).unwrap_or_else(|_| crate::explore::machinery(format!("menu value {b:?} is not a header value")))
}

fn tot_headers(c: &TotCase) -> HeaderMap {
    let mut h = HeaderMap::new();
    match c.extra {
        1 => {
            h.insert("a", hv(b"v"));
            h.insert("b-bin", hv(b"QQ"));
        }
        2 => {
            h.insert("x", hv(&[0xff, 0xfe]));
            h.insert("y-bin", hv(b"not base64!"));
        }
        3 => {
            h.insert("content-type", hv(b"application/grpc"));
            h.append("a", hv(b"1"));
            h.append("a", hv(b"2"));
            h.insert("grpc-encoding", hv(b"gzip"));
        }
        _ => {}
    }
    for s in &c.gs {
        h.append("grpc-status", hv(s));
    }
    if let Some(m) = &c.gm {
        h.insert("grpc-message", hv(m));
    }
    if let Some(d) = &c.gd {
        h.insert("grpc-status-details-bin", hv(d));
    }
    h
}

/// Lenient percent-decoding as PROTOCOL-HTTP2.md permits for invalid input ("at worst ... the
/// raw percent-encoded form"): invalid escapes stay literal.
fn pct_lenient(input: &[u8]) -> Vec<u8> {
    fn hx(c: u8) -> Option<u8> {
        (c as char).to_digit(16).map(|d| d as u8)
    }
    let mut out = vec![];
    let mut i = 0;
    while i < input.len() {
        if input[i] == b'%' && i + 2 < input.len() {
            if let (Some(h), Some(l)) = (hx(input[i + 1]), hx(input[i + 2])) {
                out.push(h * 16 + l);
                i += 3;
                continue;
            }
        }
        out.push(input[i]);
        i += 1;
    }
    out
}

/// What the message may be.
enum Field<T> {
    /// decodable: exactly this value
    Exact(T),
    /// not decodable by the strict reader: an error status, or one of these lenient readings
    Loose(Vec<T>),
}

fn message_expectation(gm: &Option<Vec<u8>>) -> Field<String> {
    let Some(raw) = gm else { return Field::Exact(String::new()) };
    match pct::decode_strict(raw) {
        Ok(m) => Field::Exact(m),
        Err(_) => {
            let len = pct_lenient(raw);
            let mut allowed = vec![String::from_utf8_lossy(&len).into_owned(), String::from_utf8_lossy(raw).into_owned()];
            allowed.dedup();
            Field::Loose(allowed)
        }
    }
}

fn details_expectation(gd: &Option<Vec<u8>>) -> Field<Vec<u8>> {
    let Some(raw) = gd else { return Field::Exact(vec![]) };
    let stripped: &[u8] = {
        let mut s = &raw[..];
        while let [r @ .., b'='] = s {
            s = r;
        }
        s
    };
    match b64::decode(raw) {
        Ok(d) => {
            // canonical (zero trailing bits)? then every decoder must agree; otherwise a strict
            // decoder may refuse it
            if b64::encode(&d, false).as_bytes() == stripped {
                Field::Exact(d)
            } else {
                Field::Loose(vec![d])
            }
        }
        Err(_) => {
            // padding that does not complete a quantum is tolerated by padding-indifferent
            // decoders; bad symbols, length = 1 mod 4 and padding in the middle are not decodable
            match b64::decode(stripped) {
                Ok(d) if raw.len() - stripped.len() <= 2 => Field::Loose(vec![d]),
                _ => Field::Loose(vec![]),
            }
        }
    }
}

/// One reading of a header map: a status (code number, message, details) or "no error / clean end".
enum Reading {
    Status(i32, String, Vec<u8>),
    CleanEnd,
}

fn judge_reading(o: &mut Outcome, via: &str, r: &Reading, codes: &[i32], fm: &Field<String>, fd: &Field<Vec<u8>>, hdrs: &str) {
    let (code, msg, det): (i32, Option<&str>, Option<&[u8]>) = match r {
        Reading::Status(c, m, d) => (*c, Some(m), Some(d)),
        Reading::CleanEnd => (tables::OK, None, None),
    };
    let strict = matches!(fm, Field::Exact(_)) && matches!(fd, Field::Exact(_));
    if strict {
        if !codes.contains(&code) {
            let key = if codes == [tables::UNKNOWN] { "bad-code-not-unknown".to_string() } else { "valid-code-misread".to_string() };
            o.violate(format!("{via}:{key}"), format!("{via}: [{hdrs}] read as code {} ({}), allowed {:?}", code, code_name(code), codes));
        }
        if let (Field::Exact(m), Some(got)) = (fm, msg) {
            if m != got {
                o.violate(format!("{via}:message-misread"), format!("{via}: [{hdrs}] message read as {got:?}, grpc-message percent-decodes to {m:?}"));
            }
        }
        if let (Field::Exact(d), Some(got)) = (fd, det) {
            if d != got {
                o.violate(format!("{via}:details-misread"), format!("{via}: [{hdrs}] details read as {}, header decodes to {}", hex(got), hex(d)));
            }
        }
        return;
    }
    // some field is not decodable: an error status is what the property asks for
    if code != tables::OK {
        return;
    }
    // reported as success: only tenable if OK is an allowed code and every field that the strict
    // reader refused was read leniently to one of the allowed values
    let mut excuse = codes.contains(&tables::OK);
    match (fm, msg) {
        (Field::Loose(al), Some(got)) => excuse &= al.iter().any(|a| a == got),
        // a clean end of stream does not show the message: tenable iff some lenient reading exists
        (Field::Loose(al), None) => excuse &= !al.is_empty(),
        (Field::Exact(m), Some(got)) => excuse &= m == got,
        _ => {}
    }
    match (fd, det) {
        (Field::Loose(al), Some(got)) => excuse &= al.iter().any(|a| a == got),
        (Field::Loose(al), None) => excuse &= !al.is_empty(),
        (Field::Exact(d), Some(got)) => excuse &= d == got,
        _ => {}
    }
    if !excuse {
        let which = match (fm, fd) {
            (Field::Loose(_), Field::Loose(_)) => "message+details",
            (Field::Loose(_), _) => "message",
            _ => "details",
        };
        o.violate(
            format!("{via}:undecodable-{which}-reported-ok"),
            format!("{via}: [{hdrs}] has an undecodable {which} but was reported as success (code OK) instead of an error status"),
        );
    }
}

/// Poll a response stream to its first terminal event; messages before it are counted.
fn first_terminal(mut s: Streaming<Vec<u8>>) -> (usize, Option<Option<Status>>) {
    let mut cx = Context::from_waker(Waker::noop());
    let mut msgs = 0;
    for _ in 0..64 {
        match Pin::new(&mut s).poll_next(&mut cx) {
            Poll::Pending => continue,
            Poll::Ready(Some(Ok(_))) => msgs += 1,
            Poll::Ready(Some(Err(e))) => return (msgs, Some(Some(e))),
            Poll::Ready(None) => return (msgs, Some(None)),
        }
    }
    (msgs, None)
}

fn tot_body(c: &TotCase, ch: &Chooser) -> Outcome {
    let h = tot_headers(c);
    let hdrs = fmt_headers(&h);
    let mut o = Outcome::new("");
    let fm = message_expectation(&c.gm);
    let fd = details_expectation(&c.gd);
    let mut codes: Vec<i32> = c.gs.iter().flat_map(|v| allowed_codes(v)).collect();
    codes.sort();
    codes.dedup();
    let malformed_code = c.gs.iter().any(|v| !(0..=16).any(|n: i32| n.to_string().as_bytes() == &v[..]));
    o.nontrivial = malformed_code || matches!(fm, Field::Loose(_)) || matches!(fd, Field::Loose(_));

    // (1) Status::from_header_map
    let mut obs = String::new();
    match catch_unwind(AssertUnwindSafe(|| Status::from_header_map(&h))) {
        Err(_) => {
            obs.push_str("fhm=PANIC");
            o.violate("from-header-map-panic", format!("Status::from_header_map panicked on [{hdrs}]"));
        }
        Ok(None) => {
            obs.push_str("fhm=None");
            if !c.gs.is_empty() {
                o.violate("from-header-map:status-ignored", format!("[{hdrs}] carries a grpc-status but from_header_map returned None"));
            }
        }
        Ok(Some(s)) => {
            obs.push_str(&format!("fhm={}", fmt_status(&s)));
            if !c.gs.is_empty() {
                let r = Reading::Status(code_num(s.code()), s.message().to_string(), s.details().to_vec());
                judge_reading(&mut o, "from-header-map", &r, &codes, &fm, &fd, &hdrs);
            }
            // absent grpc-status: what from_header_map returns is not constrained here; the
            // http-table section checks that the HTTP mapping is what the caller ends up with
        }
    }
    // (2) the same map as the trailers of a 200 response with an empty body
    let sb = ScriptBody::new(Bytes::new(), Some(h.clone()), Chunking::Fixed(vec![]), ch);
    let dec = RawCodec::default().decoder();
    match catch_unwind(AssertUnwindSafe(|| first_terminal(Streaming::new_response(dec, sb, StatusCode::OK, None, None)))) {
        Err(_) => {
            obs.push_str(" stream=PANIC");
            o.violate("streaming-trailers-panic", format!("Streaming panicked on trailers [{hdrs}]"));
        }
        Ok((_, None)) => {
            obs.push_str(" stream=STALL");
            o.violate("streaming-trailers-stall", format!("Streaming did not terminate on trailers [{hdrs}]"));
        }
        Ok((_, Some(None))) => {
            obs.push_str(" stream=END");
            if !c.gs.is_empty() {
                judge_reading(&mut o, "streaming-trailers", &Reading::CleanEnd, &codes, &fm, &fd, &hdrs);
            }
        }
        Ok((_, Some(Some(s)))) => {
            obs.push_str(&format!(" stream=ERR {}", fmt_status(&s)));
            if !c.gs.is_empty() {
                if s.code() == Code::Ok {
                    o.violate("streaming-trailers:ok-as-error", format!("Streaming yielded an Err carrying code OK for trailers [{hdrs}]"));
                }
                let r = Reading::Status(code_num(s.code()), s.message().to_string(), s.details().to_vec());
                judge_reading(&mut o, "streaming-trailers", &r, &codes, &fm, &fd, &hdrs);
            }
        }
    }
    o.obs = obs;
    o
}

// ---------------------------------------------------------------------------------------------
// section 3: HTTP status table
// ---------------------------------------------------------------------------------------------

#[derive(Clone, Copy, Debug, PartialEq, Eq)]
enum Trl {
    /// body ends without a trailers frame
    NoFrame,
    /// an empty trailers frame
    Empty,
    /// trailers without grpc-status
    Other,
    /// grpc-status: 5, grpc-message: nope%20
    NotFound,
    /// grpc-status: 0
    Ok,
}

#[derive(Clone, Copy, Debug)]
struct HttpCase {
    http: u16,
    trl: Trl,
    /// a well-formed one-message body before the end
    with_message: bool,
}

fn http_cases(tier: Tier) -> Vec<HttpCase> {
    let mut out = vec![];
    for http in 100..=599u16 {
        for trl in [Trl::NoFrame, Trl::Empty, Trl::Other, Trl::NotFound, Trl::Ok] {
            out.push(HttpCase { http, trl, with_message: false });
            if tier == Tier::Thorough {
                out.push(HttpCase { http, trl, with_message: true });
            }
        }
    }
    out
}

fn http_body(c: &HttpCase, ch: &Chooser) -> Outcome {
    let trailers = match c.trl {
        Trl::NoFrame => None,
        Trl::Empty => Some(HeaderMap::new()),
        Trl::Other => {
            let mut h = HeaderMap::new();
            h.insert("a", hv(b"v"));
            h.insert("grpc-message", hv(b"orphan"));
            Some(h)
        }
        Trl::NotFound => {
            let mut h = HeaderMap::new();
            h.insert("grpc-status", hv(b"5"));
            h.insert("grpc-message", hv(b"nope%20"));
            Some(h)
        }
        Trl::Ok => {
            let mut h = HeaderMap::new();
            h.insert("grpc-status", hv(b"0"));
            Some(h)
        }
    };
    let data: Vec<u8> = if c.with_message { vec![0, 0, 0, 0, 2, 0xab, 0xcd] } else { vec![] };
    let sb = ScriptBody::new(data, trailers, Chunking::Fixed(vec![]), ch);
    let dec = RawCodec::default().decoder();
    let status = StatusCode::from_u16(c.http).unwrap_or_else(|_| crate::explore::machinery("bad status in table"));
    let mut o = Outcome::new("");
    let has_grpc_status = matches!(c.trl, Trl::NotFound | Trl::Ok);
    o.nontrivial = !has_grpc_status && c.http != 200;
    let r = catch_unwind(AssertUnwindSafe(|| first_terminal(Streaming::new_response(dec, sb, status, None, None))));
    let (msgs, term) = match r {
        Err(_) => {
            o.obs = "PANIC".into();
            o.violate("streaming-http-panic", format!("Streaming panicked for HTTP {} trailers {:?}", c.http, c.trl));
            return o;
        }
        Ok(x) => x,
    };
    o.obs = format!(
        "msgs={msgs} term={}",
        match &term {
            None => "STALL".to_string(),
            Some(None) => "END".to_string(),
            Some(Some(s)) => format!("ERR code={:?} msg={:?}", s.code(), s.message()),
        }
    );
    let Some(term) = term else {
        o.violate("streaming-http-stall", format!("no terminal event for HTTP {} trailers {:?}", c.http, c.trl));
        return o;
    };
    match c.trl {
        Trl::NotFound => match &term {
            Some(s) if s.code() == Code::NotFound && s.message() == "nope " => {}
            other => o.violate(
                "grpc-status-not-preferred",
                format!("HTTP {} with trailers grpc-status 5 / grpc-message nope%20: expected NOT_FOUND \"nope \", got {:?}", c.http, other.as_ref().map(fmt_status)),
            ),
        },
        // grpc-status 0 is available: the call succeeded as far as this property goes; what tonic
        // does with a non-200 + OK is recorded, not judged
        Trl::Ok => {}
        Trl::NoFrame | Trl::Empty | Trl::Other => {
            if c.http == 200 {
                // "other non-200" — 200 without grpc-status is not constrained by the table
            } else {
                let want = tables::code_from_http_status(c.http);
                match &term {
                    Some(s) if code_num(s.code()) == want => {}
                    other => o.violate(
                        format!("http-status-map:{}", c.http),
                        format!(
                            "HTTP {} without grpc-status (trailers {:?}): expected {} per http-grpc-status-mapping, got {}",
                            c.http, c.trl, code_name(want),
                            other.as_ref().map(fmt_status).unwrap_or_else(|| "a clean end of stream".into())
                        ),
                    ),
                }
            }
        }
    }
    o
}

// ---------------------------------------------------------------------------------------------
// section 4: HTTP/2 error code table
// ---------------------------------------------------------------------------------------------

const H2_NAMES: [&str; 14] = [
    "NO_ERROR", "PROTOCOL_ERROR", "INTERNAL_ERROR", "FLOW_CONTROL_ERROR", "SETTINGS_TIMEOUT", "STREAM_CLOSED",
    "FRAME_SIZE_ERROR", "REFUSED_STREAM", "CANCEL", "COMPRESSION_ERROR", "CONNECT_ERROR", "ENHANCE_YOUR_CALM",
    "INADEQUATE_SECURITY", "HTTP_1_1_REQUIRED",
];

fn h2_name(r: u32) -> String {
    H2_NAMES.get(r as usize).map(|s| s.to_string()).unwrap_or_else(|| format!("unknown({r:#x})"))
}

#[derive(Clone, Copy, Debug, PartialEq, Eq)]
enum H2Path {
    FromImpl,
    FromError,
    TryFromError,
    /// a response stream whose body is reset with this code after `n` bytes of a 10-byte message
    /// frame have arrived (0 = between messages, 3 = inside the prefix, 7 = inside the payload)
    StreamReset(usize),
}

#[derive(Clone, Copy, Debug)]
struct H2Case {
    reason: u32,
    path: H2Path,
}

fn h2_cases(tier: Tier) -> Vec<H2Case> {
    let mut reasons: Vec<u32> = (0..=13).collect();
    reasons.extend([14, 15, 16, 255, 256, 0x7fff_ffff, 0x8000_0000, u32::MAX]);
    if tier == Tier::Thorough {
        reasons.extend(17..=254);
        reasons.extend((0..32).map(|k| 1u32 << k).filter(|r| *r > 13));
    }
    reasons.sort();
    reasons.dedup();
    let mut out = vec![];
    for r in reasons {
        for p in [H2Path::FromImpl, H2Path::FromError, H2Path::TryFromError, H2Path::StreamReset(0), H2Path::StreamReset(3), H2Path::StreamReset(7), H2Path::StreamReset(12)] {
            out.push(H2Case { reason: r, path: p });
        }
    }
    out
}

fn h2_body(c: &H2Case, _ch: &Chooser) -> Outcome {
    let mut o = Outcome::new("");
    let want = tables::code_from_h2_reason(c.reason);
    o.nontrivial = want.is_some();
    let res = catch_unwind(AssertUnwindSafe(|| {
        let err = h2::Error::from(h2::Reason::from(c.reason));
        let st: Result<Status, String> = match c.path {
            H2Path::FromImpl => Ok(Status::from(err)),
            H2Path::FromError => Ok(Status::from_error(Box::new(err))),
            H2Path::TryFromError => Status::try_from_error(Box::new(err)).map_err(|e| e.to_string()),
            H2Path::StreamReset(n) => {
                // one complete 5-byte message, then a second frame cut short by the reset
                let mut data = vec![0u8, 0, 0, 0, 0];
                data.extend_from_slice(&[0u8, 0, 0, 0, 5, 1, 2, 3, 4, 5]);
                let at = if n >= 12 { 5 } else { 5 + n };
                let body = crate::env::ScriptBody::new(data, None, crate::env::Chunking::Fixed(vec![]), &crate::explore::Chooser::detached())
                    .with_end(crate::env::BodyEnd::Error { at, status: Status::from_error(Box::new(err)) });
                let mut s = tonic::codec::Streaming::new_response(RawCodec::default().decoder(), body, http::StatusCode::OK, None, None);
                let mut cx = Context::from_waker(std::task::Waker::noop());
                let mut found = Err("the stream never reported an error".to_string());
                for _ in 0..64 {
                    match std::pin::Pin::new(&mut s).poll_next(&mut cx) {
                        Poll::Ready(Some(Err(e))) => {
                            found = Ok(e);
                            break;
                        }
                        Poll::Ready(None) => {
                            found = Err("the stream ended cleanly although its body was reset".to_string());
                            break;
                        }
                        _ => {}
                    }
                }
                found
            }
        };
        // and back (recorded only: the property says nothing about Status -> h2)
        let back = st.as_ref().ok().map(|s| {
            let e: h2::Error = s.clone().into();
            e.reason().map(u32::from)
        });
        (st, back)
    }));
    let (st, back) = match res {
        Err(_) => {
            o.obs = "PANIC".into();
            o.violate(format!("h2-panic:{}", h2_name(c.reason)), format!("converting h2 reason {} via {:?} panicked", h2_name(c.reason), c.path));
            return o;
        }
        Ok(x) => x,
    };
    let got: i32 = match &st {
        Ok(s) => code_num(s.code()),
        Err(_) => -1,
    };
    o.obs = format!(
        "reason={} via={:?} -> {} back={:?}",
        h2_name(c.reason),
        c.path,
        match &st {
            Ok(s) => format!("{:?}", s.code()),
            Err(e) => format!("unrecognised({e})"),
        },
        back
    );
    if let Some(w) = want {
        if got != w {
            o.violate(
                format!("h2-reason-map:{}", h2_name(c.reason)),
                format!(
                    "HTTP/2 error code {} ({:#x}) via {:?}: expected {} per PROTOCOL-HTTP2.md \"Errors\", got {}",
                    h2_name(c.reason), c.reason, c.path, code_name(w),
                    if got >= 0 { code_name(got).to_string() } else { "an unrecognised error".to_string() }
                ),
            );
        }
    }
    o
}

// ---------------------------------------------------------------------------------------------

// ---------------------------------------------------------------------------------------------
// section 5: a status sent by a NON-tonic HTTP/2 server over the real transport
// ---------------------------------------------------------------------------------------------

#[derive(Clone, Debug)]
struct ForeignCase {
    /// 0: headers + trailers; 1: headers with content-length: 0 + trailers; 2: headers + one message + trailers
    layout: u8,
    status: (i32, &'static str, Vec<u8>),
    streaming_caller: bool,
    chop: usize,
}

fn foreign_body(c: &ForeignCase, _ch: &Chooser) -> Outcome {
    use crate::env::vnet::{self, ConnectMode};
    use crate::fixtures::echo::echo_client::EchoClient;
    let rt = vnet::runtime(41);
    let c2 = c.clone();
    let (msgs, outcome): (usize, Result<Option<Status>, String>) = rt.block_on(async move {
        let c = c2;
        let (st, mut rx) = vnet::connector_state(ConnectMode::Succeed, false, c.chop);
        let spec = c.status.clone();
        let layout = c.layout;
        tokio::spawn(async move {
            while let Some(io) = rx.recv().await {
                let spec = spec.clone();
                tokio::spawn(async move {
                    let svc = hyper::service::service_fn(move |req: http::Request<hyper::body::Incoming>| {
                        let spec = spec.clone();
                        async move {
                            use http_body_util::BodyExt;
                            let _ = req.into_body().collect().await;
                            let mut t = HeaderMap::new();
                            t.insert("grpc-status", HeaderValue::from_str(&spec.0.to_string()).unwrap());
                            if !spec.1.is_empty() {
                                t.insert("grpc-message", HeaderValue::from_str(&pct::encode_minimal(spec.1)).unwrap());
                            }
                            if !spec.2.is_empty() {
                                t.insert("grpc-status-details-bin", HeaderValue::from_str(&b64::encode(&spec.2, false)).unwrap());
                            }
                            let mut frames: Vec<Result<http_body::Frame<Bytes>, std::convert::Infallible>> = vec![];
                            if layout == 2 {
                                frames.push(Ok(http_body::Frame::data(Bytes::from(crate::oracle::wire::encode_frame(0, &[9])))));
                            }
                            frames.push(Ok(http_body::Frame::trailers(t)));
                            let body = http_body_util::StreamBody::new(tokio_stream::iter(frames));
                            let mut b = http::Response::builder().status(200).header("content-type", "application/grpc");
                            if layout == 1 {
                                b = b.header("content-length", "0");
                            }
                            Ok::<_, std::convert::Infallible>(b.body(body).unwrap())
                        }
                    });
                    let _ = hyper::server::conn::http2::Builder::new(hyper_util::rt::TokioExecutor::new()).serve_connection(hyper_util::rt::TokioIo::new(io), svc).await;
                });
            }
        });
        let horizon = std::time::Duration::from_secs(3600);
        let chn = match vnet::within(horizon, tonic::transport::Endpoint::from_static("http://c04.test:1").connect_with_connector(vnet::connector(st))).await {
            Some(Ok(c)) => c,
            other => return (0, Err(format!("connect: {:?}", other.map(|r| r.map(|_| ()).map_err(|e| e.to_string()))))),
        };
        let mut client = EchoClient::new(chn);
        if c.streaming_caller {
            match vnet::within(horizon, client.server_stream(tonic::Request::new(vec![1]))).await {
                None => (0, Err("the call hung".into())),
                Some(Err(e)) => (0, Ok(Some(e))),
                Some(Ok(resp)) => {
                    let mut s = resp.into_inner();
                    let mut n = 0;
                    loop {
                        match vnet::within(horizon, s.message()).await {
                            None => return (n, Err("the response stream hung".into())),
                            Some(Ok(Some(_))) => n += 1,
                            Some(Ok(None)) => return (n, Ok(None)),
                            Some(Err(e)) => return (n, Ok(Some(e))),
                        }
                    }
                }
            }
        } else {
            match vnet::within(horizon, client.unary(tonic::Request::new(vec![1]))).await {
                None => (0, Err("the call hung".into())),
                Some(Err(e)) => (0, Ok(Some(e))),
                Some(Ok(_)) => (1, Ok(None)),
            }
        }
    });
    drop(rt);
    let mut o = Outcome::new(format!("msgs={msgs} outcome={:?}", outcome.as_ref().map(|s| s.as_ref().map(fmt_status))));
    o.nontrivial = c.status.0 != 0;
    let (code, msg, details) = &c.status;
    match outcome {
        Err(e) => o.violate(if e.contains("hung") { "foreign-hang" } else { "foreign-transport" }, e),
        Ok(None) => {
            if *code != 0 {
                o.violate("foreign-status-lost", format!("the peer ended the call with {} {msg:?} (layout {}) but the caller saw success with {msgs} message(s)", code_name(*code), c.layout));
            }
        }
        Ok(Some(s)) => {
            if *code == 0 {
                // unary callers legitimately fail an OK call that carried no message (layouts 0/1)
                if c.layout == 2 {
                    o.violate("foreign-ok-as-error", format!("an OK call with a message came out as {}", fmt_status(&s)));
                }
            } else if code_num(s.code()) != *code || s.message() != *msg || s.details() != &details[..] {
                o.violate("foreign-status-changed", format!("the peer sent {} {msg:?} details {} (layout {}), the caller got {}", code_name(*code), hex(details), c.layout, fmt_status(&s)));
            }
        }
    }
    o
}

fn foreign_cases() -> Vec<ForeignCase> {
    let statuses: Vec<(i32, &'static str, Vec<u8>)> = vec![(5, "not found: x", vec![8, 8, 18, 3, 97, 255, 0]), (16, "", vec![]), (7, "100% no", vec![0xff]), (0, "", vec![])];
    let mut out = vec![];
    for layout in 0..3u8 {
        for status in &statuses {
            for streaming_caller in [false, true] {
                for chop in [0usize, 2] {
                    out.push(ForeignCase { layout, status: status.clone(), streaming_caller, chop });
                }
            }
        }
    }
    out
}

pub fn property(tier: Tier) -> Property {
    let cfg = Config { max_bound: 0, panic_key: "panic", hang_secs: 60, ..Default::default() };

    let t = Arc::new(RtTables { msgs: messages(tier), mds: metadata_menu(tier) });
    let rt_list = rt_cases(tier, &t);
    let (t1, t2) = (t.clone(), t.clone());
    let roundtrip = Section::new(
        "roundtrip",
        cfg.clone(),
        "cases: (A) every message of the menu (\"\", every ASCII char 00-7F, every ordered pair [thorough: triple] over a 20-char class menu of controls/space/%/\"#<>?`{}/DEL/letters/hex digits, %-followed-by-hex literals, 16 multi-byte scalars alone and next to each class char, lengths 3..64 [thorough ..8191]) x all 17 codes; (B) every details byte string of length <= 2 (65 793), every string of length 3..=6 [thorough 3..=7] over {00,3e,3f,7f,80,ff}, every length 8..=70 and 255/256/257/1000 x 3 fill patterns; (C) 17 codes x 8 messages x 8 details x every metadata map of the menu (ascii/binary/repeated/interleaved keys, all six reserved names forged). Each status is written with add_header and with into_http; the raw header bytes are judged by hand-written percent/base64 decoders and must be legal field values, then from_header_map must return an equal status (code, message, details, sanitized metadata in per-key order; content-type of into_http ignored); the into_http response is also handed to the real client (client::Grpc::server_streaming -> create_response), once with a body that is already at its end and once with a body whose end of stream arrives separately (a peer closing the stream with an empty DATA frame), and the error it returns must equal the original status (OK: successful response, clean end); every non-OK status is also delivered to a UNARY caller in the trailers that follow already-sent response headers, and the caller's error must again equal it. Non-trivial = message has a byte that must be percent-encoded, or details non-empty, or metadata non-empty",
        rt_list,
        move |c: &RtCase| {
            format!(
                "code={} msg={:?} details={} metadata={:?}",
                code_name(c.code as i32),
                crate::explore::truncate(&t1.msgs[c.msg as usize], 200),
                crate::explore::truncate(&hex(&c.details), 200),
                t1.mds[c.md as usize].iter().map(|e| format!("{}={}", e.name, hex(&e.value))).collect::<Vec<_>>()
            )
        },
        move |c: &RtCase, _ch: &Chooser| rt_body(c, &t2),
    )
    .mins(tier.q(100_000, 500_000), 10_000, 10_000);

    let totality = Section::new(
        "totality",
        cfg.clone(),
        "cases: header maps with grpc-status from {absent, \"0\"..\"16\", 17, 99, -1, \"\", 00, 01, 016, \"1 \", \" 1\", 0x1, +1, 1.0, non-ASCII digits, 0xff, 300 digits, 2^8/2^31/2^32/2^64 wrap-arounds, repeated lines} x grpc-message from {absent, valid escapes, %, %4, %G1, %%, 100%, bad UTF-8, raw obs-text, ...} x grpc-status-details-bin from {absent, padded, unpadded, non-canonical trailing bits, length 1 mod 4, incomplete/mid/excess padding, bad alphabet, url-safe alphabet, whitespace} x 4 sets of other headers; plus every raw grpc-message of length <= 3 [5] over {%,4,1,G,a,c3,a9}, every raw details value of length <= 4 [6] over {A,Q,/,=,!,-}, every grpc-status of length <= 2 [3] over {0,1,6,7,9,-,+,space,x}. Each map is read by Status::from_header_map and as the trailers of a 200 response by Streaming. Oracle: no panic; a present grpc-status gives Some; canonical code -> that code, malformed/out-of-range -> UNKNOWN; decodable fields equal the hand-decoded values; an undecodable field must not be reported as success. Non-trivial = malformed code or a field the strict decoders refuse",
        tot_cases(tier),
        |c: &TotCase| format!("[{}]", fmt_headers(&tot_headers(c))),
        tot_body,
    )
    .mins(tier.q(20_000, 100_000), 100, 1000);

    let http = Section::new(
        "http-table",
        cfg.clone(),
        "cases: every HTTP status 100..=599 x trailers {no frame, empty frame, trailers without grpc-status, grpc-status 5 + message, grpc-status 0} [thorough: x {empty body, one message}] through Streaming::new_response polled to its first terminal item. Oracle: without grpc-status and status != 200 the error code equals the transcribed http-grpc-status-mapping table; with grpc-status 5 the error is NOT_FOUND with the decoded message whatever the HTTP status. Non-trivial = no grpc-status and HTTP status != 200",
        http_cases(tier),
        |c: &HttpCase| format!("http={} trailers={:?} with_message={}", c.http, c.trl, c.with_message),
        http_body,
    )
    .mins(2500, 8, 1400);

    let foreign = Section::new(
        "foreign-server",
        Config { hang_secs: 60, ..Default::default() },
        "cases: a bare hyper HTTP/2 server (not tonic) answers a call made through the real Channel (in-memory pipes, virtual time, 2 fragmentation patterns) with response headers and then a status in trailers, in three layouts — headers + trailers; headers carrying content-length: 0 + trailers; headers + one message + trailers — x status {NOT_FOUND with message and binary details, UNAUTHENTICATED bare, PERMISSION_DENIED with '%' and details, OK} x {unary caller, server-streaming caller}. Oracle: a non-OK status reaches the caller as the call's (or the stream's) error with equal code, message and details, whatever preceded it; an OK call with a message succeeds. Non-trivial = non-OK status.",
        foreign_cases(),
        |c: &ForeignCase| format!("{c:?}"),
        foreign_body,
    )
    .mins(40, 3, 30);
    let h2 = Section::new(
        "h2-table",
        cfg,
        "cases: HTTP/2 error codes 0..=13, 14, 15, 16, 255, 256, 2^31-1, 2^31, 2^32-1 [thorough: 0..=255 and every power of two] x {From<h2::Error> for Status, Status::from_error(Box), Status::try_from_error(Box), a response stream (Streaming::new_response) whose body is reset with that code between messages / 3 bytes into a prefix / 2 bytes into a payload / right after a complete message}. Oracle: PROTOCOL-HTTP2.md error table (STREAM_CLOSED, HTTP_1_1_REQUIRED and unknown codes unconstrained: no panic only). Non-trivial = the table constrains the code",
        h2_cases(tier),
        |c: &H2Case| format!("reason={} via {:?}", h2_name(c.reason), c.path),
        h2_body,
    )
    .mins(60, 5, 36);

    Property {
        id: "C04",
        level: "exploration",
        hang_is_violation: false,
        assumptions: vec![
            "messages, details, metadata and header values outside the stated menus are not covered (small-scope: one value per branch of the percent-encoding set, every length mod 3 for base64)".into(),
            "custom metadata named grpc-* other than the reserved names (e.g. a user key grpc-status-details-bin) is outside the alphabet".into(),
            "into_http path: the response's own content-type header is ignored when comparing the read-back metadata".into(),
            "h2 errors are constructed from a Reason (library/reset/go-away origins are indistinguishable to code_from_h2); hyper::Error wrappers cannot be constructed outside hyper and are not covered".into(),
            "grpc-status values with leading zeros (e.g. 016) may be read numerically or as UNKNOWN".into(),
        ],
        sections: vec![roundtrip, totality, http, h2, foreign],
        extra: Default::default(),
    }
}
