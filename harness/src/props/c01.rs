//! C01 — message streams survive encode/decode unchanged under any chunking.

use super::codec_common::*;
use crate::env::{collect_body, fmt_headers, fmt_status, hex, Chunking, Collected, Item, ScriptBody, ScriptStream};
use crate::explore::{Chooser, Config, Outcome};
use crate::oracle::comp::{self, Enc};
use crate::oracle::wire;
use crate::report::{Property, Section, Tier};
use http::{HeaderMap, HeaderValue, StatusCode};
use std::pin::Pin;
use std::task::{Context, Poll, Waker};
use tokio_stream::Stream;
use tonic::codec::{BufferSettings, Codec, EncodeBody, ProstCodec, Streaming};

#[derive(Clone, Copy, Debug, PartialEq, Eq)]
enum Role {
    Client,
    Server,
}

#[derive(Clone, Debug)]
struct EncCase {
    prost: bool,
    settings: (usize, usize),
    msgs: Vec<Vec<u8>>,
    enc: Option<Enc>,
    role: Role,
}

fn settings_menu() -> Vec<(usize, usize)> {
    vec![(4, 8), (8, 16), (8 * 1024, 32 * 1024)]
}

fn message_sequences(tier: Tier) -> Vec<Vec<Vec<u8>>> {
    let sizes: Vec<usize> = vec![0, 1, 3, 9, 40];
    let mut pool: Vec<Vec<u8>> = vec![];
    for (i, s) in sizes.iter().enumerate() {
        pool.push(payload(*s, (i % 2) as u8));
    }
    let mut seqs: Vec<Vec<Vec<u8>>> = vec![vec![]];
    let maxlen = tier.q(2, 3);
    let mut frontier: Vec<Vec<Vec<u8>>> = vec![vec![]];
    for _ in 0..maxlen {
        let mut next = vec![];
        for s in &frontier {
            for p in &pool {
                let mut t = s.clone();
                t.push(p.clone());
                next.push(t);
            }
        }
        seqs.extend(next.iter().cloned());
        frontier = next;
    }
    if tier == Tier::Quick {
        // a few length-3 sequences as well
        seqs.push(vec![pool[1].clone(), pool[0].clone(), pool[3].clone()]);
        seqs.push(vec![pool[4].clone(), pool[2].clone(), pool[1].clone()]);
        seqs.push(vec![pool[3].clone(), pool[3].clone(), pool[3].clone()]);
    }
    // default-settings sequences crossing 8 KiB / 32 KiB
    seqs.push(vec![payload(9000, 1), payload(5, 0)]);
    seqs.push(vec![payload(20000, 0), payload(13000, 1), payload(7, 1)]);
    // poorly compressible messages whose compressed form exceeds the (de)compressors' internal
    // buffers (32 KiB for gzip/deflate, 128 KiB for zstd)
    seqs.push(vec![payload(70_000, 1)]);
    seqs.push(vec![payload(3, 0), payload(150_000, 1), payload(1, 1)]);
    seqs
}

fn ser(prost: bool, seed: &[u8]) -> Vec<u8> {
    if prost {
        pmsg_wire(&PMsg::from_seed(seed))
    } else {
        seed.to_vec()
    }
}

/// Run tonic's encoder over the message list. `pending`: the source may answer Pending.
fn encode(c: &EncCase, settings: (usize, usize), pending: bool, ch: &Chooser) -> Collected {
    let bs = BufferSettings::new(settings.0, settings.1);
    let enc = c.enc.map(tonic_enc);
    // uncompressed streams are encoded under a send limit that every single message respects (the
    // longest one + 8) but that two messages batched together exceed: the limit is per message
    let limit: Option<usize> = if c.enc.is_none() { c.msgs.iter().map(|m| ser(c.prost, m).len()).max().map(|l| l + 8) } else { None };
    if c.prost {
        let items: Vec<Item<PMsg>> = c.msgs.iter().map(|m| Item::Msg(PMsg::from_seed(m))).collect();
        let src = ScriptStream::new(items, pending, ch);
        let e = ProstCodec::<PMsg, PMsg>::raw_encoder(bs);
        match c.role {
            Role::Client => collect_body(EncodeBody::new_client(e, src, enc, limit), 10_000),
            Role::Server => collect_body(EncodeBody::new_server(e, src, enc, Default::default(), limit), 10_000),
        }
    } else {
        let items: Vec<Item<Vec<u8>>> = c.msgs.iter().map(|m| Item::Msg(m.clone())).collect();
        let src = ScriptStream::new(items, pending, ch);
        let e = RawCodec::new(bs).encoder();
        match c.role {
            Role::Client => collect_body(EncodeBody::new_client(e, src, enc, limit), 10_000),
            Role::Server => collect_body(EncodeBody::new_server(e, src, enc, Default::default(), limit), 10_000),
        }
    }
}

fn check_wire(o: &mut Outcome, c: &EncCase, bytes: &[u8]) {
    let (frames, end) = wire::parse_frames(bytes, &[0, 1]);
    if end != wire::ParseEnd::Clean {
        o.violate("wire-malformed", format!("independent parser: {end:?} on {}", crate::explore::truncate(&hex(bytes), 200)));
        return;
    }
    if frames.len() != c.msgs.len() {
        o.violate("wire-count", format!("{} frames for {} messages", frames.len(), c.msgs.len()));
        return;
    }
    for (i, (f, m)) in frames.iter().zip(&c.msgs).enumerate() {
        let want_flag = c.enc.is_some() as u8;
        if f.flag != want_flag {
            o.violate("wire-flag", format!("frame {i} has flag {} with encoding {}", f.flag, enc_name(c.enc)));
        }
        let payload = if f.flag == 1 {
            match c.enc.map(|e| comp::decompress(e, &f.payload)) {
                Some(Ok(p)) => p,
                other => {
                    o.violate("wire-compression", format!("frame {i} does not decompress as {}: {other:?}", enc_name(c.enc)));
                    continue;
                }
            }
        } else {
            f.payload.clone()
        };
        if payload != ser(c.prost, m) {
            o.violate("wire-payload", format!("frame {i} payload differs from the message's serialisation"));
        }
    }
}

fn enc_body(c: &EncCase, ch: &Chooser) -> Outcome {
    let got = encode(c, c.settings, true, ch);
    // reference run: same messages, source always ready, default buffer settings
    let reference = encode(c, (8 * 1024, 32 * 1024), false, ch);
    let bytes = got.bytes();
    let mut o = Outcome::new(format!(
        "order={} frames={:?} pendings={} bytes={}",
        got.order,
        got.frames.iter().map(|f| f.len()).collect::<Vec<_>>(),
        got.pendings,
        crate::explore::fnv_hex(&hex(&bytes))
    ));
    o.nontrivial = got.pendings > 0 || got.frames.len() > 1;
    if got.stalled || reference.stalled {
        o.violate("encode-stall", "encoder body did not finish");
        return o;
    }
    if let Some(e) = &got.error {
        o.violate("encode-error", format!("unexpected error {}", fmt_status(e)));
        return o;
    }
    if bytes != reference.bytes() {
        o.violate(
            "encode-nondeterministic",
            format!(
                "concatenated bytes depend on readiness/batching: got {} vs reference {}",
                crate::explore::truncate(&hex(&bytes), 160),
                crate::explore::truncate(&hex(&reference.bytes()), 160)
            ),
        );
    }
    if ch.has_flag(crate::env::SOURCE_POLLED_AFTER_END) {
        o.violate("source-polled-after-end", "the encoder polled its message source again after the source had returned None (a non-fused stream may panic or start over: the bytes would then depend on readiness)");
    }
    if got.frames.iter().any(|f| f.is_empty()) {
        o.violate("encode-empty-frame", "an empty DATA frame was produced");
    }
    match c.role {
        Role::Client => {
            if !got.trailers.is_empty() {
                o.violate("client-trailers", "client body produced trailers");
            }
        }
        Role::Server => {
            let want = format!("{}T", "D".repeat(got.frames.len()));
            if got.order != want || got.trailers.len() != 1 {
                o.violate("server-frame-order", format!("frame order {} (expected {want})", got.order));
            } else if got.trailers[0].get("grpc-status").map(|v| v.as_bytes()) != Some(b"0") {
                o.violate("server-trailers", format!("trailers {}", fmt_headers(&got.trailers[0])));
            }
        }
    }
    check_wire(&mut o, c, &bytes);
    o
}

// ---------------------------------------------------------------------------------------------

#[derive(Clone, Debug)]
struct DecCase {
    enc_case: EncCase,
    response: bool,
    free: bool,
    drip: bool,
    /// fixed cyclic chunk lengths (big streams)
    fixed: Option<Vec<usize>>,
    /// every DATA frame is handed over as a Buf of this many non-contiguous segments
    segments: usize,
}

/// Returns (messages and the first error in order, number of `None`s seen, stalled?, number of
/// messages that arrived only AFTER a `None`).
fn drive<T>(mut s: Streaming<T>, ser: impl Fn(&T) -> Vec<u8>) -> (Vec<Result<Vec<u8>, String>>, u32, bool) {
    let (waker, wakes) = crate::env::counting_waker();
    let mut cx = Context::from_waker(&waker);
    let mut out = vec![];
    let mut ends = 0;
    let mut polls = 0;
    loop {
        polls += 1;
        if polls > 100_000 {
            return (out, ends, true);
        }
        let before = wakes.0.load(std::sync::atomic::Ordering::SeqCst);
        match Pin::new(&mut s).poll_next(&mut cx) {
            // `Pending` without a wake-up: nothing would ever poll this stream again (every scripted
            // body wakes its caller before it answers `Pending`)
            Poll::Pending if wakes.0.load(std::sync::atomic::Ordering::SeqCst) == before => return (out, ends, true),
            Poll::Pending => continue,
            Poll::Ready(Some(Ok(m))) => {
                if ends > 0 {
                    // a message after the stream had reported its end: the end was premature
                    out.push(Err(format!("message of {} bytes yielded after the stream had already returned None", ser(&m).len())));
                    return (out, ends, false);
                }
                out.push(Ok(ser(&m)))
            }
            Poll::Ready(Some(Err(e))) => {
                out.push(Err(fmt_status(&e)));
                return (out, ends, false);
            }
            Poll::Ready(None) => {
                ends += 1;
                if ends >= 3 {
                    return (out, ends, false);
                }
            }
        }
    }
}

fn dec_body(c: &DecCase, ch: &Chooser) -> Outcome {
    let e = &c.enc_case;
    let wire_bytes = encode(e, e.settings, false, ch).bytes();
    let (frames, _) = wire::parse_frames(&wire_bytes, &[0, 1]);
    let marks = wire::interior_offsets(&frames);
    let chunking = if let Some(f) = &c.fixed {
        Chunking::Fixed(f.clone())
    } else if c.drip {
        Chunking::Fixed(vec![1])
    } else {
        // exhaustive-composition cases take no Pending/empty-frame deviations (they would multiply
        // the 2^(n-1) compositions by every placement); those are explored in the bounded cases
        Chunking::Choose { free: c.free, pending: !c.free, empty: !c.free }
    };
    let trailers = if c.response {
        let mut h = HeaderMap::new();
        h.insert("grpc-status", HeaderValue::from_static("0"));
        Some(h)
    } else {
        None
    };
    let sb = ScriptBody::new(wire_bytes.clone(), trailers, chunking, ch).with_marks(marks);
    let stats = sb.stats();
    let sb = crate::env::Segmented { inner: sb, segments: c.segments };
    let enc = e.enc.map(tonic_enc);
    let bs = BufferSettings::new(e.settings.0, e.settings.1);
    let (got, ends, stalled) = if e.prost {
        let d = ProstCodec::<PMsg, PMsg>::raw_decoder(bs);
        let s = if c.response {
            Streaming::new_response(d, sb, StatusCode::OK, enc, None)
        } else {
            Streaming::new_request(d, sb, enc, None)
        };
        drive(s, pmsg_wire)
    } else {
        let d = RawCodec::new(bs).decoder();
        let s = if c.response {
            Streaming::new_response(d, sb, StatusCode::OK, enc, None)
        } else {
            Streaming::new_request(d, sb, enc, None)
        };
        drive(s, |m: &Vec<u8>| m.clone())
    };
    let mut o = Outcome::new(format!(
        "msgs={:?} ends={ends} frames={}",
        got.iter().map(|r| r.as_ref().map(|m| m.len()).map_err(|e| e.clone())).collect::<Vec<_>>(),
        stats.frames.load(std::sync::atomic::Ordering::Relaxed)
    ));
    o.nontrivial = stats.cuts_inside.load(std::sync::atomic::Ordering::Relaxed) > 0;
    if stalled {
        o.violate("decode-stall", "decoder did not finish");
        return o;
    }
    let want: Vec<Vec<u8>> = e.msgs.iter().map(|m| ser(e.prost, m)).collect();
    let got_ok: Vec<Vec<u8>> = got.iter().filter_map(|r| r.clone().ok()).collect();
    if let Some(Err(err)) = got.last() {
        let key = if err.contains("already returned None") { "decode-premature-end" } else { "decode-error" };
        o.violate(key, format!("decoder failed on a valid stream after {} messages: {err}", got_ok.len()));
        return o;
    }
    if got_ok != want {
        o.violate(
            "decode-mismatch",
            format!("decoded {} messages {:?}, expected {} messages {:?}", got_ok.len(), got_ok.iter().map(|m| crate::explore::truncate(&hex(m), 48)).collect::<Vec<_>>(), want.len(), want.iter().map(|m| crate::explore::truncate(&hex(m), 48)).collect::<Vec<_>>()),
        );
    }
    if ends < 3 {
        o.violate("decode-end-not-stable", "stream did not keep returning None after its clean end");
    }
    o
}

pub fn property(tier: Tier) -> Property {
    let seqs = message_sequences(tier);
    let mut enc_cases = vec![];
    for prost in [false, true] {
        for (si, msgs) in seqs.iter().enumerate() {
            let big = msgs.iter().any(|m| m.len() > 100);
            for settings in settings_menu() {
                if big && settings.0 < 1024 {
                    continue;
                }
                for enc in ENC_OPTS {
                    for role in [Role::Client, Role::Server] {
                        if tier == Tier::Quick && prost && si % 3 != 0 {
                            continue;
                        }
                        enc_cases.push(EncCase { prost, settings, msgs: msgs.clone(), enc, role });
                    }
                }
            }
        }
    }
    let enc_sec = Section::new(
        "encode",
        Config { max_bound: 5, ..Default::default() },
        "cases: message sequences (0..=3 messages over sizes {0,1,3,9,40} + two sequences crossing 8/32 KiB) x codec {raw, prost} x buffer settings {(4,8),(8,16),default} x encoding {identity,gzip,deflate,zstd} x role (identity streams under a send limit of the longest message + 8 bytes, which no message but every batch of two exceeds); environment: the source answers Pending before any item or the end (every pattern: bound 5 >= number of points); oracle: bytes identical to the always-ready default-settings run, independent frame parser + decompressor recover the serialisations. Non-trivial = at least one Pending taken or more than one DATA frame produced.",
        enc_cases.clone(),
        |c: &EncCase| format!("prost={} settings={:?} msgs={:?} enc={} role={:?}", c.prost, c.settings, c.msgs.iter().map(|m| m.len()).collect::<Vec<_>>(), enc_name(c.enc), c.role),
        enc_body,
    )
    .mins(1000, 10, 100);

    // decode side
    let free_limit = tier.q(14, 20);
    let mut dec_cases = vec![];
    for c in &enc_cases {
        if c.role == Role::Server {
            continue; // same bytes as the client role
        }
        let big = c.msgs.iter().any(|m| m.len() > 100);
        if c.settings == (8, 16) && tier == Tier::Quick {
            continue;
        }
        let approx_len: usize = c.msgs.iter().map(|m| 5 + ser(c.prost, m).len()).sum();
        for response in [false, true] {
            if big {
                // too long for chosen cuts at bound>1: drip + bound-limited single cuts are
                // covered by a dedicated case below
                dec_cases.push(DecCase { enc_case: c.clone(), response, free: false, drip: true, fixed: None, segments: 1 });
                dec_cases.push(DecCase { enc_case: c.clone(), response, free: false, drip: false, fixed: Some(vec![]), segments: 1 });
                dec_cases.push(DecCase { enc_case: c.clone(), response, free: false, drip: false, fixed: Some(vec![3, 16384, 1, 5000]), segments: 1 });
                continue;
            }
            // non-contiguous DATA buffers: the whole body as one frame of 2 / 3 segments, and 7-byte frames of 2
            for (fixed, segments) in [(vec![], 2), (vec![], 3), (vec![7], 2)] {
                dec_cases.push(DecCase { enc_case: c.clone(), response, free: false, drip: false, fixed: Some(fixed), segments });
            }
            let free = c.enc.is_none() && approx_len <= free_limit;
            dec_cases.push(DecCase { enc_case: c.clone(), response, free, drip: false, fixed: None, segments: 1 });
            dec_cases.push(DecCase { enc_case: c.clone(), response, free: false, drip: true, fixed: None, segments: 1 });
        }
    }
    // a compressed message whose plain length is exactly the default receive limit (4 MiB), whole
    // and in 16 KiB frames
    for enc in ENC_OPTS {
        if enc.is_none() {
            continue;
        }
        let c = EncCase { prost: false, settings: (8 * 1024, 32 * 1024), msgs: vec![vec![0u8; 4 * 1024 * 1024], payload(3, 1)], enc, role: Role::Client };
        for response in [false, true] {
            dec_cases.push(DecCase { enc_case: c.clone(), response, free: false, drip: false, fixed: Some(vec![]), segments: 1 });
            dec_cases.push(DecCase { enc_case: c.clone(), response, free: false, drip: false, fixed: Some(vec![16384]), segments: 1 });
        }
    }
    // long runs of small messages (counters and "every N messages" thresholds in the decoder): 200
    // (thorough 1500) messages of 0 / 1 / 3 bytes as one DATA frame, in blocks, and dripped
    for enc in [None, ENC_OPTS[1]] {
        let n = tier.q(200usize, 1500usize);
        let msgs: Vec<Vec<u8>> = (0..n).map(|i| payload([0usize, 1, 3][i % 3], (i % 5) as u8)).collect();
        let c = EncCase { prost: false, settings: (8 * 1024, 32 * 1024), msgs, enc, role: Role::Client };
        for response in [false, true] {
            dec_cases.push(DecCase { enc_case: c.clone(), response, free: false, drip: false, fixed: Some(vec![]), segments: 1 });
            dec_cases.push(DecCase { enc_case: c.clone(), response, free: false, drip: false, fixed: Some(vec![16384]), segments: 1 });
            dec_cases.push(DecCase { enc_case: c.clone(), response, free: false, drip: false, fixed: Some(vec![97, 640]), segments: 1 });
            dec_cases.push(DecCase { enc_case: c.clone(), response, free: false, drip: true, fixed: None, segments: 1 });
        }
    }
    // streams longer than 72 wire bytes get one deviation less (the number of chunkings with k cuts
    // grows as len^k); every single cut position is still covered for them
    let long_threshold = tier.q(72usize, 40usize);
    let (dec_cases, long_cases): (Vec<DecCase>, Vec<DecCase>) = dec_cases.into_iter().partition(|c| {
        let len: usize = c
            .enc_case
            .msgs
            .iter()
            .map(|m| {
                let s = ser(c.enc_case.prost, m);
                5 + c.enc_case.enc.map(|e| comp::compress(e, &s).len()).unwrap_or(s.len())
            })
            .sum();
        c.drip || c.free || c.fixed.is_some() || len <= long_threshold
    });
    let long_sec = Section::new(
        "decode-long",
        Config { max_bound: tier.q(1, 2), ..Default::default() },
        "as section decode, for streams longer than 72 (quick) / 40 (thorough) wire bytes: every chunking with <= bound cuts / Pending / empty-frame deviations (bound one less than for short streams). Non-trivial = at least one chunk boundary fell strictly inside a frame.",
        long_cases,
        |c: &DecCase| format!("prost={} settings={:?} msgs={:?} enc={} response={} free={} drip={} fixed={:?} segments={}", c.enc_case.prost, c.enc_case.settings, c.enc_case.msgs.iter().map(|m| m.len()).collect::<Vec<_>>(), enc_name(c.enc_case.enc), c.response, c.free, c.drip, c.fixed, c.segments),
        dec_body,
    )
    .mins(500, 5, 100);
    let dec_sec = Section::new(
        "decode",
        Config { max_bound: tier.q(2, 3), ..Default::default() },
        "cases: the wire bytes tonic's encoder produced for each encode case, fed to Streaming::new_request / new_response(200, grpc-status 0); environment: the body chooses the length of every DATA frame — every composition (cuts cost 0) for identity streams <= 14 (quick) / 20 (thorough) bytes, otherwise every chunking with <= bound cuts — plus Pending and empty DATA frames as deviations, plus byte-by-byte drip, plus a compressed message of exactly 4 MiB (the default receive limit), plus DATA frames handed over as non-contiguous buffers (a Buf of 2 or 3 segments per frame); oracle: decoded messages == originals in order, then None three times. Non-trivial = at least one chunk boundary fell strictly inside a frame (prefix or payload).",
        dec_cases,
        |c: &DecCase| format!("prost={} settings={:?} msgs={:?} enc={} response={} free={} drip={} fixed={:?} segments={}", c.enc_case.prost, c.enc_case.settings, c.enc_case.msgs.iter().map(|m| m.len()).collect::<Vec<_>>(), enc_name(c.enc_case.enc), c.response, c.free, c.drip, c.fixed, c.segments),
        dec_body,
    )
    .mins(1000, 10, 100);

    Property {
        id: "C01",
        level: "model_checking",
        hang_is_violation: false,
        assumptions: vec![
            "payload values matter only to the compressors; covered by two byte patterns x sizes, not all bytes".into(),
            "flate2/zstd used directly as the reference (de)compressors".into(),
        ],
        sections: vec![enc_sec, dec_sec, long_sec],
        extra: Default::default(),
    }
}
