//! C19 — reflection resolves every registered symbol and file, and nothing else.
//!
//! E: descriptor sets from a small grammar (1..=2 files; package none / `p` / `p.q`; message
//!    forests with nesting; fields, oneofs, top-level and nested enums, services with methods;
//!    names from {A,B,a,b} so prefix and case relations occur), every way of registering them
//!    (decoded, encoded, twice, split over sets), `with_service_name` on/off,
//!    `include_reflection_service` on/off. Plus a few real descriptor sets shipped with tonic.
//! O: `oracle::fqn` computes the declared names independently; every declared name, every file
//!    name, `list_services` and a family of mutated (undeclared) names are sent through the
//!    *generated* v1 and v1alpha clients to the *real* services built by
//!    `tonic_reflection::server::Builder`, in-process on a paused current-thread runtime (the
//!    reflection handler `tokio::spawn`s its responder).

use crate::explore::{machinery, Chooser, Config, Outcome};
use crate::oracle::fqn::{self, Kind};
use crate::report::{Property, Section, Tier};
use prost::Message;
use prost_types::{
    DescriptorProto, EnumDescriptorProto, EnumValueDescriptorProto, FieldDescriptorProto, FileDescriptorProto,
    FileDescriptorSet, MethodDescriptorProto, OneofDescriptorProto, ServiceDescriptorProto,
};
use std::collections::{BTreeMap, BTreeSet, HashMap, HashSet};
use tonic_reflection::server::Builder;

// ---------------------------------------------------------------------------------------------
// protocol constants, transcribed from grpc/grpc-proto (`grpc/reflection/v1/reflection.proto` and
// `grpc/reflection/v1alpha/reflection.proto`), not read from tonic
// ---------------------------------------------------------------------------------------------

const REFL_V1: &str = "grpc.reflection.v1.ServerReflection";
const REFL_V1ALPHA: &str = "grpc.reflection.v1alpha.ServerReflection";
const REFL_METHOD: &str = "ServerReflectionInfo";
const NOT_FOUND: i32 = 5;

#[derive(Clone, Copy, Debug, PartialEq, Eq)]
enum Ver {
    V1,
    V1Alpha,
}

impl Ver {
    fn name(&self) -> &'static str {
        match self {
            Ver::V1 => "v1",
            Ver::V1Alpha => "v1alpha",
        }
    }
    fn service(&self) -> &'static str {
        match self {
            Ver::V1 => REFL_V1,
            Ver::V1Alpha => REFL_V1ALPHA,
        }
    }
    fn other(&self) -> Ver {
        match self {
            Ver::V1 => Ver::V1Alpha,
            Ver::V1Alpha => Ver::V1,
        }
    }
    /// The descriptor set `include_reflection_service(true)` is documented to serve.
    fn own_files(&self) -> &'static [FileDescriptorProto] {
        static V1: std::sync::OnceLock<Vec<FileDescriptorProto>> = std::sync::OnceLock::new();
        static V1A: std::sync::OnceLock<Vec<FileDescriptorProto>> = std::sync::OnceLock::new();
        let (cell, bytes) = match self {
            Ver::V1 => (&V1, tonic_reflection::pb::v1::FILE_DESCRIPTOR_SET),
            Ver::V1Alpha => (&V1A, tonic_reflection::pb::v1alpha::FILE_DESCRIPTOR_SET),
        };
        cell.get_or_init(|| FileDescriptorSet::decode(bytes).unwrap_or_else(|e| machinery(format!("reflection descriptor set of {} does not decode: {e}", self.name()))).file)
    }
}

// ---------------------------------------------------------------------------------------------
// neutral query / answer types and the two generated-client drivers
// ---------------------------------------------------------------------------------------------

#[derive(Clone, Debug, PartialEq, Eq, Hash)]
pub enum Q {
    Symbol(String),
    File(String),
    List,
}

impl Q {
    fn show(&self) -> String {
        match self {
            Q::Symbol(s) => format!("symbol({s:?})"),
            Q::File(s) => format!("file({s:?})"),
            Q::List => "list_services".into(),
        }
    }
}

#[derive(Clone, Debug, PartialEq, Eq)]
pub enum Ans {
    Files(Vec<Vec<u8>>),
    Services(Vec<String>),
    /// error carried inside the stream message (`ErrorResponse`)
    ErrResp(i32, String),
    /// error carried as the gRPC status that ended the stream
    Status(i32, String),
    Other(String),
    /// no response at all for this query
    Missing,
}

#[derive(Clone, Debug, Default)]
pub struct Transcript {
    pub answers: Vec<Ans>,
    /// RPCs opened (a stream that ends with a status is re-opened for the remaining queries)
    pub calls: u32,
    /// queries whose stream ended *cleanly* before they were answered
    pub ended_early: Vec<usize>,
    /// responses whose `original_request` is not the request they answer
    pub echo_mismatch: u32,
    pub extra_responses: u32,
}

macro_rules! driver {
    ($name:ident, $ver:ident) => {
        mod $name {
            use super::{Ans, Transcript, Q};
            use tonic_reflection::pb::$ver::{
                server_reflection_client::ServerReflectionClient,
                server_reflection_request::MessageRequest,
                server_reflection_response::MessageResponse,
                server_reflection_server::{ServerReflection, ServerReflectionServer},
                ServerReflectionRequest,
            };

            fn to_req(q: &Q) -> ServerReflectionRequest {
                ServerReflectionRequest {
                    host: "h".into(),
                    message_request: Some(match q {
                        Q::Symbol(s) => MessageRequest::FileContainingSymbol(s.clone()),
                        Q::File(s) => MessageRequest::FileByFilename(s.clone()),
                        Q::List => MessageRequest::ListServices(String::new()),
                    }),
                }
            }

            /// Ask every query, in order, through the generated client wired straight to the
            /// generated server. All queries go into one bidirectional stream; when a stream is
            /// ended by a status, that status is the answer to the first unanswered query and a
            /// new stream is opened for the rest.
            pub async fn ask<T: ServerReflection>(svc: ServerReflectionServer<T>, qs: &[Q]) -> Transcript {
                let mut client = ServerReflectionClient::new(svc);
                let mut t = Transcript { answers: vec![Ans::Missing; qs.len()], ..Default::default() };
                let mut start = 0usize;
                while start < qs.len() {
                    t.calls += 1;
                    let reqs: Vec<ServerReflectionRequest> = qs[start..].iter().map(to_req).collect();
                    let sent = reqs.clone();
                    let mut i = start;
                    match client.server_reflection_info(tokio_stream::iter(reqs)).await {
                        Err(st) => {
                            t.answers[i] = Ans::Status(st.code() as i32, format!("(call refused) {}", st.message()));
                            i += 1;
                        }
                        Ok(resp) => {
                            let mut s = resp.into_inner();
                            loop {
                                match s.message().await {
                                    Ok(Some(m)) => {
                                        if i >= qs.len() {
                                            t.extra_responses += 1;
                                            continue;
                                        }
                                        if m.original_request.as_ref() != Some(&sent[i - start]) {
                                            t.echo_mismatch += 1;
                                        }
                                        t.answers[i] = match m.message_response {
                                            None => Ans::Other("response without message_response".into()),
                                            Some(MessageResponse::FileDescriptorResponse(f)) => Ans::Files(f.file_descriptor_proto),
                                            Some(MessageResponse::ListServicesResponse(l)) => Ans::Services(l.service.into_iter().map(|s| s.name).collect()),
                                            Some(MessageResponse::ErrorResponse(e)) => Ans::ErrResp(e.error_code, e.error_message),
                                            Some(MessageResponse::AllExtensionNumbersResponse(_)) => Ans::Other("all_extension_numbers_response".into()),
                                        };
                                        i += 1;
                                    }
                                    Ok(None) => {
                                        if i < qs.len() {
                                            // clean end with queries outstanding: the first of them got no answer
                                            t.ended_early.push(i);
                                            i += 1;
                                        }
                                        break;
                                    }
                                    Err(st) => {
                                        if i < qs.len() {
                                            t.answers[i] = Ans::Status(st.code() as i32, st.message().to_string());
                                            i += 1;
                                        } else {
                                            t.extra_responses += 1;
                                        }
                                        break;
                                    }
                                }
                            }
                        }
                    }
                    start = i;
                }
                t
            }
        }
    };
}
driver!(drv_v1, v1);
driver!(drv_v1alpha, v1alpha);

// ---------------------------------------------------------------------------------------------
// cases
// ---------------------------------------------------------------------------------------------

#[derive(Clone, Debug)]
enum Step {
    /// `register_file_descriptor_set` with these files (indices into `Case::files`)
    Dec(Vec<usize>),
    /// `register_encoded_file_descriptor_set` with these files
    Enc(Vec<usize>),
}

#[derive(Clone)]
struct Case {
    /// distinct files
    files: Vec<FileDescriptorProto>,
    steps: Vec<Step>,
    /// `with_service_name` calls (None = never called)
    chosen: Option<Vec<String>>,
    include: bool,
    /// also ask the mutants of the reflection service's own names (they do not depend on the
    /// user's files, so only the real-descriptor cases and the empty file do this)
    refl_mutants: bool,
}

fn describe(c: &Case) -> String {
    let files: Vec<String> = c.files.iter().map(render_file).collect();
    let steps: Vec<String> = c
        .steps
        .iter()
        .map(|s| match s {
            Step::Dec(ix) => format!("decoded{ix:?}"),
            Step::Enc(ix) => format!("encoded{ix:?}"),
        })
        .collect();
    format!("files=[{}] register={} with_service_name={:?} include_reflection_service={}", files.join(" ; "), steps.join("+"), c.chosen, c.include)
}

fn render_enum(e: &EnumDescriptorProto) -> String {
    format!("enum {}{{{}}}", e.name(), e.value.iter().map(|v| v.name().to_string()).collect::<Vec<_>>().join(","))
}

fn render_msg(m: &DescriptorProto) -> String {
    let mut parts: Vec<String> = vec![];
    for f in &m.field {
        parts.push(match f.oneof_index {
            Some(i) => format!("field {} in oneof#{i}", f.name()),
            None => format!("field {}", f.name()),
        });
    }
    for o in &m.oneof_decl {
        parts.push(format!("oneof {}", o.name()));
    }
    for e in &m.enum_type {
        parts.push(render_enum(e));
    }
    for n in &m.nested_type {
        parts.push(render_msg(n));
    }
    format!("message {}{{{}}}", m.name(), parts.join(" "))
}

fn render_file(f: &FileDescriptorProto) -> String {
    let mut parts: Vec<String> = vec![];
    if f.package.is_some() {
        parts.push(format!("package {}", f.package()));
    }
    for d in &f.dependency {
        parts.push(format!("import {d:?}"));
    }
    // real descriptor sets are large: summarise them
    let n_decl = fqn::declared(f).len();
    if n_decl > 40 {
        parts.push(format!("<{n_decl} declarations>"));
    } else {
        for m in &f.message_type {
            parts.push(render_msg(m));
        }
        for e in &f.enum_type {
            parts.push(render_enum(e));
        }
        for s in &f.service {
            parts.push(format!("service {}{{{}}}", s.name(), s.method.iter().map(|m| m.name().to_string()).collect::<Vec<_>>().join(",")));
        }
    }
    format!("{:?}{{{}}}", f.name(), parts.join(" "))
}

// ----- the grammar ---------------------------------------------------------------------------

#[derive(Clone, Debug)]
struct MsgS {
    name: &'static str,
    nested: Vec<MsgS>,
}

fn m(name: &'static str, nested: Vec<MsgS>) -> MsgS {
    MsgS { name, nested }
}

#[derive(Clone, Copy, Debug, PartialEq)]
enum Members {
    None,
    /// every message has a plain field
    FieldAll(&'static str),
    /// every message has a oneof with one member field
    OneofAll { oneof: &'static str, field: &'static str },
    /// every message has a proto3 `optional` field: the field plus its synthetic oneof `_<field>`
    OptionalAll { field: &'static str, synthetic: &'static str },
    /// only the first message (pre-order) has a plain field and a oneof
    FirstOnly { field: &'static str, oneof: &'static str },
    /// only the last message (pre-order) has a plain field and a oneof
    LastOnly { field: &'static str, oneof: &'static str },
}

#[derive(Clone, Debug, PartialEq)]
enum EnumAt {
    None,
    Top(&'static str, Vec<&'static str>),
    /// nested in the first top-level message
    First(&'static str, Vec<&'static str>),
    /// nested in the deepest message (last one in pre-order among the deepest)
    Deepest(&'static str, Vec<&'static str>),
}

#[derive(Clone, Debug)]
struct FileSpec {
    pkg: Option<&'static str>,
    forest: Vec<MsgS>,
    mem: Members,
    en: EnumAt,
    svc: Option<(&'static str, Vec<&'static str>)>,
}

/// Name rotation used for the second file of a pair, so that two files of the same package do
/// not always collide: A->B, B->a, a->b, b->A.
fn rot(on: bool, s: &'static str) -> &'static str {
    if !on {
        return s;
    }
    match s {
        "A" => "B",
        "B" => "a",
        "a" => "b",
        "b" => "A",
        o => o,
    }
}

fn count_msgs(f: &[MsgS]) -> usize {
    f.iter().map(|x| 1 + count_msgs(&x.nested)).sum()
}

/// pre-order index of the deepest message (last among equally deep)
fn deepest_index(f: &[MsgS]) -> Option<usize> {
    fn walk(ms: &[MsgS], depth: usize, idx: &mut usize, best: &mut Option<(usize, usize)>) {
        for x in ms {
            let my = *idx;
            *idx += 1;
            if best.map_or(true, |(d, _)| depth >= d) {
                *best = Some((depth, my));
            }
            walk(&x.nested, depth + 1, idx, best);
        }
    }
    let mut best = None;
    let mut idx = 0;
    walk(f, 0, &mut idx, &mut best);
    best.map(|(_, i)| i)
}

impl FileSpec {
    /// A spec is degenerate (and skipped) when it asks for members or a nested enum but has no
    /// message to put them in — it would only repeat another spec.
    fn valid(&self) -> bool {
        if self.forest.is_empty() {
            return self.mem == Members::None && matches!(self.en, EnumAt::None | EnumAt::Top(..));
        }
        true
    }

    fn emit(&self, fname: &str, rotate: bool, import: Option<&FileDescriptorProto>) -> FileDescriptorProto {
        let total = count_msgs(&self.forest);
        let enum_idx = match &self.en {
            EnumAt::First(..) => Some(0),
            EnumAt::Deepest(..) => deepest_index(&self.forest),
            _ => None,
        };
        let mk_enum = |name: &'static str, values: &[&'static str]| EnumDescriptorProto {
            name: Some(rot(rotate, name).to_string()),
            value: values
                .iter()
                .enumerate()
                .map(|(i, v)| EnumValueDescriptorProto { name: Some(rot(rotate, v).to_string()), number: Some(i as i32), options: None })
                .collect(),
            ..Default::default()
        };
        let nested_enum: Option<EnumDescriptorProto> = match &self.en {
            EnumAt::First(n, v) | EnumAt::Deepest(n, v) => Some(mk_enum(n, v)),
            _ => None,
        };
        // type of message-typed references: the first message of the imported file, if any
        let imported_type: Option<String> = import.and_then(|f| f.message_type.first().map(|mm| format!(".{}", fqn::join(f.package(), mm.name()))));

        struct Ctx<'a> {
            total: usize,
            mem: Members,
            enum_idx: Option<usize>,
            nested_enum: &'a Option<EnumDescriptorProto>,
            imported_type: &'a Option<String>,
            rotate: bool,
        }
        fn emit_msg(ms: &MsgS, idx: &mut usize, cx: &Ctx<'_>) -> DescriptorProto {
            let my = *idx;
            *idx += 1;
            let mut d = DescriptorProto { name: Some(rot(cx.rotate, ms.name).to_string()), ..Default::default() };
            let (field, oneof, inside): (Option<&'static str>, Option<&'static str>, bool) = match cx.mem {
                Members::None => (None, None, false),
                Members::FieldAll(f) => (Some(f), None, false),
                Members::OneofAll { oneof, field } => (Some(field), Some(oneof), true),
                Members::OptionalAll { field, synthetic } => (Some(field), Some(synthetic), true),
                Members::FirstOnly { field, oneof } if my == 0 => (Some(field), Some(oneof), false),
                Members::LastOnly { field, oneof } if my + 1 == cx.total => (Some(field), Some(oneof), false),
                _ => (None, None, false),
            };
            if let Some(o) = oneof {
                d.oneof_decl.push(OneofDescriptorProto { name: Some(rot(cx.rotate, o).to_string()), options: None });
            }
            if let Some(f) = field {
                // the first message's field references the imported file's message when there is one
                let (ty, type_name) = match (my, cx.imported_type) {
                    (0, Some(t)) => (11, Some(t.clone())), // TYPE_MESSAGE
                    _ => (5, None),                         // TYPE_INT32
                };
                d.field.push(FieldDescriptorProto {
                    name: Some(rot(cx.rotate, f).to_string()),
                    number: Some(1),
                    label: Some(1),
                    r#type: Some(ty),
                    type_name,
                    oneof_index: if inside { Some(0) } else { None },
                    proto3_optional: if matches!(cx.mem, Members::OptionalAll { .. }) { Some(true) } else { None },
                    ..Default::default()
                });
            }
            if cx.enum_idx == Some(my) {
                if let Some(e) = cx.nested_enum {
                    d.enum_type.push(e.clone());
                }
            }
            for n in &ms.nested {
                d.nested_type.push(emit_msg(n, idx, cx));
            }
            d
        }
        let cx = Ctx { total, mem: self.mem, enum_idx, nested_enum: &nested_enum, imported_type: &imported_type, rotate };
        let mut idx = 0usize;
        let message_type: Vec<DescriptorProto> = self.forest.iter().map(|x| emit_msg(x, &mut idx, &cx)).collect();
        let enum_type = match &self.en {
            EnumAt::Top(n, v) => vec![mk_enum(n, v)],
            _ => vec![],
        };
        let pkg = self.pkg.unwrap_or("");
        let own_type = message_type.first().map(|mm| format!(".{}", fqn::join(pkg, mm.name())));
        let io_type = own_type.or(imported_type.clone()).unwrap_or_else(|| ".google.protobuf.Empty".to_string());
        let service = match &self.svc {
            None => vec![],
            Some((n, methods)) => vec![ServiceDescriptorProto {
                name: Some(rot(rotate, n).to_string()),
                method: methods
                    .iter()
                    .map(|mn| MethodDescriptorProto {
                        name: Some(rot(rotate, mn).to_string()),
                        input_type: Some(io_type.clone()),
                        output_type: Some(io_type.clone()),
                        ..Default::default()
                    })
                    .collect(),
                options: None,
            }],
        };
        FileDescriptorProto {
            name: Some(fname.to_string()),
            package: self.pkg.map(|p| p.to_string()),
            dependency: import.map(|f| vec![f.name().to_string()]).unwrap_or_default(),
            message_type,
            enum_type,
            service,
            syntax: Some("proto3".into()),
            // what `protoc --include_source_info` (tonic-build's default) adds: comments and spans
            // are part of the registered file and must be served back with it
            source_code_info: if fname.contains('/') {
                None
            } else {
                Some(prost_types::SourceCodeInfo {
                    location: vec![prost_types::source_code_info::Location {
                        path: vec![4, 0],
                        span: vec![1, 0, 3, 1],
                        leading_comments: Some(" documented in the source file\n".into()),
                        trailing_comments: None,
                        leading_detached_comments: vec![" detached\n".into()],
                    }],
                })
            },
            ..Default::default()
        }
    }
}

/// `Some("")` = the `package` field is present but empty (what some descriptor producers emit
/// for a file without a package statement): its names have no package prefix either.
const PKGS: [Option<&str>; 4] = [None, Some("p"), Some("p.q"), Some("")];

fn forests(tier: Tier, pairs: bool) -> Vec<Vec<MsgS>> {
    if pairs {
        let mut v = vec![vec![], vec![m("A", vec![m("B", vec![])])], vec![m("B", vec![]), m("a", vec![])]];
        if tier == Tier::Thorough {
            v.push(vec![m("A", vec![m("B", vec![m("a", vec![])])])]);
        }
        return v;
    }
    let mut v = vec![
        vec![],
        vec![m("A", vec![])],
        vec![m("A", vec![m("B", vec![])])],
        vec![m("A", vec![m("A", vec![])])],
        vec![m("A", vec![]), m("a", vec![])],
        vec![m("A", vec![m("B", vec![])]), m("B", vec![])],
    ];
    if tier == Tier::Thorough {
        v.push(vec![m("A", vec![m("B", vec![m("a", vec![])])])]);
        v.push(vec![m("A", vec![m("a", vec![])]), m("a", vec![m("A", vec![])])]);
        v.push(vec![m("a", vec![m("B", vec![m("B", vec![])])])]);
        v.push(vec![m("B", vec![]), m("A", vec![m("B", vec![m("A", vec![])])])]);
    }
    v
}

fn members(tier: Tier, pairs: bool) -> Vec<Members> {
    if pairs {
        return vec![Members::None, Members::OneofAll { oneof: "b", field: "a" }];
    }
    let mut v = vec![
        Members::None,
        Members::FieldAll("a"),
        Members::OneofAll { oneof: "b", field: "a" },
        Members::FirstOnly { field: "A", oneof: "a" },
        Members::OptionalAll { field: "a", synthetic: "_a" },
    ];
    if tier == Tier::Thorough {
        v.push(Members::LastOnly { field: "B", oneof: "A" });
        v.push(Members::FieldAll("B"));
    }
    v
}

fn enums(tier: Tier, pairs: bool) -> Vec<EnumAt> {
    if pairs {
        return vec![EnumAt::None, EnumAt::Top("b", vec!["a", "B"]), EnumAt::First("C", vec!["c", "A"])];
    }
    let mut v = vec![
        EnumAt::None,
        EnumAt::Top("B", vec!["b"]),
        EnumAt::Top("b", vec!["B", "a"]),
        EnumAt::First("C", vec!["c", "A"]),
        EnumAt::First("b", vec!["a", "B"]),
    ];
    if tier == Tier::Thorough {
        v.push(EnumAt::First("B", vec!["A"]));
        v.push(EnumAt::Deepest("c", vec!["C"]));
        v.push(EnumAt::Deepest("a", vec!["A", "b"]));
        v.push(EnumAt::Top("a", vec!["b"]));
    }
    v
}

fn svcs(tier: Tier, pairs: bool) -> Vec<Option<(&'static str, Vec<&'static str>)>> {
    if pairs {
        return vec![None, Some(("a", vec!["A"]))];
    }
    let mut v = vec![None, Some(("a", vec!["A"])), Some(("B", vec!["A", "a"]))];
    if tier == Tier::Thorough {
        v.push(Some(("b", vec!["b"])));
        v.push(Some(("A", vec!["B", "A"])));
    }
    v
}

fn specs(tier: Tier, pairs: bool) -> Vec<FileSpec> {
    let mut out = vec![];
    if pairs && tier == Tier::Quick {
        // quick pair sub-grammar: (members, enum, service) vary jointly over four combinations
        let combos: Vec<(Members, EnumAt, Option<(&'static str, Vec<&'static str>)>)> = vec![
            (Members::None, EnumAt::None, None),
            (Members::OneofAll { oneof: "b", field: "a" }, EnumAt::First("C", vec!["c", "A"]), Some(("a", vec!["A"]))),
            (Members::None, EnumAt::Top("b", vec!["a", "B"]), Some(("a", vec!["A"]))),
            (Members::OneofAll { oneof: "b", field: "a" }, EnumAt::First("C", vec!["c", "A"]), None),
        ];
        for pkg in PKGS {
            for forest in forests(tier, true) {
                for (mem, en, svc) in &combos {
                    let s = FileSpec { pkg, forest: forest.clone(), mem: *mem, en: en.clone(), svc: svc.clone() };
                    if s.valid() {
                        out.push(s);
                    }
                }
            }
        }
        return out;
    }
    for pkg in PKGS {
        for forest in forests(tier, pairs) {
            for mem in members(tier, pairs) {
                for en in enums(tier, pairs) {
                    for svc in svcs(tier, pairs) {
                        let s = FileSpec { pkg, forest: forest.clone(), mem, en: en.clone(), svc };
                        if s.valid() {
                            out.push(s);
                        }
                    }
                }
            }
        }
    }
    out
}

/// Some name is declared twice (enum values count under both spellings): protobuf rejects such
/// sets and "the file that declares it" would be ambiguous, so they are skipped.
fn has_duplicate_names(files: &[FileDescriptorProto]) -> bool {
    let mut seen: HashSet<String> = HashSet::new();
    for f in files {
        for d in fqn::declared(f) {
            for n in d.names {
                if !seen.insert(n) {
                    return true;
                }
            }
        }
    }
    false
}

fn chosen_modes(tier: Tier, files: &[FileDescriptorProto]) -> Vec<Option<Vec<String>>> {
    let declared: Vec<String> = files.iter().flat_map(fqn::services).collect();
    let mut v: Vec<Option<Vec<String>>> = vec![None];
    // an undeclared name and the last declared service
    let mut c1 = vec!["zz.Ghost".to_string()];
    if let Some(l) = declared.last() {
        c1.push(l.clone());
    }
    v.push(Some(c1));
    if tier == Tier::Thorough {
        if let Some(f) = declared.first() {
            v.push(Some(vec![f.clone()]));
        }
    }
    v
}

/// Which kinds of declaration a set contains (for the evidence histogram).
fn signature(files: &[FileDescriptorProto]) -> String {
    let mut kinds: BTreeSet<Kind> = BTreeSet::new();
    let mut max_depth = 0;
    for f in files {
        for d in fqn::declared(f) {
            kinds.insert(d.kind);
            if matches!(d.kind, Kind::NestedMessage) {
                max_depth = max_depth.max(d.depth);
            }
        }
    }
    let mut v: Vec<String> = kinds.iter().map(|k| k.token().to_string()).collect();
    v.push(format!("msg-depth={}", max_depth + 1));
    v.join("+")
}

#[derive(Default, Clone, Debug)]
struct GenStats {
    by_signature: BTreeMap<String, usize>,
    specs: usize,
    sets_valid: usize,
    sets_skipped_duplicate_names: usize,
    sets_skipped_identical: usize,
}

fn single_cases(tier: Tier) -> (Vec<Case>, GenStats) {
    let mut st = GenStats::default();
    let mut out = vec![];
    let mut seen: HashSet<Vec<u8>> = HashSet::new();
    let sp = specs(tier, false);
    st.specs = sp.len();
    for s in &sp {
        let f = s.emit("a.proto", false, None);
        if has_duplicate_names(std::slice::from_ref(&f)) {
            st.sets_skipped_duplicate_names += 1;
            continue;
        }
        if !seen.insert(f.encode_to_vec()) {
            st.sets_skipped_identical += 1;
            continue;
        }
        st.sets_valid += 1;
        *st.by_signature.entry(signature(std::slice::from_ref(&f))).or_insert(0) += 1;
        let mut regs: Vec<Vec<Step>> = vec![
            vec![Step::Dec(vec![0])],
            vec![Step::Enc(vec![0])],
            // the same file registered twice, in two sets
            vec![Step::Dec(vec![0]), Step::Enc(vec![0])],
        ];
        if tier == Tier::Thorough {
            // twice inside one set; twice encoded
            regs.push(vec![Step::Dec(vec![0, 0])]);
            regs.push(vec![Step::Enc(vec![0]), Step::Enc(vec![0])]);
        }
        let files = vec![f];
        for steps in &regs {
            for chosen in chosen_modes(tier, &files) {
                for include in [false, true] {
                    out.push(Case { files: files.clone(), steps: steps.clone(), chosen: chosen.clone(), include, refl_mutants: fqn::declared(&files[0]).is_empty() });
                }
            }
        }
    }
    (out, st)
}

fn pair_cases(tier: Tier) -> (Vec<Case>, GenStats) {
    let mut st = GenStats::default();
    let mut out = vec![];
    let sp = specs(tier, true);
    st.specs = sp.len();
    let mut seen: HashSet<Vec<u8>> = HashSet::new();
    for s1 in &sp {
        let f1 = s1.emit("a.proto", false, None);
        for s2 in &sp {
            for rotate in [false, true] {
                for import in [false, true] {
                    let f2 = s2.emit("d/a.proto", rotate, if import { Some(&f1) } else { None });
                    let files = vec![f1.clone(), f2];
                    if has_duplicate_names(&files) {
                        st.sets_skipped_duplicate_names += 1;
                        continue;
                    }
                    let key = FileDescriptorSet { file: files.clone() }.encode_to_vec();
                    if !seen.insert(key) {
                        st.sets_skipped_identical += 1;
                        continue;
                    }
                    st.sets_valid += 1;
                    *st.by_signature.entry(signature(&files)).or_insert(0) += 1;
                    // importing pairs are registered together (or with the first file in two
                    // sets); independent pairs are registered separately, in both orders of
                    // processing (the builder handles decoded sets before encoded ones)
                    let regs: Vec<Vec<Step>> = match (import, tier) {
                        (true, Tier::Quick) => vec![vec![Step::Dec(vec![0, 1])], vec![Step::Dec(vec![0]), Step::Enc(vec![0, 1])]],
                        (true, Tier::Thorough) => vec![vec![Step::Dec(vec![0, 1])], vec![Step::Enc(vec![0, 1])], vec![Step::Dec(vec![0]), Step::Enc(vec![0, 1])]],
                        (false, _) => vec![vec![Step::Dec(vec![0]), Step::Enc(vec![1])], vec![Step::Enc(vec![0]), Step::Dec(vec![1])]],
                    };
                    let modes = chosen_modes(Tier::Quick, &files);
                    for steps in &regs {
                        for (ci, chosen) in modes.iter().enumerate() {
                            for include in [false, true] {
                                // (all services, reflection included) and (chosen names,
                                // reflection excluded); the full product is in `single-file`
                                if (ci == 0) != include {
                                    continue;
                                }
                                out.push(Case { files: files.clone(), steps: steps.clone(), chosen: chosen.clone(), include, refl_mutants: false });
                            }
                        }
                    }
                }
            }
        }
    }
    (out, st)
}

/// Real descriptor sets shipped with tonic (deep nesting, many fields, real enum values).
fn real_cases(tier: Tier) -> Vec<Case> {
    let dec = |b: &[u8], what: &str| -> Vec<FileDescriptorProto> { FileDescriptorSet::decode(b).unwrap_or_else(|e| machinery(format!("{what} descriptor set does not decode: {e}"))).file };
    let health = dec(tonic_health::pb::FILE_DESCRIPTOR_SET, "tonic-health");
    let types = dec(tonic_types::pb::FILE_DESCRIPTOR_SET, "tonic-types");
    let r1 = Ver::V1.own_files().to_vec();
    let r1a = Ver::V1Alpha.own_files().to_vec();
    let cat = |parts: &[&Vec<FileDescriptorProto>]| -> Vec<FileDescriptorProto> {
        let mut v: Vec<FileDescriptorProto> = vec![];
        for p in parts {
            for f in p.iter() {
                if !v.iter().any(|g| g.name() == f.name()) {
                    v.push(f.clone());
                }
            }
        }
        v
    };
    let sets: Vec<Vec<FileDescriptorProto>> = vec![cat(&[&health]), cat(&[&types]), cat(&[&health, &types]), cat(&[&health, &r1, &r1a])];
    let mut out = vec![];
    for files in sets {
        if has_duplicate_names(&files) {
            machinery("a real descriptor set declares a name twice (oracle defect)");
        }
        let all: Vec<usize> = (0..files.len()).collect();
        let mut regs = vec![vec![Step::Enc(all.clone())], vec![Step::Dec(all.clone()), Step::Enc(all.clone())]];
        if tier == Tier::Thorough {
            regs.push(vec![Step::Dec(all.clone())]);
            // one set per file, last file first
            regs.push(all.iter().rev().map(|i| Step::Dec(vec![*i])).collect());
        }
        for steps in &regs {
            for chosen in chosen_modes(tier, &files) {
                for include in [false, true] {
                    out.push(Case { files: files.clone(), steps: steps.clone(), chosen: chosen.clone(), include, refl_mutants: true });
                }
            }
        }
    }
    out
}

// ---------------------------------------------------------------------------------------------
// query plan (per protocol version)
// ---------------------------------------------------------------------------------------------

#[derive(Clone, Debug)]
enum Expect {
    /// spelling `spelling` (of `of`) of declaration `group`, declared by `reg[file]`
    Decl { file: usize, kind: Kind, group: usize, spelling: usize, of: usize },
    File { file: usize },
    Services(Vec<String>),
    /// not a declared name: must be answered NOT_FOUND
    Unknown { class: &'static str },
    /// package names: protobuf calls them symbols, the property does not; observed only
    Free,
}

struct Plan {
    qs: Vec<Q>,
    exp: Vec<Expect>,
    /// queries [0, common) are the same for both versions and must get the same answers
    common: usize,
    /// every file registered with this version's service (user files, then the version's own
    /// reflection file when included)
    reg: Vec<FileDescriptorProto>,
    reg_enc: Vec<Vec<u8>>,
    groups: usize,
    /// the own reflection service name when it is listed only because of
    /// `include_reflection_service` (masked when comparing v1 with v1alpha)
    own_listed: Option<&'static str>,
}

fn flip(c: char) -> char {
    if c.is_ascii_uppercase() {
        c.to_ascii_lowercase()
    } else {
        c.to_ascii_uppercase()
    }
}

fn flip_at(s: &str, i: usize) -> String {
    let mut b: Vec<char> = s.chars().collect();
    b[i] = flip(b[i]);
    b.into_iter().collect()
}

/// Mutants of a declared symbol (all names here are ASCII).
fn symbol_mutants(n: &str) -> Vec<(String, &'static str)> {
    let mut v: Vec<(String, &'static str)> = vec![];
    let short = n.len() <= 16;
    if short {
        for i in 0..n.len() {
            v.push((n[..i].to_string(), "prefix-mutant"));
        }
    } else {
        v.push((n[..n.len() - 1].to_string(), "prefix-mutant"));
        for (i, c) in n.char_indices() {
            if c == '.' {
                v.push((n[..i].to_string(), "prefix-mutant"));
                v.push((n[..=i].to_string(), "prefix-mutant"));
            }
        }
    }
    let last = n.rsplit('.').next().unwrap_or(n);
    for s in ["x", ".", ".x"] {
        v.push((format!("{n}{s}"), "suffix-mutant"));
    }
    v.push((format!("{n}{last}"), "suffix-mutant"));
    v.push((format!("{n}.{last}"), "suffix-mutant"));
    let chars: Vec<char> = n.chars().collect();
    for (i, c) in chars.iter().enumerate() {
        let component_start = i == 0 || chars[i - 1] == '.';
        if c.is_ascii_alphabetic() && (short || component_start) {
            v.push((flip_at(n, i), "case-mutant"));
        }
    }
    v.push((format!(".{n}"), "leading-dot-mutant"));
    v
}

fn filename_mutants(n: &str) -> Vec<(String, &'static str)> {
    let mut v: Vec<(String, &'static str)> = vec![];
    let short = n.len() <= 16;
    if short {
        for i in 0..n.len() {
            v.push((n[..i].to_string(), "filename-prefix-mutant"));
        }
    } else {
        v.push((n[..n.len() - 1].to_string(), "filename-prefix-mutant"));
        for (i, c) in n.char_indices() {
            if c == '.' || c == '/' {
                v.push((n[..i].to_string(), "filename-prefix-mutant"));
                v.push((n[..=i].to_string(), "filename-prefix-mutant"));
            }
        }
    }
    for s in ["x", ".proto", "/"] {
        v.push((format!("{n}{s}"), "filename-suffix-mutant"));
    }
    let chars: Vec<char> = n.chars().collect();
    for (i, c) in chars.iter().enumerate() {
        let component_start = i == 0 || chars[i - 1] == '/';
        if c.is_ascii_alphabetic() && (short || component_start) {
            v.push((flip_at(n, i), "filename-case-mutant"));
        }
    }
    v.push((format!("/{n}"), "filename-leading-slash-mutant"));
    v.push((format!("./{n}"), "filename-leading-slash-mutant"));
    // the basename alone
    if let Some(b) = n.rsplit('/').next() {
        if b != n {
            v.push((b.to_string(), "filename-basename-mutant"));
        }
    }
    v
}

fn make_plan(c: &Case, ver: Ver) -> Plan {
    let own = ver.own_files();
    let foreign = ver.other().own_files();
    let user_names: HashSet<&str> = c.files.iter().map(|f| f.name()).collect();
    let mut reg: Vec<FileDescriptorProto> = c.files.clone();
    let n_user = reg.len();
    if c.include {
        for f in own {
            if !user_names.contains(f.name()) {
                reg.push(f.clone());
            }
        }
    }
    // names that are declared by anything either version may have registered: no mutant may be
    // one of these, so the common part of the plan is identical for both versions
    let mut never_mutant: HashSet<String> = HashSet::new();
    let mut pkgs: HashSet<String> = HashSet::new();
    let mut file_names: HashSet<String> = HashSet::new();
    for f in c.files.iter().chain(own.iter()).chain(foreign.iter()) {
        for d in fqn::declared(f) {
            for n in d.names {
                never_mutant.insert(n);
            }
        }
        for p in fqn::package_prefixes(f) {
            pkgs.insert(p);
        }
        file_names.insert(f.name().to_string());
    }
    // what this version's service has registered
    let mut known: HashMap<String, usize> = HashMap::new();
    for (i, f) in reg.iter().enumerate() {
        for d in fqn::declared(f) {
            for n in d.names {
                known.entry(n).or_insert(i);
            }
        }
    }
    let known_files: HashSet<&str> = reg.iter().map(|f| f.name()).collect();

    let mut qs: Vec<Q> = vec![];
    let mut exp: Vec<Expect> = vec![];
    let mut asked: HashSet<Q> = HashSet::new();
    let mut groups = 0usize;

    // expected service list
    let own_listed = if c.chosen.is_none() && c.include && !c.files.iter().any(|f| fqn::services(f).iter().any(|s| s == ver.service())) { Some(ver.service()) } else { None };
    let mut services: Vec<String> = match &c.chosen {
        Some(ch) => ch.clone(),
        None => {
            let mut v: Vec<String> = c.files.iter().flat_map(fqn::services).collect();
            if let Some(s) = own_listed {
                v.push(s.to_string());
            }
            v
        }
    };
    services.sort();
    qs.push(Q::List);
    exp.push(Expect::Services(services));

    let mut push_decls = |qs: &mut Vec<Q>, exp: &mut Vec<Expect>, asked: &mut HashSet<Q>, file: usize, f: &FileDescriptorProto| {
        for d in fqn::declared(f) {
            let g = groups;
            groups += 1;
            for (si, n) in d.names.iter().enumerate() {
                let q = Q::Symbol(n.clone());
                asked.insert(q.clone());
                qs.push(q);
                exp.push(Expect::Decl { file, kind: d.kind, group: g, spelling: si, of: d.names.len() });
            }
        }
    };

    // ---- common part: the user's files ----
    for (i, f) in c.files.iter().enumerate() {
        let q = Q::File(f.name().to_string());
        asked.insert(q.clone());
        qs.push(q);
        exp.push(Expect::File { file: i });
    }
    for (i, f) in c.files.iter().enumerate() {
        push_decls(&mut qs, &mut exp, &mut asked, i, f);
    }
    let add_unknown = |qs: &mut Vec<Q>, exp: &mut Vec<Expect>, asked: &mut HashSet<Q>, q: Q, class: &'static str| {
        let free = match &q {
            Q::Symbol(s) => {
                if never_mutant.contains(s) {
                    return;
                }
                pkgs.contains(s)
            }
            Q::File(s) => {
                if file_names.contains(s) {
                    return;
                }
                false
            }
            Q::List => return,
        };
        if !asked.insert(q.clone()) {
            return;
        }
        qs.push(q);
        exp.push(if free { Expect::Free } else { Expect::Unknown { class } });
    };
    for f in c.files.iter() {
        for d in fqn::declared(f) {
            for n in &d.names {
                for (mutant, class) in symbol_mutants(n) {
                    add_unknown(&mut qs, &mut exp, &mut asked, Q::Symbol(mutant), class);
                }
            }
        }
        for (mutant, class) in filename_mutants(f.name()) {
            add_unknown(&mut qs, &mut exp, &mut asked, Q::File(mutant), class);
        }
        // a file name is not a symbol, a symbol is not a file name
        add_unknown(&mut qs, &mut exp, &mut asked, Q::Symbol(f.name().to_string()), "filename-as-symbol");
        for d in fqn::declared(f).iter().take(4) {
            add_unknown(&mut qs, &mut exp, &mut asked, Q::File(d.names[0].clone()), "symbol-as-filename");
        }
    }
    let common = qs.len();

    // ---- version-specific part: the reflection service's own descriptors ----
    if c.include {
        for (i, f) in reg.iter().enumerate().skip(n_user) {
            let q = Q::File(f.name().to_string());
            asked.insert(q.clone());
            qs.push(q);
            exp.push(Expect::File { file: i });
            push_decls(&mut qs, &mut exp, &mut asked, i, f);
        }
        // mutants of the reflection service's own service and method names
        if c.refl_mutants && known.contains_key(ver.service()) {
            for n in [ver.service().to_string(), format!("{}.{}", ver.service(), REFL_METHOD)] {
                for (mutant, class) in symbol_mutants(&n) {
                    add_unknown(&mut qs, &mut exp, &mut asked, Q::Symbol(mutant), class);
                }
            }
        }
    }
    // Names of the two reflection protocols that this service has *not* registered must be
    // unknown to it. (These bypass `never_mutant`, which exists only to keep the common part
    // version-independent.)
    let mut candidates: Vec<(Q, &'static str)> = vec![];
    for (v, files) in [(ver, own), (ver.other(), foreign)] {
        let class = if v == ver { "excluded-reflection-name" } else { "foreign-reflection-name" };
        candidates.push((Q::Symbol(v.service().to_string()), class));
        candidates.push((Q::Symbol(format!("{}.{}", v.service(), REFL_METHOD)), class));
        for f in files.iter() {
            candidates.push((Q::File(f.name().to_string()), class));
        }
    }
    for (q, class) in candidates {
        let is_known = match &q {
            Q::Symbol(s) => known.contains_key(s),
            Q::File(s) => known_files.contains(s.as_str()),
            Q::List => true,
        };
        if is_known || !asked.insert(q.clone()) {
            continue;
        }
        qs.push(q);
        exp.push(Expect::Unknown { class });
    }
    let reg_enc = reg.iter().map(|f| f.encode_to_vec()).collect();
    Plan { qs, exp, common, reg, reg_enc, groups, own_listed }
}

// ---------------------------------------------------------------------------------------------
// judging
// ---------------------------------------------------------------------------------------------

#[derive(Debug, Clone, PartialEq)]
enum Res {
    Right,
    Wrong(String),
    NotFound,
    OtherError(String),
    NoAnswer,
}

impl Plan {
    /// Which registered file a returned descriptor is: byte-identical to the canonical encoding,
    /// or decoding (prost) to an equal message.
    fn identify(&self, bytes: &[u8]) -> Result<usize, String> {
        if let Some(i) = self.reg_enc.iter().position(|e| e[..] == bytes[..]) {
            return Ok(i);
        }
        match FileDescriptorProto::decode(bytes) {
            Err(e) => Err(format!("descriptor bytes do not decode: {e}")),
            Ok(fd) => match self.reg.iter().position(|r| *r == fd) {
                Some(i) => Ok(i),
                None => Err(format!("descriptor named {:?} is not equal to any registered file", fd.name())),
            },
        }
    }

    fn resolve(&self, a: &Ans, want: usize) -> Res {
        match a {
            Ans::Files(list) => {
                let Some(first) = list.first() else { return Res::Wrong("empty descriptor list".into()) };
                match self.identify(first) {
                    Err(e) => return Res::Wrong(e),
                    Ok(i) if i != want => return Res::Wrong(format!("first descriptor is file {:?}, expected {:?}", self.reg[i].name(), self.reg[want].name())),
                    Ok(_) => {}
                }
                // anything after the first must be a registered file (transitive dependencies)
                for extra in &list[1..] {
                    if let Err(e) = self.identify(extra) {
                        return Res::Wrong(format!("trailing descriptor: {e}"));
                    }
                }
                Res::Right
            }
            Ans::ErrResp(code, _) | Ans::Status(code, _) if *code == NOT_FOUND => Res::NotFound,
            Ans::ErrResp(code, m) => Res::OtherError(format!("error_response code {code}: {m}")),
            Ans::Status(code, m) => Res::OtherError(format!("status code {code}: {m}")),
            Ans::Services(_) => Res::Wrong("answered with a service list".into()),
            Ans::Other(s) => Res::OtherError(s.clone()),
            Ans::Missing => Res::NoAnswer,
        }
    }

    fn show_ans(&self, a: &Ans) -> String {
        match a {
            Ans::Files(list) => {
                let names: Vec<String> = list
                    .iter()
                    .map(|b| match self.identify(b) {
                        Ok(i) => format!("{}#{}", self.reg[i].name(), &hash_bytes(b)[..6]),
                        Err(_) => format!("?{}", &hash_bytes(b)[..8]),
                    })
                    .collect();
                format!("files[{}]", names.join(","))
            }
            Ans::Services(s) => format!("services{s:?}"),
            Ans::ErrResp(c, m) => format!("error_response({c},{m:?})"),
            Ans::Status(c, m) => format!("status({c},{m:?})"),
            Ans::Other(s) => format!("other({s})"),
            Ans::Missing => "<no answer>".into(),
        }
    }
}

/// FNV-1a over raw bytes, as 16 hex digits.
fn hash_bytes(b: &[u8]) -> String {
    let mut h: u64 = 0xcbf29ce484222325;
    for x in b {
        h ^= *x as u64;
        h = h.wrapping_mul(0x100000001b3);
    }
    format!("{h:016x}")
}

/// Version-independent rendering of an answer (descriptor bytes hashed).
fn canon(a: &Ans, mask: Option<&str>) -> String {
    match a {
        Ans::Files(list) => format!("files[{}]", list.iter().map(|b| format!("{}:{}", b.len(), &hash_bytes(b)[..12])).collect::<Vec<_>>().join(",")),
        Ans::Services(s) => {
            let mut v: Vec<String> = s.iter().map(|n| if Some(n.as_str()) == mask { "<reflection>".to_string() } else { n.clone() }).collect();
            v.sort();
            format!("services{v:?}")
        }
        Ans::ErrResp(c, m) => format!("error_response({c},{m:?})"),
        Ans::Status(c, m) => format!("status({c},{m:?})"),
        Ans::Other(s) => format!("other({s})"),
        Ans::Missing => "<no answer>".into(),
    }
}

fn judge(ver: Ver, plan: &Plan, t: &Transcript, o: &mut Outcome, obs: &mut String) {
    let v = ver.name();
    let mut per_group: BTreeMap<usize, Vec<(usize, Kind, usize, Res)>> = BTreeMap::new();
    let mut unknown_ok: BTreeMap<&'static str, (u32, BTreeSet<&'static str>)> = BTreeMap::new();
    let mut positives: Vec<String> = vec![];
    let mut free: Vec<String> = vec![];
    for (i, (q, e)) in plan.qs.iter().zip(plan.exp.iter()).enumerate() {
        let a = &t.answers[i];
        match e {
            Expect::Services(want) => {
                positives.push(format!("{} -> {}", q.show(), plan.show_ans(a)));
                match a {
                    Ans::Services(got) => {
                        let mut g = got.clone();
                        g.sort();
                        if g != *want {
                            let missing: Vec<&String> = want.iter().filter(|w| !g.contains(w)).collect();
                            let extra: Vec<&String> = g.iter().filter(|x| !want.contains(x)).collect();
                            if !missing.is_empty() {
                                o.violate("list-services-missing", format!("{v}: list_services lacks {missing:?}: got {got:?}, expected exactly {want:?}"));
                            }
                            if !extra.is_empty() {
                                o.violate("list-services-extra", format!("{v}: list_services contains {extra:?} which are neither declared nor chosen: got {got:?}, expected exactly {want:?}"));
                            }
                            if missing.is_empty() && extra.is_empty() {
                                o.violate("list-services-duplicate", format!("{v}: list_services repeats a name: got {got:?}, expected exactly {want:?}"));
                            }
                        }
                    }
                    other => o.violate("list-services-no-list", format!("{v}: list_services answered {}", plan.show_ans(other))),
                }
            }
            Expect::File { file } => {
                positives.push(format!("{} -> {}", q.show(), plan.show_ans(a)));
                match plan.resolve(a, *file) {
                    Res::Right => {}
                    Res::NotFound => o.violate("file-unresolved", format!("{v}: registered {} answered {}", q.show(), plan.show_ans(a))),
                    Res::Wrong(w) => o.violate("file-wrong-content", format!("{v}: {} answered {}: {w}", q.show(), plan.show_ans(a))),
                    Res::OtherError(w) => o.violate("file-error", format!("{v}: registered {} answered {w}", q.show())),
                    Res::NoAnswer => o.violate("no-answer", format!("{v}: {} got no response", q.show())),
                }
            }
            Expect::Decl { file, kind, group, spelling, .. } => {
                positives.push(format!("{} -> {}", q.show(), plan.show_ans(a)));
                per_group.entry(*group).or_default().push((*spelling, *kind, *file, plan.resolve(a, *file)));
                let _ = i;
            }
            Expect::Unknown { class } => {
                let form = match a {
                    Ans::Status(c, _) if *c == NOT_FOUND => Some("status"),
                    Ans::ErrResp(c, _) if *c == NOT_FOUND => Some("error_response"),
                    _ => None,
                };
                match form {
                    Some(f) => {
                        let e = unknown_ok.entry(class).or_default();
                        e.0 += 1;
                        e.1.insert(f);
                    }
                    None => {
                        positives.push(format!("UNKNOWN[{class}] {} -> {}", q.show(), plan.show_ans(a)));
                        match a {
                            Ans::Files(_) | Ans::Services(_) => o.violate(format!("{class}-resolved"), format!("{v}: {} is not a declared name or registered file but was answered {}", q.show(), plan.show_ans(a))),
                            Ans::Missing => o.violate("no-answer", format!("{v}: {} got no response", q.show())),
                            _ => o.violate("unknown-name-wrong-code", format!("{v}: {} is unknown and must be answered NOT_FOUND, got {}", q.show(), plan.show_ans(a))),
                        }
                    }
                }
            }
            Expect::Free => free.push(format!("{} -> {}", q.show(), plan.show_ans(a))),
        }
    }
    // declarations: every one must resolve under at least one acceptable spelling, none under a
    // wrong file
    let mut value_naming: BTreeSet<String> = BTreeSet::new();
    let decl_query = |group: usize, spelling: usize| -> String {
        plan.qs
            .iter()
            .zip(plan.exp.iter())
            .find_map(|(q, e)| match e {
                Expect::Decl { group: g, spelling: s, .. } if *g == group && *s == spelling => Some(q.show()),
                _ => None,
            })
            .unwrap_or_default()
    };
    for (g, rs) in &per_group {
        let kind = rs[0].1;
        let file = rs[0].2;
        let tok = kind.token();
        let mut any_right = false;
        for (sp, _, _, r) in rs {
            match r {
                Res::Right => any_right = true,
                Res::Wrong(w) => o.violate(format!("{tok}-wrong-file"), format!("{v}: {} is declared by {:?} but: {w}", decl_query(*g, *sp), plan.reg[file].name())),
                Res::OtherError(w) => o.violate(format!("{tok}-error"), format!("{v}: {} is declared by {:?} but was answered {w}", decl_query(*g, *sp), plan.reg[file].name())),
                Res::NoAnswer => o.violate("no-answer", format!("{v}: {} got no response", decl_query(*g, *sp))),
                Res::NotFound => {}
            }
        }
        if !any_right && rs.iter().all(|(_, _, _, r)| *r == Res::NotFound) {
            let names: Vec<String> = rs.iter().map(|(sp, ..)| decl_query(*g, *sp)).collect();
            o.violate(format!("{tok}-unresolved"), format!("{v}: {} declared by {:?} answered NOT_FOUND (every accepted spelling: {})", tok, plan.reg[file].name(), names.join(" / ")));
        }
        if rs.len() == 2 {
            let f = |r: &Res| if *r == Res::Right { "yes" } else { "no" };
            value_naming.insert(format!("sibling={} enum-qualified={}", f(&rs[0].3), f(&rs[1].3)));
        }
    }
    if !t.ended_early.is_empty() {
        let qsx: Vec<String> = t.ended_early.iter().take(3).map(|i| plan.qs[*i].show()).collect();
        o.violate("stream-ended-early", format!("{v}: the response stream ended cleanly while {} queries were unanswered, first {qsx:?}", t.ended_early.len()));
    }
    if t.extra_responses > 0 {
        o.violate("extra-response", format!("{v}: {} responses beyond the queries sent", t.extra_responses));
    }
    obs.push_str(&format!(
        "[{v}] queries={} calls={} groups={} echo_mismatch={} enum-value-naming={:?}\n  {}\n  unknown(NOT_FOUND): {}\n  package-names(observed only): {}\n",
        plan.qs.len(),
        t.calls,
        plan.groups,
        t.echo_mismatch,
        value_naming,
        positives.join("\n  "),
        unknown_ok.iter().map(|(c, (n, forms))| format!("{c}={n}{forms:?}")).collect::<Vec<_>>().join(" "),
        free.join("; "),
    ));
}

// ---------------------------------------------------------------------------------------------
// one execution
// ---------------------------------------------------------------------------------------------

async fn scenario(c: &Case) -> Outcome {
    let bufs: Vec<Vec<u8>> = c
        .steps
        .iter()
        .map(|s| match s {
            Step::Enc(ix) => FileDescriptorSet { file: ix.iter().map(|i| c.files[*i].clone()).collect() }.encode_to_vec(),
            Step::Dec(_) => vec![],
        })
        .collect();
    let mk = || {
        let mut b = Builder::configure();
        for (s, buf) in c.steps.iter().zip(bufs.iter()) {
            b = match s {
                Step::Dec(ix) => b.register_file_descriptor_set(FileDescriptorSet { file: ix.iter().map(|i| c.files[*i].clone()).collect() }),
                Step::Enc(_) => b.register_encoded_file_descriptor_set(buf),
            };
        }
        if let Some(names) = &c.chosen {
            for n in names {
                b = b.with_service_name(n.clone());
            }
        }
        b.include_reflection_service(c.include)
    };
    let mut o = Outcome::new("");
    let mut obs = String::new();
    let mut runs: Vec<(Plan, Transcript)> = vec![];
    for ver in [Ver::V1, Ver::V1Alpha] {
        let plan = make_plan(c, ver);
        let t = match ver {
            Ver::V1 => match mk().build_v1() {
                Ok(svc) => drv_v1::ask(svc, &plan.qs).await,
                Err(e) => {
                    o.violate("build-failed", format!("build_v1 rejected a valid descriptor set: {e}"));
                    obs.push_str(&format!("[v1] build error {e}\n"));
                    continue;
                }
            },
            Ver::V1Alpha => match mk().build_v1alpha() {
                Ok(svc) => drv_v1alpha::ask(svc, &plan.qs).await,
                Err(e) => {
                    o.violate("build-failed", format!("build_v1alpha rejected a valid descriptor set: {e}"));
                    obs.push_str(&format!("[v1alpha] build error {e}\n"));
                    continue;
                }
            },
        };
        judge(ver, &plan, &t, &mut o, &mut obs);
        runs.push((plan, t));
    }
    let mut mutants = 0usize;
    if let [(p1, t1), (p2, t2)] = &runs[..] {
        if p1.common != p2.common || p1.qs[..p1.common] != p2.qs[..p2.common] {
            machinery("C19: the common parts of the v1 and v1alpha plans differ");
        }
        for i in 0..p1.common {
            let (a, b) = (canon(&t1.answers[i], p1.own_listed), canon(&t2.answers[i], p2.own_listed));
            if a != b {
                o.violate(
                    "v1-v1alpha-differ",
                    format!("{}: v1 answered {} but v1alpha answered {} (compared with each version's own reflection service name masked: {a} vs {b})", p1.qs[i].show(), p1.show_ans(&t1.answers[i]), p2.show_ans(&t2.answers[i])),
                );
                break;
            }
        }
        mutants = p1.exp.iter().filter(|e| matches!(e, Expect::Unknown { .. })).count();
    }
    // Non-trivial: names below the file scope exist (nested message / nested enum) or two files
    // are registered, and unknown names were actually asked.
    let nested = c.files.iter().any(|f| fqn::declared(f).iter().any(|d| matches!(d.kind, Kind::NestedMessage | Kind::NestedEnum | Kind::NestedEnumValue)));
    o.nontrivial = (nested || c.files.len() > 1) && mutants > 0;
    o.obs = obs;
    o
}

fn body(c: &Case, _ch: &Chooser) -> Outcome {
    // A fresh paused current-thread runtime per execution: nothing (no task, no timer) survives
    // from one descriptor set to the next, and the only scheduler is tokio's deterministic
    // single-thread FIFO.
    let rt = tokio::runtime::Builder::new_current_thread()
        .enable_time()
        .start_paused(true)
        .build()
        .unwrap_or_else(|e| machinery(format!("cannot build a tokio runtime: {e}")));
    let o = rt.block_on(scenario(c));
    drop(rt);
    o
}

// ---------------------------------------------------------------------------------------------
// oracle self-check against an unrelated implementation (prost-reflect, via protox)
// ---------------------------------------------------------------------------------------------

/// `oracle::fqn` and prost-reflect's descriptor pool must agree on the full names declared by
/// the real descriptor sets (protobuf's sibling-scope rule for enum values). A disagreement is a
/// defect of the oracle, reported as a machinery error.
fn fqn_selfcheck() -> serde_json::Value {
    use protox::prost_reflect::DescriptorPool;
    let sets: [(&str, &[u8]); 4] = [
        ("tonic-health", tonic_health::pb::FILE_DESCRIPTOR_SET),
        ("tonic-types", tonic_types::pb::FILE_DESCRIPTOR_SET),
        ("reflection-v1", tonic_reflection::pb::v1::FILE_DESCRIPTOR_SET),
        ("reflection-v1alpha", tonic_reflection::pb::v1alpha::FILE_DESCRIPTOR_SET),
    ];
    let mut compared = 0usize;
    let mut notes = vec![];
    for (what, bytes) in sets {
        let mut pool = DescriptorPool::global();
        if let Err(e) = pool.decode_file_descriptor_set(bytes) {
            notes.push(format!("{what}: not loadable by prost-reflect ({e}); skipped"));
            continue;
        }
        let fds = FileDescriptorSet::decode(bytes).unwrap_or_else(|e| machinery(format!("{what}: {e}")));
        let own_files: HashSet<&str> = fds.file.iter().map(|f| f.name()).collect();
        let mut theirs: BTreeSet<String> = BTreeSet::new();
        for msg in pool.all_messages() {
            if !own_files.contains(msg.parent_file().name()) {
                continue;
            }
            theirs.insert(msg.full_name().to_string());
            for f in msg.fields() {
                theirs.insert(f.full_name().to_string());
            }
            for o in msg.oneofs() {
                theirs.insert(o.full_name().to_string());
            }
        }
        for e in pool.all_enums() {
            if !own_files.contains(e.parent_file().name()) {
                continue;
            }
            theirs.insert(e.full_name().to_string());
            for v in e.values() {
                theirs.insert(v.full_name().to_string());
            }
        }
        for s in pool.services() {
            if !own_files.contains(s.parent_file().name()) {
                continue;
            }
            theirs.insert(s.full_name().to_string());
            for me in s.methods() {
                theirs.insert(me.full_name().to_string());
            }
        }
        let mut ours: BTreeSet<String> = BTreeSet::new();
        for f in &fds.file {
            for d in fqn::declared(f) {
                ours.insert(d.names[0].clone());
            }
        }
        if ours != theirs {
            let a: Vec<&String> = ours.difference(&theirs).take(5).collect();
            let b: Vec<&String> = theirs.difference(&ours).take(5).collect();
            machinery(format!("oracle::fqn disagrees with prost-reflect on {what}: only ours {a:?}, only theirs {b:?}"));
        }
        compared += ours.len();
    }
    serde_json::json!({"names_compared_equal_with_prost_reflect": compared, "notes": notes})
}

// ---------------------------------------------------------------------------------------------

pub fn property(tier: Tier) -> Property {
    let cfg = || Config { max_bound: 0, hang_secs: 60, ..Default::default() };
    let (singles, s_st) = single_cases(tier);
    let (pairs, p_st) = pair_cases(tier);
    let reals = real_cases(tier);
    let rule_tail = "Queries per set and per protocol version (v1, v1alpha): list_services; file_by_filename for every registered file; file_containing_symbol for every declared name (messages, nested messages, fields, oneofs, enums, enum values under both the sibling-scope and the enum-qualified spelling, services, methods); and for every declared name and file name the undeclared mutants: every strict prefix, suffix-extended, case-flipped, leading-dot / leading-slash, file-name-as-symbol and symbol-as-file-name, plus the names of the reflection service that is not registered. Non-trivial = the set has a nested message or nested enum or two files, and at least one undeclared mutant was asked; distinct = distinct (set, registration, options).";
    let n = |q: u64, t: u64| tier.q(q, t);
    let s1 = Section::new(
        "single-file",
        cfg(),
        &format!("cases: every file of the grammar package in {{none,p,p.q,present-but-empty}} x message forest (nesting <= {}) x members (field / oneof+member / proto3-optional field with its synthetic oneof / first-only / last-only) x enum (none / top-level / nested in first / nested in deepest message; 1-2 values) x service (none / 1-2 methods), names from {{A,B,a,b}} (nested enums also C/c), sets declaring a name twice skipped; x registration (decoded, encoded, twice in two sets{}) x with_service_name (never / undeclared+last declared{}) x include_reflection_service. {rule_tail}", tier.q(2, 3), tier.q("", ", twice in one set, twice encoded"), tier.q("", " / first declared")),
        singles,
        describe,
        body,
    )
    .mins(n(2000, 30000), n(800, 5000), n(1500, 20000));
    let s2 = Section::new(
        "two-files",
        cfg(),
        &format!("cases: ordered pairs of files (\"a.proto\", \"d/a.proto\") from the pair sub-grammar ({}), second file with the same or rotated names (A->B->a->b->A), with or without importing the first (message-typed field and method types then point into the first file), sets declaring a name twice skipped; x registration ({}) x (all services + reflection included | chosen names + reflection excluded). {rule_tail}", tier.q("package x forest {none, A{B}, B+a} x (members, enum, service) jointly in {none; oneof+member, nested enum, service; top-level enum, service; oneof+member, nested enum}", "package x forest {none, A{B}, B+a, A{B{a}}} x members none/oneof+member x enum none/top-level/nested x service none/one"), tier.q("importing: one decoded set, or first file decoded + both encoded; independent: decoded+encoded and encoded+decoded", "importing: one decoded set, one encoded set, or first file decoded + both encoded; independent: decoded+encoded and encoded+decoded")),
        pairs,
        describe,
        body,
    )
    .mins(n(2000, 30000), n(800, 10000), n(2000, 30000));
    let s3 = Section::new(
        "real-descriptors",
        cfg(),
        &format!("cases: descriptor sets shipped with tonic (grpc.health.v1, google.rpc status/error_details, the two reflection protocols registered explicitly) x registration x with_service_name x include_reflection_service. {rule_tail}"),
        reals,
        describe,
        body,
    )
    .mins(n(16, 32), n(8, 12), n(16, 32));
    let mut extra = serde_json::Map::new();
    extra.insert("grammar".into(), serde_json::json!({
        "single_file": {"specs": s_st.specs, "sets": s_st.sets_valid, "skipped_duplicate_names": s_st.sets_skipped_duplicate_names, "skipped_identical": s_st.sets_skipped_identical, "sets_by_declared_kinds": s_st.by_signature},
        "two_files": {"specs_per_file": p_st.specs, "sets": p_st.sets_valid, "skipped_duplicate_names": p_st.sets_skipped_duplicate_names, "skipped_identical": p_st.sets_skipped_identical, "sets_by_declared_kinds": p_st.by_signature},
    }));
    extra.insert("oracle_selfcheck".into(), fqn_selfcheck());
    Property {
        id: "C19",
        level: "exploration",
        hang_is_violation: false,
        assumptions: vec![
            "descriptor sets outside the stated grammar (names longer than one letter except in the real sets, more than two files, extensions, more than one enum/service per file) are not covered".into(),
            "enum values may resolve under protobuf's sibling-scope name or under the enum-qualified name; at least one must, neither may resolve to another file".into(),
            "package names (and their dotted prefixes) are neither required to resolve nor required to be NOT_FOUND; they are observed only".into(),
            "NOT_FOUND may arrive as an ErrorResponse inside the stream or as the gRPC status ending the stream; after a status the remaining queries are re-sent on a new stream".into(),
            "prost is trusted to encode/decode FileDescriptorProto; the reflection protocols' service names are transcribed from grpc-proto".into(),
        ],
        sections: vec![s1, s2, s3],
        extra,
    }
}
