//! Fixtures shared by the codec-level checks (C01, C03, C05, C06, C07).

use crate::oracle::comp::Enc;
use bytes::{Buf, BufMut};
use tonic::codec::{BufferSettings, Codec, CompressionEncoding, DecodeBuf, Decoder, EncodeBuf, Encoder};
use tonic::Status;

pub fn tonic_enc(e: Enc) -> CompressionEncoding {
    match e {
        Enc::Gzip => CompressionEncoding::Gzip,
        Enc::Deflate => CompressionEncoding::Deflate,
        Enc::Zstd => CompressionEncoding::Zstd,
    }
}

pub fn enc_name(e: Option<Enc>) -> &'static str {
    e.map(|e| e.name()).unwrap_or("identity")
}

/// A codec whose messages are raw byte strings.
#[derive(Clone, Copy, Debug)]
pub struct RawCodec {
    pub settings: BufferSettings,
    /// Encoder fails (with INTERNAL) on the item whose first byte equals this marker.
    pub fail_marker: Option<u8>,
}

impl RawCodec {
    pub fn new(settings: BufferSettings) -> Self {
        RawCodec { settings, fail_marker: None }
    }
}

impl Default for RawCodec {
    fn default() -> Self {
        RawCodec::new(BufferSettings::default())
    }
}

#[derive(Clone, Copy, Debug)]
pub struct RawEncoder {
    settings: BufferSettings,
    fail_marker: Option<u8>,
}

#[derive(Clone, Copy, Debug)]
pub struct RawDecoder {
    settings: BufferSettings,
}

impl Encoder for RawEncoder {
    type Item = Vec<u8>;
    type Error = Status;
    fn encode(&mut self, item: Vec<u8>, dst: &mut EncodeBuf<'_>) -> Result<(), Status> {
        if let (Some(m), Some(first)) = (self.fail_marker, item.first()) {
            if *first == m {
                return Err(Status::internal("scripted encoder failure"));
            }
        }
        dst.put_slice(&item);
        Ok(())
    }
    fn buffer_settings(&self) -> BufferSettings {
        self.settings
    }
}

impl Decoder for RawDecoder {
    type Item = Vec<u8>;
    type Error = Status;
    fn decode(&mut self, src: &mut DecodeBuf<'_>) -> Result<Option<Vec<u8>>, Status> {
        // the three ways a decoder can take its bytes out of a `Buf`, rotated by message length so
        // that every section exercises all of them
        let n = src.remaining();
        let v = match n % 3 {
            0 => {
                let mut v = vec![0u8; n];
                src.copy_to_slice(&mut v);
                v
            }
            1 => src.copy_to_bytes(n).to_vec(),
            _ => {
                let mut v = Vec::with_capacity(n);
                while src.has_remaining() {
                    let c = src.chunk();
                    let take = c.len().min(2);
                    v.extend_from_slice(&c[..take]);
                    src.advance(take);
                }
                v
            }
        };
        Ok(Some(v))
    }
    fn buffer_settings(&self) -> BufferSettings {
        self.settings
    }
}

impl Codec for RawCodec {
    type Encode = Vec<u8>;
    type Decode = Vec<u8>;
    type Encoder = RawEncoder;
    type Decoder = RawDecoder;
    fn encoder(&mut self) -> RawEncoder {
        RawEncoder { settings: self.settings, fail_marker: self.fail_marker }
    }
    fn decoder(&mut self) -> RawDecoder {
        RawDecoder { settings: self.settings }
    }
}

/// A prost message with a bytes, a string and a varint field.
#[derive(Clone, PartialEq, prost::Message)]
pub struct PMsg {
    #[prost(bytes = "vec", tag = "1")]
    pub b: Vec<u8>,
    #[prost(string, tag = "2")]
    pub s: String,
    #[prost(uint64, tag = "3")]
    pub v: u64,
}

impl PMsg {
    pub fn from_seed(seed: &[u8]) -> PMsg {
        PMsg {
            b: seed.to_vec(),
            s: if seed.len() % 2 == 1 { format!("s{}é", seed.len()) } else { String::new() },
            v: seed.len() as u64 * 300,
        }
    }
}

/// Independent protobuf serialisation of `PMsg` (written against the protobuf encoding spec:
/// field 1 LEN, field 2 LEN, field 3 VARINT; proto3 default values are omitted).
pub fn pmsg_wire(m: &PMsg) -> Vec<u8> {
    fn varint(mut v: u64, out: &mut Vec<u8>) {
        loop {
            let b = (v & 0x7f) as u8;
            v >>= 7;
            if v == 0 {
                out.push(b);
                return;
            }
            out.push(b | 0x80);
        }
    }
    let mut out = vec![];
    if !m.b.is_empty() {
        out.push(0x0a);
        varint(m.b.len() as u64, &mut out);
        out.extend_from_slice(&m.b);
    }
    if !m.s.is_empty() {
        out.push(0x12);
        varint(m.s.len() as u64, &mut out);
        out.extend_from_slice(m.s.as_bytes());
    }
    if m.v != 0 {
        out.push(0x18);
        varint(m.v, &mut out);
    }
    out
}

/// Payload menu: index -> bytes. Fixed patterns including 0x00/0xFF runs (compressible) and a
/// counter (incompressible).
pub fn payload(size: usize, pattern: u8) -> Vec<u8> {
    match pattern {
        0 => (0..size).map(|i| if (i / 4) % 2 == 0 { 0x00 } else { 0xff }).collect(),
        _ => (0..size).map(|i| (i as u32).wrapping_mul(2654435761).to_le_bytes()[1] ^ (i as u8)).collect(),
    }
}

pub const ENC_OPTS: [Option<Enc>; 4] = [None, Some(Enc::Gzip), Some(Enc::Deflate), Some(Enc::Zstd)];
