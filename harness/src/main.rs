//! `mc` — model-checking harness for hyperium/tonic. See /verif/DESIGN.md.
#![allow(clippy::type_complexity, dead_code, unused_imports)]

mod alloc;
mod env;

mod explore;
mod fixtures;
mod oracle;
mod props;
mod report;

use report::Tier;

#[global_allocator]
static GLOBAL: alloc::TrackAlloc = alloc::TrackAlloc;

fn usage() -> ! {
    eprintln!("usage: mc <ID> [quick|thorough] [--replay <file>]");
    std::process::exit(2)
}

fn main() {
    let args: Vec<String> = std::env::args().skip(1).collect();
    if args.is_empty() {
        usage();
    }
    if args[0] == "--isolated" {
        // a single execution in a process of its own (the parent judges how this process ends)
        std::process::exit(props::isolated(&args[1..]));
    }
    let id = args[0].to_uppercase();
    let mut tier = match std::env::var("VERIF_TIER").ok().as_deref() {
        Some("thorough") => Tier::Thorough,
        _ => Tier::Quick,
    };
    let mut replay: Option<String> = None;
    let mut i = 1;
    while i < args.len() {
        match args[i].as_str() {
            "quick" => tier = Tier::Quick,
            "thorough" => tier = Tier::Thorough,
            "--replay" => {
                i += 1;
                replay = args.get(i).cloned();
                if replay.is_none() {
                    usage();
                }
            }
            _ => usage(),
        }
        i += 1;
    }
    let seed: u64 = std::env::var("VERIF_SEED").ok().and_then(|s| s.parse().ok()).unwrap_or(0);
    explore::install_quiet_panic_hook();
    if let Some(path) = replay {
        // the replay file remembers the tier whose case list it indexes
        if let Ok(text) = std::fs::read_to_string(&path) {
            if let Ok(j) = serde_json::from_str::<serde_json::Value>(&text) {
                match j["tier"].as_str() {
                    Some("thorough") => tier = Tier::Thorough,
                    Some("quick") => tier = Tier::Quick,
                    _ => {}
                }
            }
        }
        let Some(prop) = props::get(&id, tier) else { usage() };
        std::process::exit(report::replay_property(prop, &path));
    }
    let Some(prop) = props::get(&id, tier) else {
        eprintln!("unknown property {id}");
        std::process::exit(2)
    };
    std::process::exit(report::run_property(prop, tier, seed));
}
