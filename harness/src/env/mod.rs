//! Owned environments: every source of nondeterminism the code under test can see is either
//! pinned or decided by the `Chooser`.

use crate::explore::{Chooser, Livelock};
use bytes::Bytes;
use http::HeaderMap;
use http_body::{Body, Frame};
use std::future::Future;
use std::pin::Pin;
use std::sync::atomic::{AtomicU64, Ordering};
use std::sync::Arc;
use std::task::{Context, Poll, Waker};
use tokio_stream::Stream;
use tonic::Status;

pub mod sched;
pub mod vnet;

/// How many polls after the end of a scripted source are tolerated before the execution is
/// declared a busy loop.
pub const POST_END_POLL_CAP: u64 = 64;

/// Flag raised on the chooser when a scripted message source is polled after its end.
pub const SOURCE_POLLED_AFTER_END: &str = "source-polled-after-end";

/// Minimal executor: polls with a no-op waker until ready or until `budget` polls were spent.
pub fn spin_block_on<F: Future>(fut: F, budget: usize) -> Result<F::Output, Stalled> {
    let mut fut = std::pin::pin!(fut);
    let (waker, wakes) = counting_waker();
    let mut cx = Context::from_waker(&waker);
    for _ in 0..budget {
        let before = wakes.0.load(Ordering::SeqCst);
        if let Poll::Ready(v) = fut.as_mut().poll(&mut cx) {
            return Ok(v);
        }
        // Every scripted environment object wakes its caller before it answers `Pending`, and
        // there is no other task or thread: a `Pending` during which the waker was never called
        // means nothing will ever wake this future — under a real executor it sleeps forever.
        if wakes.0.load(Ordering::SeqCst) == before {
            return Err(Stalled);
        }
    }
    Err(Stalled)
}

/// A waker that counts how often it was called.
pub struct WakeCounter(pub AtomicU64);
impl std::task::Wake for WakeCounter {
    fn wake(self: Arc<Self>) {
        self.0.fetch_add(1, Ordering::SeqCst);
    }
    fn wake_by_ref(self: &Arc<Self>) {
        self.0.fetch_add(1, Ordering::SeqCst);
    }
}
pub fn counting_waker() -> (Waker, Arc<WakeCounter>) {
    let c = Arc::new(WakeCounter(AtomicU64::new(0)));
    (Waker::from(c.clone()), c)
}

#[derive(Debug, Clone, Copy, PartialEq, Eq)]
pub struct Stalled;

/// Poll a future exactly once.
pub fn poll_once<F: Future + Unpin>(fut: &mut F) -> Poll<F::Output> {
    let mut cx = Context::from_waker(Waker::noop());
    Pin::new(fut).poll(&mut cx)
}

#[derive(Clone, Debug)]
pub enum Chunking {
    /// The chooser decides the length of every DATA frame. `free`: cut points cost nothing
    /// (exhaustive over all compositions); otherwise each cut is a deviation from "deliver all".
    /// `pending`/`empty`: also offer a `Pending` answer / an empty DATA frame (always deviations).
    Choose {
        free: bool,
        pending: bool,
        empty: bool,
    },
    /// Fixed frame lengths (cyclic); no choices.
    Fixed(Vec<usize>),
}

#[derive(Clone, Debug)]
pub enum BodyEnd {
    /// End of stream (after the trailers, if any).
    Clean,
    /// The body fails with this status once `at` bytes have been delivered.
    Error { at: usize, status: Status },
    /// After the data the peer keeps the stream open and silent: `Pending` for ever, no wake-up.
    NeverEnds,
}

/// Counters shared with the harness after the body moved into tonic.
#[derive(Default, Debug)]
pub struct BodyStats {
    pub polls: AtomicU64,
    pub polls_after_end: AtomicU64,
    pub frames: AtomicU64,
    pub cuts_inside: AtomicU64,
    /// bytes delivered so far
    pub delivered: AtomicU64,
    /// end offset of every DATA frame delivered
    pub chunk_ends: std::sync::Mutex<Vec<usize>>,
}

/// An `http_body::Body` whose every answer is scripted or chosen.
pub struct ScriptBody {
    data: Bytes,
    pos: usize,
    trailers: Option<HeaderMap>,
    end: BodyEnd,
    chunking: Chunking,
    fixed_i: usize,
    ch: Chooser,
    last_pending: bool,
    ended: bool,
    errored: bool,
    /// the body announces its exact remaining length (a content-length) and its end
    sized: bool,
    pub stats: Arc<BodyStats>,
    /// Offsets where a cut is "interesting" for the non-triviality rule (e.g. inside a prefix).
    pub marks: Arc<Vec<usize>>,
}

impl ScriptBody {
    pub fn new(data: impl Into<Bytes>, trailers: Option<HeaderMap>, chunking: Chunking, ch: &Chooser) -> Self {
        ScriptBody {
            data: data.into(),
            pos: 0,
            trailers,
            end: BodyEnd::Clean,
            chunking,
            fixed_i: 0,
            ch: ch.clone(),
            last_pending: false,
            ended: false,
            errored: false,
            sized: false,
            stats: Arc::new(BodyStats::default()),
            marks: Arc::new(vec![]),
        }
    }
    pub fn with_end(mut self, end: BodyEnd) -> Self {
        self.end = end;
        self
    }
    /// Like a body that arrived with a content-length: exact `size_hint`, honest `is_end_stream`.
    pub fn with_exact_size(mut self) -> Self {
        self.sized = true;
        self
    }
    pub fn with_marks(mut self, marks: Vec<usize>) -> Self {
        self.marks = Arc::new(marks);
        self
    }
    pub fn stats(&self) -> Arc<BodyStats> {
        self.stats.clone()
    }
    fn limit(&self) -> usize {
        match &self.end {
            BodyEnd::Clean | BodyEnd::NeverEnds => self.data.len(),
            BodyEnd::Error { at, .. } => (*at).min(self.data.len()),
        }
    }
}

impl Body for ScriptBody {
    type Data = Bytes;
    type Error = Status;

    fn poll_frame(
        mut self: Pin<&mut Self>,
        cx: &mut Context<'_>,
    ) -> Poll<Option<Result<Frame<Bytes>, Status>>> {
        let this = &mut *self;
        this.stats.polls.fetch_add(1, Ordering::Relaxed);
        if this.ended {
            let n = this.stats.polls_after_end.fetch_add(1, Ordering::Relaxed) + 1;
            if n > POST_END_POLL_CAP {
                std::panic::panic_any(Livelock(format!(
                    "body polled {n} times after it ended"
                )));
            }
            return Poll::Ready(None);
        }
        let limit = this.limit();
        let remaining = limit - this.pos;
        if remaining > 0 {
            let len = match &this.chunking {
                Chunking::Fixed(pat) => {
                    let l = if pat.is_empty() { remaining } else { pat[this.fixed_i % pat.len()] };
                    this.fixed_i += 1;
                    if l == 0 {
                        0
                    } else {
                        l.min(remaining)
                    }
                }
                Chunking::Choose { free, pending, empty } => {
                    // option 0: everything that remains; options 1..remaining-1: that many bytes;
                    // then (optionally) Pending, then (optionally) an empty frame.
                    let can_pending = *pending && !this.last_pending;
                    let extra = can_pending as usize + *empty as usize;
                    let cut_opts = remaining; // 0 => all, k in 1..remaining => k bytes
                    let c = if *free {
                        // cuts are free, pending/empty are still deviations: ask in two steps
                        let c = this.ch.pick(cut_opts);
                        if c == 0 && extra > 0 {
                            let d = this.ch.deviate(1 + extra);
                            if d == 0 { 0 } else { cut_opts + d - 1 }
                        } else {
                            c
                        }
                    } else {
                        this.ch.deviate(cut_opts + extra)
                    };
                    if c >= cut_opts {
                        let which = c - cut_opts;
                        if can_pending && which == 0 {
                            this.last_pending = true;
                            cx.waker().wake_by_ref();
                            return Poll::Pending;
                        }
                        // empty DATA frame
                        this.last_pending = false;
                        this.stats.frames.fetch_add(1, Ordering::Relaxed);
                        return Poll::Ready(Some(Ok(Frame::data(Bytes::new()))));
                    }
                    if c == 0 { remaining } else { c }
                }
            };
            this.last_pending = false;
            let chunk = this.data.slice(this.pos..this.pos + len);
            this.pos += len;
            this.stats.frames.fetch_add(1, Ordering::Relaxed);
            this.stats.delivered.store(this.pos as u64, Ordering::Relaxed);
            this.stats.chunk_ends.lock().unwrap().push(this.pos);
            if this.pos < limit && this.marks.contains(&this.pos) {
                this.stats.cuts_inside.fetch_add(1, Ordering::Relaxed);
            }
            return Poll::Ready(Some(Ok(Frame::data(chunk))));
        }
        // data delivered up to the limit
        if let BodyEnd::NeverEnds = &this.end {
            return Poll::Pending;
        }
        if let BodyEnd::Error { status, .. } = &this.end {
            if !this.errored {
                this.errored = true;
                this.ended = true;
                return Poll::Ready(Some(Err(status.clone())));
            }
        }
        if let Some(t) = this.trailers.take() {
            return Poll::Ready(Some(Ok(Frame::trailers(t))));
        }
        this.ended = true;
        Poll::Ready(None)
    }

    fn is_end_stream(&self) -> bool {
        self.sized && matches!(self.end, BodyEnd::Clean) && self.trailers.is_none() && self.pos >= self.data.len()
    }

    fn size_hint(&self) -> http_body::SizeHint {
        if self.sized && matches!(self.end, BodyEnd::Clean) {
            http_body::SizeHint::with_exact((self.data.len() - self.pos) as u64)
        } else {
            http_body::SizeHint::default()
        }
    }
}

/// One scripted item of a message source.
#[derive(Clone, Debug)]
pub enum Item<T> {
    Msg(T),
    Err(Status),
}

/// A `Stream<Item = Result<T, Status>>` that may answer `Pending` (a deviation) before any item
/// and before the end.
/// Chooser flag: scripted message sources of this execution report an exact `size_hint`.
pub const EXACT_SIZE_HINT: &str = "cfg:exact-size-hint";

pub struct ScriptStream<T> {
    items: std::collections::VecDeque<Item<T>>,
    exact_hint: bool,
    ch: Chooser,
    allow_pending: bool,
    last_pending: bool,
    ended: bool,
    pub polls_after_end: Arc<AtomicU64>,
    pub pendings: Arc<AtomicU64>,
}

impl<T> ScriptStream<T> {
    pub fn new(items: Vec<Item<T>>, allow_pending: bool, ch: &Chooser) -> Self {
        ScriptStream {
            items: items.into(),
            exact_hint: ch.has_flag(EXACT_SIZE_HINT),
            ch: ch.clone(),
            allow_pending,
            last_pending: false,
            ended: false,
            polls_after_end: Arc::new(AtomicU64::new(0)),
            pendings: Arc::new(AtomicU64::new(0)),
        }
    }
}

impl<T: Unpin> Stream for ScriptStream<T> {
    type Item = Result<T, Status>;
    fn poll_next(mut self: Pin<&mut Self>, cx: &mut Context<'_>) -> Poll<Option<Self::Item>> {
        let this = &mut *self;
        if this.ended {
            // a `Stream` must not be polled again after it returned `None` (a legitimate stream
            // may panic or start over): remember it for the oracle
            this.ch.flag(SOURCE_POLLED_AFTER_END);
            let n = this.polls_after_end.fetch_add(1, Ordering::Relaxed) + 1;
            if n > POST_END_POLL_CAP {
                std::panic::panic_any(Livelock(format!(
                    "message source polled {n} times after it ended"
                )));
            }
            return Poll::Ready(None);
        }
        if this.allow_pending && !this.last_pending && this.ch.deviate(2) == 1 {
            this.last_pending = true;
            this.pendings.fetch_add(1, Ordering::Relaxed);
            cx.waker().wake_by_ref();
            return Poll::Pending;
        }
        this.last_pending = false;
        match this.items.pop_front() {
            Some(Item::Msg(m)) => Poll::Ready(Some(Ok(m))),
            Some(Item::Err(s)) => Poll::Ready(Some(Err(s))),
            None => {
                this.ended = true;
                Poll::Ready(None)
            }
        }
    }
    fn size_hint(&self) -> (usize, Option<usize>) {
        if self.exact_hint {
            (self.items.len(), Some(self.items.len()))
        } else {
            (0, None)
        }
    }
}

/// Everything a body produced, collected by polling it to exhaustion.
#[derive(Debug, Clone, Default)]
pub struct Collected {
    /// DATA frames exactly as produced.
    pub frames: Vec<Bytes>,
    /// Every trailers frame, in order.
    pub trailers: Vec<HeaderMap>,
    pub error: Option<Status>,
    /// Sequence of frame kinds: 'D' data, 'T' trailers, 'E' error.
    pub order: String,
    /// Polls that returned `Pending`.
    pub pendings: usize,
    /// a poll answered `Pending` without the waker having been called (implies `stalled`)
    pub lost_wakeup: bool,
    /// Whether the body failed to finish within the poll budget.
    pub stalled: bool,
    /// is_end_stream() right after the last frame
    pub end_stream_flag: bool,
}

impl Collected {
    pub fn bytes(&self) -> Vec<u8> {
        let mut v = vec![];
        for f in &self.frames {
            v.extend_from_slice(f);
        }
        v
    }
}

/// Poll `body` until it returns `None`, an error, or the budget runs out.
pub fn collect_body<B>(body: B, budget: usize) -> Collected
where
    B: Body,
    B::Data: bytes::Buf,
    B::Error: Into<Box<dyn std::error::Error + Send + Sync>>,
{
    let mut body = std::pin::pin!(body);
    let mut out = Collected::default();
    let (waker, wakes) = counting_waker();
    let mut cx = Context::from_waker(&waker);
    for _ in 0..budget {
        let before = wakes.0.load(Ordering::SeqCst);
        match body.as_mut().poll_frame(&mut cx) {
            Poll::Pending => {
                out.pendings += 1;
                // see spin_block_on: `Pending` without a wake-up = the body would never be polled again
                if wakes.0.load(Ordering::SeqCst) == before {
                    out.lost_wakeup = true;
                    out.stalled = true;
                    return out;
                }
            }
            Poll::Ready(None) => {
                out.end_stream_flag = body.is_end_stream();
                return out;
            }
            Poll::Ready(Some(Ok(frame))) => match frame.into_data() {
                Ok(mut d) => {
                    use bytes::Buf;
                    out.order.push('D');
                    out.frames.push(d.copy_to_bytes(d.remaining()));
                }
                Err(frame) => {
                    if let Ok(t) = frame.into_trailers() {
                        out.order.push('T');
                        out.trailers.push(t);
                    }
                }
            },
            Poll::Ready(Some(Err(e))) => {
                out.order.push('E');
                let e: Box<dyn std::error::Error + Send + Sync> = e.into();
                out.error = Some(Status::from_error(e));
                return out;
            }
        }
    }
    out.stalled = true;
    out
}

pub fn hex(b: &[u8]) -> String {
    let mut s = String::with_capacity(b.len() * 2);
    for x in b {
        s.push_str(&format!("{x:02x}"));
    }
    s
}

/// Render a header map deterministically (insertion order per http's iteration, which is
/// deterministic for a given construction sequence).
pub fn fmt_headers(h: &HeaderMap) -> String {
    let mut v: Vec<String> = h
        .iter()
        .map(|(k, v)| format!("{}={}", k.as_str(), String::from_utf8_lossy(v.as_bytes()).escape_debug()))
        .collect();
    v.sort();
    v.join(";")
}

pub fn fmt_status(s: &Status) -> String {
    format!(
        "Status{{code={:?},msg={:?},details={},md=[{}]}}",
        s.code(),
        s.message(),
        hex(s.details()),
        fmt_headers(&s.metadata().clone().into_headers())
    )
}

// ---------------------------------------------------------------------------------------------
// DATA frames whose `Buf` is not one contiguous slice

/// A `Buf` made of several `Bytes` segments (what an adapter that chains leftover bytes in front
/// of the next read hands over): `chunk()` only ever shows the first non-empty segment.
#[derive(Debug, Clone)]
pub struct SegBuf {
    parts: std::collections::VecDeque<Bytes>,
}

impl SegBuf {
    /// `segments` > 1 cuts the frame into that many nearly equal segments.
    pub fn cut(b: Bytes, segments: usize) -> Self {
        let mut parts = std::collections::VecDeque::new();
        let n = b.len();
        if segments <= 1 || n < 2 {
            parts.push_back(b);
        } else {
            let k = segments.min(n);
            let mut prev = 0;
            for i in 1..=k {
                let at = n * i / k;
                parts.push_back(b.slice(prev..at));
                prev = at;
            }
        }
        SegBuf { parts }
    }
}

impl bytes::Buf for SegBuf {
    fn remaining(&self) -> usize {
        self.parts.iter().map(|p| p.len()).sum()
    }
    fn chunk(&self) -> &[u8] {
        self.parts.iter().find(|p| !p.is_empty()).map(|p| &p[..]).unwrap_or(&[])
    }
    fn advance(&mut self, mut cnt: usize) {
        while cnt > 0 {
            let front = self.parts.front_mut().expect("advance past the end of a SegBuf");
            if front.len() <= cnt {
                cnt -= front.len();
                self.parts.pop_front();
            } else {
                bytes::Buf::advance(front, cnt);
                cnt = 0;
            }
        }
        while self.parts.front().map(|p| p.is_empty()).unwrap_or(false) {
            self.parts.pop_front();
        }
    }
}

/// Body adapter: every DATA frame of the inner body is handed over as a `SegBuf` of `segments`
/// segments (1 = contiguous, as hyper delivers them).
pub struct Segmented<B> {
    pub inner: B,
    pub segments: usize,
}

impl<B: Body<Data = Bytes> + Unpin> Body for Segmented<B> {
    type Data = SegBuf;
    type Error = B::Error;
    fn poll_frame(mut self: Pin<&mut Self>, cx: &mut Context<'_>) -> Poll<Option<Result<Frame<SegBuf>, B::Error>>> {
        let segments = self.segments;
        match Pin::new(&mut self.inner).poll_frame(cx) {
            Poll::Pending => Poll::Pending,
            Poll::Ready(None) => Poll::Ready(None),
            Poll::Ready(Some(Err(e))) => Poll::Ready(Some(Err(e))),
            Poll::Ready(Some(Ok(f))) => Poll::Ready(Some(Ok(f.map_data(|d| SegBuf::cut(d, segments))))),
        }
    }
    fn is_end_stream(&self) -> bool {
        self.inner.is_end_stream()
    }
    fn size_hint(&self) -> http_body::SizeHint {
        self.inner.size_hint()
    }
}
