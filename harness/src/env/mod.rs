//! Owned environments: every source of nondeterminism the code under test can see is either
//! pinned or decided by the `Chooser`.

use crate::explore::{Chooser, Livelock};
use bytes::Bytes;
use http::HeaderMap;
use http_body::{Body, Frame};
use std::future::Future;
use std::pin::Pin;
use std::sync::atomic::{AtomicU64, Ordering};
use std::sync::Arc;
use std::task::{Context, Poll, Waker};
use tokio_stream::Stream;
use tonic::Status;

pub mod sched;
pub mod vnet;

/// How many polls after the end of a scripted source are tolerated before the execution is
/// declared a busy loop.
pub const POST_END_POLL_CAP: u64 = 64;

/// Flag raised on the chooser when a scripted message source is polled after its end.
pub const SOURCE_POLLED_AFTER_END: &str = "source-polled-after-end";

/// Minimal executor: polls with a no-op waker until ready or until `budget` polls were spent.
pub fn spin_block_on<F: Future>(fut: F, budget: usize) -> Result<F::Output, Stalled> {
    let mut fut = std::pin::pin!(fut);
    let mut cx = Context::from_waker(Waker::noop());
    for _ in 0..budget {
        if let Poll::Ready(v) = fut.as_mut().poll(&mut cx) {
            return Ok(v);
        }
    }
    Err(Stalled)
}

#[derive(Debug, Clone, Copy, PartialEq, Eq)]
pub struct Stalled;

/// Poll a future exactly once.
pub fn poll_once<F: Future + Unpin>(fut: &mut F) -> Poll<F::Output> {
    let mut cx = Context::from_waker(Waker::noop());
    Pin::new(fut).poll(&mut cx)
}

#[derive(Clone, Debug)]
pub enum Chunking {
    /// The chooser decides the length of every DATA frame. `free`: cut points cost nothing
    /// (exhaustive over all compositions); otherwise each cut is a deviation from "deliver all".
    /// `pending`/`empty`: also offer a `Pending` answer / an empty DATA frame (always deviations).
    Choose {
        free: bool,
        pending: bool,
        empty: bool,
    },
    /// Fixed frame lengths (cyclic); no choices.
    Fixed(Vec<usize>),
}

#[derive(Clone, Debug)]
pub enum BodyEnd {
    /// End of stream (after the trailers, if any).
    Clean,
    /// The body fails with this status once `at` bytes have been delivered.
    Error { at: usize, status: Status },
}

/// Counters shared with the harness after the body moved into tonic.
#[derive(Default, Debug)]
pub struct BodyStats {
    pub polls: AtomicU64,
    pub polls_after_end: AtomicU64,
    pub frames: AtomicU64,
    pub cuts_inside: AtomicU64,
    /// bytes delivered so far
    pub delivered: AtomicU64,
    /// end offset of every DATA frame delivered
    pub chunk_ends: std::sync::Mutex<Vec<usize>>,
}

/// An `http_body::Body` whose every answer is scripted or chosen.
pub struct ScriptBody {
    data: Bytes,
    pos: usize,
    trailers: Option<HeaderMap>,
    end: BodyEnd,
    chunking: Chunking,
    fixed_i: usize,
    ch: Chooser,
    last_pending: bool,
    ended: bool,
    errored: bool,
    pub stats: Arc<BodyStats>,
    /// Offsets where a cut is "interesting" for the non-triviality rule (e.g. inside a prefix).
    pub marks: Arc<Vec<usize>>,
}

impl ScriptBody {
    pub fn new(data: impl Into<Bytes>, trailers: Option<HeaderMap>, chunking: Chunking, ch: &Chooser) -> Self {
        ScriptBody {
            data: data.into(),
            pos: 0,
            trailers,
            end: BodyEnd::Clean,
            chunking,
            fixed_i: 0,
            ch: ch.clone(),
            last_pending: false,
            ended: false,
            errored: false,
            stats: Arc::new(BodyStats::default()),
            marks: Arc::new(vec![]),
        }
    }
    pub fn with_end(mut self, end: BodyEnd) -> Self {
        self.end = end;
        self
    }
    pub fn with_marks(mut self, marks: Vec<usize>) -> Self {
        self.marks = Arc::new(marks);
        self
    }
    pub fn stats(&self) -> Arc<BodyStats> {
        self.stats.clone()
    }
    fn limit(&self) -> usize {
        match &self.end {
            BodyEnd::Clean => self.data.len(),
            BodyEnd::Error { at, .. } => (*at).min(self.data.len()),
        }
    }
}

impl Body for ScriptBody {
    type Data = Bytes;
    type Error = Status;

    fn poll_frame(
        mut self: Pin<&mut Self>,
        cx: &mut Context<'_>,
    ) -> Poll<Option<Result<Frame<Bytes>, Status>>> {
        let this = &mut *self;
        this.stats.polls.fetch_add(1, Ordering::Relaxed);
        if this.ended {
            let n = this.stats.polls_after_end.fetch_add(1, Ordering::Relaxed) + 1;
            if n > POST_END_POLL_CAP {
                std::panic::panic_any(Livelock(format!(
                    "body polled {n} times after it ended"
                )));
            }
            return Poll::Ready(None);
        }
        let limit = this.limit();
        let remaining = limit - this.pos;
        if remaining > 0 {
            let len = match &this.chunking {
                Chunking::Fixed(pat) => {
                    let l = if pat.is_empty() { remaining } else { pat[this.fixed_i % pat.len()] };
                    this.fixed_i += 1;
                    if l == 0 {
                        0
                    } else {
                        l.min(remaining)
                    }
                }
                Chunking::Choose { free, pending, empty } => {
                    // option 0: everything that remains; options 1..remaining-1: that many bytes;
                    // then (optionally) Pending, then (optionally) an empty frame.
                    let can_pending = *pending && !this.last_pending;
                    let extra = can_pending as usize + *empty as usize;
                    let cut_opts = remaining; // 0 => all, k in 1..remaining => k bytes
                    let c = if *free {
                        // cuts are free, pending/empty are still deviations: ask in two steps
                        let c = this.ch.pick(cut_opts);
                        if c == 0 && extra > 0 {
                            let d = this.ch.deviate(1 + extra);
                            if d == 0 { 0 } else { cut_opts + d - 1 }
                        } else {
                            c
                        }
                    } else {
                        this.ch.deviate(cut_opts + extra)
                    };
                    if c >= cut_opts {
                        let which = c - cut_opts;
                        if can_pending && which == 0 {
                            this.last_pending = true;
                            cx.waker().wake_by_ref();
                            return Poll::Pending;
                        }
                        // empty DATA frame
                        this.last_pending = false;
                        this.stats.frames.fetch_add(1, Ordering::Relaxed);
                        return Poll::Ready(Some(Ok(Frame::data(Bytes::new()))));
                    }
                    if c == 0 { remaining } else { c }
                }
            };
            this.last_pending = false;
            let chunk = this.data.slice(this.pos..this.pos + len);
            this.pos += len;
            this.stats.frames.fetch_add(1, Ordering::Relaxed);
            this.stats.delivered.store(this.pos as u64, Ordering::Relaxed);
            this.stats.chunk_ends.lock().unwrap().push(this.pos);
            if this.pos < limit && this.marks.contains(&this.pos) {
                this.stats.cuts_inside.fetch_add(1, Ordering::Relaxed);
            }
            return Poll::Ready(Some(Ok(Frame::data(chunk))));
        }
        // data delivered up to the limit
        if let BodyEnd::Error { status, .. } = &this.end {
            if !this.errored {
                this.errored = true;
                this.ended = true;
                return Poll::Ready(Some(Err(status.clone())));
            }
        }
        if let Some(t) = this.trailers.take() {
            return Poll::Ready(Some(Ok(Frame::trailers(t))));
        }
        this.ended = true;
        Poll::Ready(None)
    }
}

/// One scripted item of a message source.
#[derive(Clone, Debug)]
pub enum Item<T> {
    Msg(T),
    Err(Status),
}

/// A `Stream<Item = Result<T, Status>>` that may answer `Pending` (a deviation) before any item
/// and before the end.
pub struct ScriptStream<T> {
    items: std::collections::VecDeque<Item<T>>,
    ch: Chooser,
    allow_pending: bool,
    last_pending: bool,
    ended: bool,
    pub polls_after_end: Arc<AtomicU64>,
    pub pendings: Arc<AtomicU64>,
}

impl<T> ScriptStream<T> {
    pub fn new(items: Vec<Item<T>>, allow_pending: bool, ch: &Chooser) -> Self {
        ScriptStream {
            items: items.into(),
            ch: ch.clone(),
            allow_pending,
            last_pending: false,
            ended: false,
            polls_after_end: Arc::new(AtomicU64::new(0)),
            pendings: Arc::new(AtomicU64::new(0)),
        }
    }
}

impl<T: Unpin> Stream for ScriptStream<T> {
    type Item = Result<T, Status>;
    fn poll_next(mut self: Pin<&mut Self>, cx: &mut Context<'_>) -> Poll<Option<Self::Item>> {
        let this = &mut *self;
        if this.ended {
            // a `Stream` must not be polled again after it returned `None` (a legitimate stream
            // may panic or start over): remember it for the oracle
            this.ch.flag(SOURCE_POLLED_AFTER_END);
            let n = this.polls_after_end.fetch_add(1, Ordering::Relaxed) + 1;
            if n > POST_END_POLL_CAP {
                std::panic::panic_any(Livelock(format!(
                    "message source polled {n} times after it ended"
                )));
            }
            return Poll::Ready(None);
        }
        if this.allow_pending && !this.last_pending && this.ch.deviate(2) == 1 {
            this.last_pending = true;
            this.pendings.fetch_add(1, Ordering::Relaxed);
            cx.waker().wake_by_ref();
            return Poll::Pending;
        }
        this.last_pending = false;
        match this.items.pop_front() {
            Some(Item::Msg(m)) => Poll::Ready(Some(Ok(m))),
            Some(Item::Err(s)) => Poll::Ready(Some(Err(s))),
            None => {
                this.ended = true;
                Poll::Ready(None)
            }
        }
    }
}

/// Everything a body produced, collected by polling it to exhaustion.
#[derive(Debug, Clone, Default)]
pub struct Collected {
    /// DATA frames exactly as produced.
    pub frames: Vec<Bytes>,
    /// Every trailers frame, in order.
    pub trailers: Vec<HeaderMap>,
    pub error: Option<Status>,
    /// Sequence of frame kinds: 'D' data, 'T' trailers, 'E' error.
    pub order: String,
    /// Polls that returned `Pending`.
    pub pendings: usize,
    /// Whether the body failed to finish within the poll budget.
    pub stalled: bool,
    /// is_end_stream() right after the last frame
    pub end_stream_flag: bool,
}

impl Collected {
    pub fn bytes(&self) -> Vec<u8> {
        let mut v = vec![];
        for f in &self.frames {
            v.extend_from_slice(f);
        }
        v
    }
}

/// Poll `body` until it returns `None`, an error, or the budget runs out.
pub fn collect_body<B>(body: B, budget: usize) -> Collected
where
    B: Body,
    B::Data: bytes::Buf,
    B::Error: Into<Box<dyn std::error::Error + Send + Sync>>,
{
    let mut body = std::pin::pin!(body);
    let mut out = Collected::default();
    let mut cx = Context::from_waker(Waker::noop());
    for _ in 0..budget {
        match body.as_mut().poll_frame(&mut cx) {
            Poll::Pending => out.pendings += 1,
            Poll::Ready(None) => {
                out.end_stream_flag = body.is_end_stream();
                return out;
            }
            Poll::Ready(Some(Ok(frame))) => match frame.into_data() {
                Ok(mut d) => {
                    use bytes::Buf;
                    out.order.push('D');
                    out.frames.push(d.copy_to_bytes(d.remaining()));
                }
                Err(frame) => {
                    if let Ok(t) = frame.into_trailers() {
                        out.order.push('T');
                        out.trailers.push(t);
                    }
                }
            },
            Poll::Ready(Some(Err(e))) => {
                out.order.push('E');
                let e: Box<dyn std::error::Error + Send + Sync> = e.into();
                out.error = Some(Status::from_error(e));
                return out;
            }
        }
    }
    out.stalled = true;
    out
}

pub fn hex(b: &[u8]) -> String {
    let mut s = String::with_capacity(b.len() * 2);
    for x in b {
        s.push_str(&format!("{x:02x}"));
    }
    s
}

/// Render a header map deterministically (insertion order per http's iteration, which is
/// deterministic for a given construction sequence).
pub fn fmt_headers(h: &HeaderMap) -> String {
    let mut v: Vec<String> = h
        .iter()
        .map(|(k, v)| format!("{}={}", k.as_str(), String::from_utf8_lossy(v.as_bytes()).escape_debug()))
        .collect();
    v.sort();
    v.join(";")
}

pub fn fmt_status(s: &Status) -> String {
    format!(
        "Status{{code={:?},msg={:?},details={},md=[{}]}}",
        s.code(),
        s.message(),
        hex(s.details()),
        fmt_headers(&s.metadata().clone().into_headers())
    )
}
